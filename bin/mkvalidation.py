#!/usr/bin/env python3
"""Regenerates VALIDATION.md from seeded/*/meta.json and seeded/hand_mutants_result.json."""
import json, glob, os
V = os.path.dirname(os.path.dirname(os.path.abspath(__file__)))
out = ["# VALIDATION — which check catches which seeded change", "",
"Seeded changes were written by fresh sub-agents that saw only the text of one property and a private worktree of the",
"repository (nothing from /verif). Each was confirmed here before it was kept: it builds, the repository's own tests pass",
"with it, its demonstration fails with the change and passes without (`bin/confirmseed.sh`). The checks were run against",
"the worktree with the change applied (`bin/tryseed.sh`, i.e. `VERIF_REPO=<worktree> bin/vcheck ...`; evidence redirected,",
"/repo untouched). `seeded/<id>/` holds patch.diff, the demonstration, the agent's README and meta.json.", "",
"| seeded change | property | what it needs to manifest | caught by | note |", "|---|---|---|---|---|"]
for d in sorted(glob.glob(os.path.join(V, "seeded", "*", "meta.json"))):
    m = json.load(open(d))
    out.append(f"| {m['id']} | {m['property']} | {m['needs_to_manifest']} | {m['caught_by']} | {m.get('note','')} |")
hm = os.path.join(V, "seeded", "hand_mutants_result.json")
if os.path.exists(hm):
    out += ["", "## Hand-written mutants (DESIGN.md section 3, items M)", "",
            "Applied one at a time to a scratch worktree by `bin/mutants.py` (not independent of the checks' author; kept as a regression list).", "",
            "| mutant | file | repository tests pass | result |", "|---|---|---|---|"]
    for r in json.load(open(hm)):
        res = "; ".join(r["caught"]) if r["caught"] else "**MISSED** by " + ",".join(r["checks_run"])
        out.append(f"| {r['mutant']} | {r['file']} | {r['repo_tests_pass']} | {res} |")
open(os.path.join(V, "VALIDATION.md"), "w").write("\n".join(out) + "\n")
print("VALIDATION.md written,", len(out), "lines")
