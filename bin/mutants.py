#!/usr/bin/env python3
"""mutants.py [name-filter]  — applies each hand-written mutant (DESIGN.md section 3, items M) to a scratch worktree of
/repo, confirms it builds and passes the repository's own tests, runs the listed checks (quick, then thorough if quick is
silent) against the scratch copy and prints which check / tier / key caught it. Nothing is written to /repo or to the
committed evidence."""
import subprocess, sys, os, re, json, time

WT = "/tmp/mut-scratch-%d" % os.getpid()
VERIF = os.path.dirname(os.path.dirname(os.path.abspath(__file__)))
ENV = dict(os.environ, GOPROXY="off", GOSUMDB="off", GOTOOLCHAIN="local")
ENV.pop("GOFLAGS", None)

# (name, file, old, new, [checks])
M = [
 # C01 / C02 / C13 (builders, protocol)
 ("swap-ids-uplinknas", "src/tglib/ngapTestpacket/build.go", "	aMFUENGAPID.Value = amfUeNgapID\n\n	uplinkNasTransportIEs.List = append(uplinkNasTransportIEs.List, ie)", "	aMFUENGAPID.Value = ranUeNgapID\n\n	uplinkNasTransportIEs.List = append(uplinkNasTransportIEs.List, ie)", ["C13", "C01"]),
 ("drop-ulcount-addone", "src/tglib/security.go", "		// Increase UL Count\n		ue.ULCount.AddOne()", "		// Increase UL Count", ["C06", "C01"]),
 ("mac-direction-downlink", "src/tglib/security.go", "			security.Bearer3GPP, security.DirectionUplink, payload)\n		if err != nil {\n			return\n		}\n\n		// Add mac value", "			security.Bearer3GPP, security.DirectionDownlink, payload)\n		if err != nil {\n			return\n		}\n\n		// Add mac value", ["C06", "C01"]),
 ("kamf-fc-swap", "src/tglib/ranUe.go", "UeauCommon.GetKDFValue(Kseaf, UeauCommon.FC_FOR_KAMF_DERIVATION, P0, L0, P1, L1)", "UeauCommon.GetKDFValue(Kseaf, UeauCommon.FC_FOR_KSEAF_DERIVATION, P0, L0, P1, L1)", ["C05", "C01"]),
 ("smc-complete-header-type-2", "src/stgutg/ue.go", "nas.SecurityHeaderTypeIntegrityProtectedAndCipheredWithNew5gNasSecurityContext,\n		true,\n		true)", "nas.SecurityHeaderTypeIntegrityProtectedAndCiphered,\n		true,\n		true)", ["C01"]),
 ("snname-no-zero-pad", "src/stgutg/ue.go", 'snName = "5G:mnc0" + mnc', 'snName = "5G:mnc" + mnc', ["C01"]),
 ("psi-hardcoded-in-setup-response", "src/tglib/ngapTestpacket/build.go", None, None, []),
 ("min-clamp-removed", "stg-utg.go", "		pdu_release_number := stgutg.Min(pdu_establishment_number,\n			c.Configuration.Test_ue_pdu_release)", "		pdu_release_number := c.Configuration.Test_ue_pdu_release", ["C02"]),
 ("release-loop-index0", "stg-utg.go", "			stgutg.ReleasePDU(c.Configuration.SST,\n				c.Configuration.SD,\n				ueList[i],\n				conn)", "			stgutg.ReleasePDU(c.Configuration.SST,\n				c.Configuration.SD,\n				ueList[0],\n				conn)", ["C02"]),
 ("service-resets-ulcount", "src/stgutg/service.go", "	pdu = nasTestpacket.GetServiceRequest(nasMessage.ServiceTypeData)\n", "	pdu = nasTestpacket.GetServiceRequest(nasMessage.ServiceTypeData)\n	ue.ULCount.Set(0, 0)\n", ["C02"]),
 ("establish-read-again-while-buffer-full", "src/stgutg/pdu.go", "	n, err := conn.Read(recvMsg)\n	ManageError(\"Error establishing PDU\", err)\n\n	msg, err := ngap.Decoder(recvMsg[:n])", "	n, err := conn.Read(recvMsg)\n	ManageError(\"Error establishing PDU\", err)\n	for n == len(recvMsg) {\n		more := make([]byte, 2048)\n		m, err := conn.Read(more)\n		ManageError(\"Error establishing PDU\", err)\n		recvMsg = append(recvMsg, more[:m]...)\n		n += m\n	}\n\n	msg, err := ngap.Decoder(recvMsg[:n])", ["C02"]),
 ("teid-plus-one", "src/stgutg/pdu.go", "			teid = binary.BigEndian.Uint32(UPTransportLayerInfo[UPTrasportLayerInfoLength-4:])", "			teid = binary.BigEndian.Uint32(UPTransportLayerInfo[UPTrasportLayerInfoLength-4:]) + 1", ["C12", "C02"]),
 # C03 / C04 / C14 (aper)
 ("constraint-255-lt", "src/free5gclib/aper/marshal.go", "	if valueRange <= 255 {\n		if valueRange < 0 {\n			err = fmt.Errorf(\"Value range is negative\")\n			return\n		}\n		var i uint\n		// 1 ~ 8 bits\n		for i = 1; i <= 8; i++ {\n			upper := 1 << i\n			if int64(upper) >= valueRange {\n				break\n			}\n		}\n		err = pd.putBitsValue(value, i)", "	if valueRange < 255 {\n		if valueRange < 0 {\n			err = fmt.Errorf(\"Value range is negative\")\n			return\n		}\n		var i uint\n		// 1 ~ 8 bits\n		for i = 1; i <= 8; i++ {\n			upper := 1 << i\n			if int64(upper) >= valueRange {\n				break\n			}\n		}\n		err = pd.putBitsValue(value, i)", ["C03", "C04"]),
 ("fixed-octets-gt3", "src/free5gclib/aper/marshal.go", "		if byteLen > 2 {\n			pd.appendAlignBits()", "		if byteLen > 3 {\n			pd.appendAlignBits()", ["C03", "C04"]),
 ("decoder-fixed-octets-gt3", "src/free5gclib/aper/aper.go", "		if ub > 2 {\n			unsignedUB := uint64(ub)", "		if ub > 3 {\n			unsignedUB := uint64(ub)", ["C04"]),
 ("optional-bitmap-order", "src/free5gclib/aper/marshal.go", "					optionalPresents <<= 1\n					if !v.Field(i).IsNil() {\n						optionalPresents++\n					}", "					if !v.Field(i).IsNil() {\n						optionalPresents |= 1 << (optionalCount - 1)\n					}", ["C03", "C04"]),
 ("decoder-missing-bounds-check", "src/free5gclib/aper/aper.go", "		if (rawLength + pd.byteOffset) > uint64(len(pd.bytes)) {\n			err := fmt.Errorf(\"per data out of range \")\n			return octetString, err\n		}", "", ["C14"]),
 ("choice-present-gt", "src/free5gclib/aper/aper.go", "				} else if present >= structType.NumField() {\n					return fmt.Errorf(\"CHOICE Present is bigger than number of struct field\")", "				} else if present > structType.NumField() {\n					return fmt.Errorf(\"CHOICE Present is bigger than number of struct field\")", ["C14"]),
 ("seqof-scratch-element-reused", "src/free5gclib/aper/aper.go", "			fragment := reflect.MakeSlice(sliceType, int(part), int(part))\n			for i := 0; i < int(part); i++ {\n				if err := parseField(fragment.Index(i), pd, params); err != nil {\n					return sliceContent, err\n				}\n			}", "			fragment := reflect.MakeSlice(sliceType, int(part), int(part))\n			element := reflect.New(sliceType.Elem()).Elem()\n			for i := 0; i < int(part); i++ {\n				if err := parseField(element, pd, params); err != nil {\n					return sliceContent, err\n				}\n				fragment.Index(i).Set(element)\n			}", ["C04"]),
 ("seqof-fragment-mask", "src/free5gclib/aper/marshal.go", "			} else if part >= 16384 {\n				part &= 0xc000\n			}\n			if err := pd.appendLength(-1, uint64(part)); err != nil {", "			} else if part >= 16384 {\n				part &= 0x8000\n			}\n			if err := pd.appendLength(-1, uint64(part)); err != nil {", ["C03", "C04"]),
 ("tag-amfuengapid-ub", "src/free5gclib/ngap/ngapType/AMFUENGAPID.go", "valueUB:1099511627775", "valueUB:1099511627776", ["C03"]),
 ("tag-ranuengapid-ub", "src/free5gclib/ngap/ngapType/RANUENGAPID.go", "valueUB:4294967295", "valueUB:4294967296", ["C03", "C13", "C01"]),
 # C05 / C07 / C15
 ("kenc-low-half", "src/tglib/ranUe.go", "copy(ue.KnasEnc[:], kenc[16:32])", "copy(ue.KnasEnc[:], kenc[0:16])", ["C05"]),
 ("nea1-direction-shift", "src/free5gclib/nas/security/security.go", "iv := [4]uint32{(bearer << 27) | (direction << 26), countC, (bearer << 27) | (direction << 26), countC}", "iv := [4]uint32{(bearer << 27) | (direction << 25), countC, (bearer << 27) | (direction << 26), countC}", ["C07"]),
 ("nia2-bearer-shift", "src/free5gclib/nas/security/security.go", "	m[4] = (bearer << 3) | (direction << 2)\n\n	block, err := aes.NewCipher(key[:])\n	if err != nil {\n		return nil, err\n	}\n\n	copy(m[8:], msg)", "	m[4] = (bearer << 3) | (direction << 1)\n\n	block, err := aes.NewCipher(key[:])\n	if err != nil {\n		return nil, err\n	}\n\n	copy(m[8:], msg)", ["C07", "C06"]),
 ("milenage-sqn-le", "src/free5gclib/milenage/milenage.go", "	if os_memcmp(rx_sqn, sqn, 6) <= 0 {", "	if os_memcmp(rx_sqn, sqn, 6) < 0 {", ["C15"]),
 ("milenage-c4", "src/free5gclib/milenage/milenage.go", None, None, []),
 # C06 / C10
 ("counter-mask-28", "src/free5gclib/nas/security/counter.go", "counter.count &= 0x00ffffff", "counter.count &= 0x0fffffff", ["C06"]),
 ("dl-overflow-ge", "src/tglib/security.go", "		if ue.DLCount.SQN() > sequenceNumber {", "		if ue.DLCount.SQN() >= sequenceNumber {", ["C10"]),
 ("dl-no-reset-type3", "src/tglib/security.go", "		if securityHeaderType == nas.SecurityHeaderTypeIntegrityProtectedWithNew5gNasSecurityContext ||\n			securityHeaderType == nas.SecurityHeaderTypeIntegrityProtectedAndCipheredWithNew5gNasSecurityContext {\n			ue.DLCount.Set(0, 0)", "		if securityHeaderType == nas.SecurityHeaderTypeIntegrityProtectedAndCipheredWithNew5gNasSecurityContext {\n			ue.DLCount.Set(0, 0)", ["C10"]),
 # C08 / C09
 ("nas-iei-constant", "src/free5gclib/nas/nasMessage/NAS_RegistrationAccept.go", "RegistrationAcceptT3512ValueType                               uint8 = 0x5E", "RegistrationAcceptT3512ValueType                               uint8 = 0x5D", ["C09"]),
 ("nas-msgtype-swap", "src/free5gclib/nas/nas.go", "	MsgTypeServiceReject                                    uint8 = 77\n	MsgTypeServiceAccept                                    uint8 = 78", "	MsgTypeServiceReject                                    uint8 = 78\n	MsgTypeServiceAccept                                    uint8 = 77", ["C09"]),
 # C11 / C16 / C17
 ("suci-odd-filler-low", "src/stgutg/utils.go", "			suci.Buffer[j] = 0xf<<4 | hexCharToByte(msin[i])", "			suci.Buffer[j] = hexCharToByte(msin[i])<<4 | 0xf", ["C11", "C01"]),
 ("ranid-mod-1e3", "src/stgutg/ue.go", "	ranUeNgapId := (parsedIMSI + ueNumber) % 1e4", "	ranUeNgapId := (parsedIMSI + ueNumber) % 1e3", ["C16"]),
 ("amfid-set-shift", "src/free5gclib/nas/nasConvert/AmfId.go", "amfSetId = uint16(amfIdBytes[1])<<2 + (uint16(amfIdBytes[2])&0x00c0)>>6", "amfSetId = uint16(amfIdBytes[1])<<3 + (uint16(amfIdBytes[2])&0x00c0)>>6", ["C17"]),
 ("pco-len16", "src/free5gclib/nas/nasConvert/ProtocolConfigurationOptions.go", None, None, []),
 # C12
 ("qos-plus-6", "src/stgutg/pdu.go", "	opElements := payloadContainerPlainNAS5GSMessage[5+2+QoSRulesLength+7:]", "	opElements := payloadContainerPlainNAS5GSMessage[5+2+QoSRulesLength+6:]", ["C12"]),
 # C18 / C19
 ("yaml-tag-swap", "src/stgutg/utils.go", '		Test_ue_pdu_establishment int    `yaml:"ue_pdu"`\n		Test_ue_service           int    `yaml:"ue_service"`\n		Test_ue_pdu_release       int    `yaml:"ue_pdu_release"`', '		Test_ue_pdu_establishment int    `yaml:"ue_pdu_release"`\n		Test_ue_service           int    `yaml:"ue_service"`\n		Test_ue_pdu_release       int    `yaml:"ue_pdu"`', ["C18"]),
 ("getmode-ge2", "src/stgutg/utils.go", "	} else if len(args) == 2 {", "	} else if len(args) >= 2 {", ["C18"]),
 ("manageerror-no-exit", "src/stgutg/utils.go", "		fmt.Println(message+\":\", err)\n		os.Exit(1)", "		fmt.Println(message+\":\", err)", ["C19"]),
 ("dereg-second-read-ignored", "src/stgutg/ue.go", "	n, err = conn.Read(recvMsg)\n	ManageError(\"Error deregistering UE\", err)\n\n	_, err = ngap.Decoder(recvMsg[:n]) //ngapPdu\n	ManageError(\"Error deregistering UE\", err)\n\n	sendMsg, err = tglib.GetUEContextReleaseComplete", "	n, _ = conn.Read(recvMsg)\n\n	ngap.Decoder(recvMsg[:n]) //ngapPdu\n\n	sendMsg, err = tglib.GetUEContextReleaseComplete", ["C19"]),
 # C20
 ("shared-mac-buffer", "src/tglib/security.go", None, None, []),
]

# mutants that do not break a property as stated (kept in the list, reported as such)
EQUIV = {
 "constraint-255-lt": "equivalent for C03/C04: the first branch of the constrained-whole-number encoder is only left for a range of exactly 255, and no value or size constraint of the NGAP schema has that range (254..256 occur only as 256); the properties quantify over NGAP PDUs and transfer containers",
}

def sh(cmd, cwd=None, env=ENV, timeout=3600):
    p = subprocess.run(cmd, shell=True, cwd=cwd, env=env, capture_output=True, text=True, timeout=timeout)
    return p.returncode, p.stdout + p.stderr

def main():
    flt = sys.argv[1] if len(sys.argv) > 1 else ""
    sh(f"git -C /repo worktree remove --force {WT}")
    rc, out = sh(f"git -C /repo worktree add --detach {WT} HEAD")
    if rc != 0:
        print(out); sys.exit(2)
    results = []
    try:
        for name, f, old, new, checks in M:
            if old is None or (flt and not any(f in name for f in flt.split(","))):
                continue
            path = os.path.join(WT, f)
            src = open(path).read()
            if src.count(old) != 1:
                print(f"## {name}: pattern found {src.count(old)} times - skipped"); continue
            open(path, "w").write(src.replace(old, new))
            rc, out = sh("go build ./... && go build -tags verif ./...", cwd=WT)
            if rc != 0:
                print(f"## {name}: does not build\n{out[:400]}"); open(path, "w").write(src); continue
            rc, out = sh("go test -vet=off -count=1 ./... 2>&1 | grep -v 'no test files'", cwd=os.path.join(WT, "src/free5gclib"))
            tests_ok = "FAIL" not in out
            caught = []
            for tier in ("quick", "thorough"):
                for ck in checks:
                    t0 = time.time()
                    rc, out = sh(f"bin/tryseed.sh {WT} {tier} {ck}", cwd=VERIF)
                    m = re.search(r"exit=(\d+)", out)
                    code = int(m.group(1)) if m else -1
                    keys = re.findall(r"key=(\S+)", out)
                    if code == 1:
                        caught.append(f"{ck} {tier} keys={sorted(set(keys))[:3]}")
                    elif code != 0:
                        caught.append(f"{ck} {tier} INCONCLUSIVE(exit {code})")
                if any("INCONCLUSIVE" not in c for c in caught):
                    break
            if not caught and name in EQUIV:
                caught = ["not caught, as expected - " + EQUIV[name]]
            print(f"## {name}: tests_pass={tests_ok} -> {caught if caught else 'MISSED by ' + str(checks)}", flush=True)
            results.append({"mutant": name, "file": f, "repo_tests_pass": tests_ok, "checks_run": checks, "caught": caught})
            open(path, "w").write(src)
    finally:
        sh(f"git -C /repo worktree remove --force {WT}")
    path = os.path.join(VERIF, "seeded", "hand_mutants_result.json")
    old = {r["mutant"]: r for r in (json.load(open(path)) if os.path.exists(path) else [])}
    for r in results:
        old[r["mutant"]] = r
    json.dump(list(old.values()), open(path, "w"), indent=1)

if __name__ == "__main__":
    main()
