#!/bin/bash
# mkwave.sh <dir> <slots-file> : sets up a wave of seeded-change requests for fresh sub-agents.
# slots-file lines: SLOT|PROPERTY|FILE(S)|WHAT TO AIM FOR.  Creates <dir>/INSTRUCTIONS.md, one scratch worktree of /repo per
# slot (<dir>/<SLOT>), <SLOT>.property.txt (the property's text only) and <SLOT>.ask.txt. Nothing from /verif but the
# property text and the generic instructions goes there.
D=$1; SLOTS=$2; V="$(cd "$(dirname "$0")/.." && pwd)"
mkdir -p $D; sed "s#the wave directory#$D#g" $V/seeded/_wave/INSTRUCTIONS.md > $D/INSTRUCTIONS.md
python3 - "$D" "$V" <<'P'
import json,sys
D,V=sys.argv[1:3]
for l in open(V+'/properties.jsonl'):
    p=json.loads(l); a=p['anchors']
    txt=f"PROPERTY {p['id']}: {p['title']}\n\nStatement: {p['statement']}\n\nQuantified over: {p['quantifier']['text']}\n\nAnchored in files: {', '.join(a['files'])}\n"
    if a.get('state'): txt+="State: "+"; ".join(f"{s['name']} ({s['where']})" for s in a['state'])+"\n"
    if a.get('mechanism'): txt+="Mechanism: "+"; ".join(f"{s['name']} ({s['where']})" for s in a['mechanism'])+"\n"
    if a.get('observe_at'): txt+="Observable at: "+"; ".join(a['observe_at'])+"\n"
    open(f"{D}/.{p['id']}.property.txt","w").write(txt)
P
while IFS='|' read slot prop file what; do
  [ -z "$slot" ] && continue
  git -C /repo worktree add --detach $D/$slot HEAD >/dev/null 2>&1
  cp $D/.$prop.property.txt $D/$slot.property.txt
  echo "Your change must be made in exactly this file (or, where several files or a directory are named, in ONE of them) and nowhere else: $file. What to aim for: $what. Changes that others may have made elsewhere in earlier rounds do not matter to you; do not worry about repeating an idea as long as it lives in your file." > $D/$slot.ask.txt
done < $SLOTS
rm -f $D/.C??.property.txt
ls -d $D/S?? | wc -l
