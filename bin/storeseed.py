#!/usr/bin/env python3
"""storeseed.py <name> <worktree> <property> <demo_place> <needs> <caught_by> [<note>]
Copies a confirmed seeded change into /verif/seeded/<name>/ (patch.diff, demo, agent README, meta.json)."""
import sys, os, shutil, json, glob
name, wt, prop, place, needs, caught = sys.argv[1:7]
note = sys.argv[7] if len(sys.argv) > 7 else ""
d = os.path.join(os.path.dirname(os.path.dirname(os.path.abspath(__file__))), "seeded", name)
os.makedirs(d, exist_ok=True)
for f in glob.glob(os.path.join(wt, "seed_demo", "*")):
    if os.path.isfile(f):
        dst = os.path.basename(f)
        if dst.endswith("_test.go") or dst.endswith(".go"):
            dst += ".txt"   # keep Go files out of any build
        shutil.copy(f, os.path.join(d, dst))
meta = {
    "id": name, "property": prop,
    "needs_to_manifest": needs,
    "demo": {"place_at": place, "command": "export GOPROXY=off GOSUMDB=off GOTOOLCHAIN=local; unset GOFLAGS; go test -vet=off -count=1 ./seed_demo/ (from the directory that contains seed_demo)", "with_change": "FAIL", "without_change": "ok"},
    "confirmed": ["go build ./... ok with the change", "repository tests (free5gclib/nas, nasMessage) pass with the change", "demo fails with the change and passes without (bin/confirmseed.sh)"],
    "caught_by": caught, "note": note,
    "origin": "written by a fresh sub-agent that saw only the property text and its own worktree",
}
json.dump(meta, open(os.path.join(d, "meta.json"), "w"), indent=1)
print("stored", d, os.listdir(d))
