#!/usr/bin/env python3
"""hooksync.py <repo> - exit 0 when src/tglib/ngsetup_verif.go equals src/tglib/ngsetup.go outside the verification hook
(build-tag lines, the explanatory header comment, the two extra imports and the STGUTG_VERIF_N2_FD block)."""
import sys, re, os, difflib
repo = sys.argv[1]
a = open(os.path.join(repo, "src/tglib/ngsetup.go")).read().split("\n")
b = open(os.path.join(repo, "src/tglib/ngsetup_verif.go")).read().split("\n")
def strip_common(lines):
    return [l for l in lines if not l.startswith("//go:build") and not l.startswith("// +build")]
a = strip_common(a)
out, i = [], 0
b = strip_common(b)
while i < len(b):
    l = b[i]
    if l.startswith("// Verification build of ngsetup.go") :
        while i < len(b) and b[i].startswith("//"):
            i += 1
        continue
    if l.strip() in ('"encoding/json"', '"strconv"'):
        i += 1
        continue
    if 'os.Getenv("STGUTG_VERIF_N2_FD")' in l and l.lstrip().startswith("if "):
        depth = 0
        while i < len(b):
            depth += b[i].count("{") - b[i].count("}")
            i += 1
            if depth == 0:
                break
        continue
    out.append(l)
    i += 1
norm = lambda ls: [x.rstrip() for x in ls if x.strip() != ""]
na, nb = norm(a), norm(out)
if na == nb:
    sys.exit(0)
for d in list(difflib.unified_diff(na, nb, "ngsetup.go", "ngsetup_verif.go (hook removed)", lineterm=""))[:40]:
    print(d)
sys.exit(1)
