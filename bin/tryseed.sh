#!/bin/bash
# tryseed.sh <worktree-with-the-seeded-change-applied> <tier> <ID>...
# Runs the given checks against a scratch copy of the repository (VERIF_REPO) without touching /repo or the committed evidence.
WT=$1; TIER=$2; shift 2
cd "$(dirname "$0")/.."
OUT=$(mktemp -d /var/tmp/stgutg-seedout.XXXXXX)
for id in "$@"; do
  out=$(VERIF_REPO=$WT VERIF_OUT=$OUT bin/vcheck $id $TIER 2>&1); code=$?
  echo "== $id $TIER exit=$code $(echo "$out" | grep '^SUMMARY' | cut -c1-160)"
  echo "$out" | grep -A3 -E '^(VIOLATION|INCONCLUSIVE)' | cut -c1-400 | head -16
done
rm -rf "$OUT"
