#!/usr/bin/env python3
"""seedmatrix.py [id-filter]  - regression of the seeded changes: every stored change (seeded/<id>/patch.diff) is applied to
a scratch worktree of /repo (outside /repo and /verif, removed afterwards) and the checks named in its meta.json
(caught_by, first 'Cxx quick|thorough' mentions; default: the check of its property, quick) are run against that copy.
Prints one line per change and writes seeded/matrix_result.json. /repo and the committed evidence are not touched."""
import json, os, re, subprocess, sys, glob
VERIF = os.path.dirname(os.path.dirname(os.path.abspath(__file__)))
WT = "/tmp/seedmatrix-wt-%d" % os.getpid()
env = dict(os.environ, GOPROXY="off", GOSUMDB="off", GOTOOLCHAIN="local"); env.pop("GOFLAGS", None)
def sh(cmd, cwd=None):
    p = subprocess.run(cmd, shell=True, cwd=cwd, env=env, capture_output=True, text=True)
    return p.returncode, p.stdout + p.stderr
flt = sys.argv[1] if len(sys.argv) > 1 else ""
sh(f"git -C /repo worktree remove --force {WT}")
rc, out = sh(f"git -C /repo worktree add --detach {WT} HEAD")
if rc: print(out); sys.exit(2)
results = {}
path = os.path.join(VERIF, "seeded", "matrix_result.json")
if os.path.exists(path): results = json.load(open(path))
try:
    for d in sorted(glob.glob(os.path.join(VERIF, "seeded", "C*"))):
        sid = os.path.basename(d)
        if flt and not any(f in sid for f in flt.split(",")): continue
        meta = json.load(open(os.path.join(d, "meta.json")))
        if meta.get("status") == "overtaken":
            print(f"{sid}: OVERTAKEN by a repair of the unchanged tree (patch kept for the record)"); results[sid] = {"property": meta["property"], "overtaken": True}; continue
        runs = re.findall(r"(C\d\d) (quick|thorough)", meta.get("caught_by", ""))
        if not runs: runs = [(meta["property"], "quick")]
        seen = []; 
        for r in runs:
            if r not in seen: seen.append(r)
        sh("git checkout -q -- . && git clean -fdq", cwd=WT)
        rc, out = sh(f"git apply {d}/patch.diff", cwd=WT)
        if rc: print(f"{sid}: patch does not apply: {out[:200]}"); results[sid] = {"error": "patch does not apply"}; continue
        caught = []
        for ck, tier in seen[:3]:
            rc, out = sh(f"bin/tryseed.sh {WT} {tier} {ck}", cwd=VERIF)
            m = re.search(r"exit=(\d+)", out); code = int(m.group(1)) if m else -1
            keys = sorted(set(re.findall(r"key=(\S+)", out)))
            caught.append({"check": ck, "tier": tier, "exit": code, "keys": keys[:4]})
        ok = any(c["exit"] == 1 for c in caught)
        results[sid] = {"property": meta["property"], "runs": caught, "caught": ok}
        json.dump(results, open(path, "w"), indent=1, sort_keys=True)
        print(f"{sid}: {'CAUGHT' if ok else 'MISSED'} " + "; ".join(f"{c['check']} {c['tier']} exit={c['exit']} {c['keys'][:2]}" for c in caught), flush=True)
finally:
    sh(f"git -C /repo worktree remove --force {WT}")
json.dump(results, open(path, "w"), indent=1, sort_keys=True)
