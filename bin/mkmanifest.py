#!/usr/bin/env python3
"""Regenerates /verif/MANIFEST.json from the table below (single source of truth for what is claimed)."""
import json, os, subprocess

VERIF = os.path.dirname(os.path.dirname(os.path.abspath(__file__)))

# id -> (level, technique, level text, level note, design ref)
CHECKS = {
 "C16": ("exploration",
         "runtime monitor: population-level set-membership oracle over UE contexts returned by the real CreateUE + independent capability-IE decoder",
         "Thousands of generated (initial IMSI, population, credentials) cases are executed against the real stgutg.CreateUE / tglib.NewRanUeContext in child processes; a monitor checks pairwise distinctness of SUPI and RAN-UE-NGAP-ID over the whole population, PLMN prefix and digit count, credentials and the advertised algorithm bits. Held means: on the executions listed in the evidence.",
         "Trusts the monitor's own reading of TS 24.501 9.11.3.54 for the capability bits; populations up to 10 000 only.",
         "DESIGN.md section 3 C16"),
}

CHECKS.update({
 "C03": ("exploration",
         "runtime differential monitor: library APER encoder vs an independent X.691 encoder (ref/per) on generated NGAP values; negative sweep with one component perturbed out of its constraint",
         "Generated constraint-satisfying values of every generatable NGAP message and transfer container (reflection over ngapType, boundary-biased), every leaf tag shape at bit offsets 0..7, and >=16K fragmentation cases are encoded by the real library in child processes and compared byte for byte with an independent X.691 encoder; perturbed values must be refused. A disagreement is localised to the deepest component that still disagrees stand-alone.",
         "Schema = ngapType struct tags (backed by a hand-written table of ~57 TS 38.413 constraints asserted each run); oracle ref/per self-tested on hand-derived encodings; out-of-root values of extensible constraints are outside the claim.",
         "DESIGN.md section 3 C03"),
 "C04": ("exploration",
         "runtime round-trip monitor: Decoder(Encoder(v))==v, Decoder(canonical bytes from ref/per)==v, Encoder(Decoder(b))==b, with exhaustive OPTIONAL-presence enumeration per SEQUENCE",
         "The same value stream as C03 restricted to in-root values is pushed through the real decoder and encoder; canonical encodings come from the independent encoder. All 2^k OPTIONAL combinations of every SEQUENCE type with k<=10 are enumerated, leaf shapes are decoded at all bit offsets, fragmented lengths are round-tripped.",
         "Equality ignores nil-vs-empty slices and BIT STRING padding bits; decoder gets private copies of buffers (it aliases its input).",
         "DESIGN.md section 3 C04"),
})

CHECKS.update({
 "C13": ("exploration",
         "runtime monitor: every builder called with gridded arguments after an NG Setup; output decoded by an independent X.691 decoder and by the library decoder and compared with the arguments; mandatory-IE/criticality table for the emulator's own messages",
         "All tglib.Get* wrappers and ngapTestpacket.Build* functions (61 call sites, the two empty stubs excluded) are executed with identifier grids, NAS-PDU length corners, IPv4 corners and gNB id/name variations; class/procedure, identifiers, NAS-PDU, PDU session ids, gNB id+name, GTP address (inside the decoded transfer) and the announced PLMN must be found by both decoders; one identifier at a time is pushed out of range and must be refused.",
         "Class/procedure and mandatory-IE tables typed in by hand from TS 38.413; the independent decoder reads the schema from ngapType tags (asserted by C03's table).",
         "DESIGN.md section 3 C13"),
 "C14": ("exploration",
         "crash / allocation / slow-call / stall monitors around ngap.Decoder on hostile inputs derived from canonical encodings (prefixes, bit flips, saturated lengths and counts, splices, random strings)",
         "About 10^6 (quick) / 2*10^7 (thorough) inputs up to 4 KiB derived from reference-encoded seeds of every message type are decoded in child processes; recover() catches panics, fatal errors kill the child and are attributed to the case by the parent, heap allocation per call is bounded by 64 MiB, a call slower than 3 s is re-run, and a case without progress for 30 s is re-run alone for 60 s with a goroutine dump as witness.",
         "Inputs are mutation-derived, not exhaustive; the bound 64 MiB is about 5x the largest allocation the schema's own list limits cause (12 MiB observed).",
         "DESIGN.md section 3 C14"),
})

CHECKS.update({
 "C05": ("exploration",
         "runtime reference-model monitor: the real DeriveRESstarAndSetKey against an independent Milenage + TS 33.501 Annex A key chain (ref/sec) on generated tuples, OP-only / OPc-only / both",
         "Each generated tuple (K, OP/OPc, RAND, AUTN, MCC/MNC, SUPI, algorithm ids; structured single-bit and all-00/FF corners) is run through the real derivation three times in child processes and RES*, K_AMF, K_NASint, K_NASenc are compared with the independent chain.",
         "ref/sec is stdlib-only (bare AES block, HMAC-SHA-256), self-tested on TS 35.207/208 vectors; serving network name built as RegisterUE builds it.",
         "DESIGN.md section 3 C05"),
 "C06": ("exploration",
         "online history monitor: a reference receiver (ref/sec) with the same keys and a shadow NAS COUNT checks every message of generated uplink histories produced by the real EncodeNasPduWithSecurity / NASEncode; exhaustive counter arithmetic",
         "Histories of 300/700 operations per algorithm pair (plain, header types 1-4, new-context flags, wrap at 2^8 and 2^24) are executed on a real UE context; after every call the monitor checks SQN octet, MAC under the shadow COUNT with BEARER=1/DIRECTION=uplink, clear vs ciphered payload per header type, exact recovery of the plain message, and the counter accessors. All 2^24+300 AddOne steps of security.Count are compared with integer arithmetic in thorough.",
         "Message variety comes from the emulator's own constructors; NIA0 is not a supported pair.",
         "DESIGN.md section 3 C06"),
 "C07": ("exploration",
         "runtime differential monitor: security.NASEncrypt / NASMacCalculate against independent 128-EEA1/EIA1 (SNOW 3G from algebraic S-boxes) and 128-EEA2/EIA2 (hand-rolled AES-CTR / CMAC) for every message length 1..L",
         "Every length 1..300 (quick) / 1..2100 (thorough) x several (key, COUNT, BEARER, DIRECTION) tuples with all BEARER values is evaluated for NEA0/1/2 and NIA1/2; involution and independence of earlier calls are checked per case; the reference's S-box/MUL-alpha table coverage is reported.",
         "Octet-aligned non-empty messages; oracle self-tested on TS 35.222, TS 33.401 Annex C and RFC 4493 vectors.",
         "DESIGN.md section 3 C07"),
 "C10": ("exploration",
         "online history monitor: downlink histories protected by a reference AMF (ref/sec.ProtectNAS with its own COUNT, skips, wraps, context resets) are fed to the real NASDecode / GetNasPdu; decoded message and DL COUNT estimate compared per message",
         "Histories of 300/700 downlink messages per algorithm pair (plain, integrity-only in clear, ciphered; SQN skips 1..40; several 8-bit wraps; new-context resets) are pushed through the real unprotect entry points; the monitor compares the returned message with the library's decode of the plain bytes and DLCount with the AMF's COUNT after every message.",
         "MAC failures are not part of the property; skips stay below 128.",
         "DESIGN.md section 3 C10"),
 "C15": ("exploration",
         "runtime reference-model monitor: milenage F1/F2345/GenerateOPC/MilenageGenerate against ref/sec, and an accept-iff-valid oracle for Milenage_check / Milenage_auts with every single-bit corruption of AUTN and AUTS",
         "Generated (K, OP, RAND, SQN_net, SQN_ue, AMF) tuples with SQN pairs that differ in exactly one octet (each octet in turn), +-1 and equal; the valid AUTN and all 128 single-bit and sampled single-octet corruptions go through Milenage_check, stale SQNs through the AUTS round trip with all 112 single-bit corruptions.",
         "SQN order is the unsigned 48-bit order; oracle self-tested on TS 35.207/208 sets 1-3.",
         "DESIGN.md section 3 C15"),
})

CHECKS.update({
 "C11": ("exploration",
         "runtime monitor with independent SUCI / PLMN decoders (TS 24.501 9.11.3.4, TS 38.413 9.3.3.5) over the enumeration of all PLMNs; NAS messages parsed by ref/nas, NGAP messages by ref/per",
         "Every MCC 000..999 with all 2- and 3-digit MNCs (1.1M PLMNs, exhaustive in thorough) and a random MSIN of random legal length goes through the real EncodeSuci; samples additionally through the Registration/Deregistration Request constructors and through NG Setup + InitialUEMessage + UplinkNASTransport; decoded MCC/MNC/MSIN and PLMN octets must be the configured ones and agree with nasConvert.PlmnIDToNas.",
         "Routing indicator / key id are outside the property; MSIN sampled (one per PLMN).",
         "DESIGN.md section 3 C11"),
 "C12": ("exploration",
         "runtime monitor: reference-built PDU Session Resource Setup Requests (NAS by hand from TS 24.501 8.3.2, transfer via ref/per) against the real extraction functions; stall monitor with goroutine dump for the termination half",
         "Well-formed inputs with every subset of the 9 optional Accept IEs in table order, QoS rule lengths 0..1500, bit-rate/TEID/IPv4 corners and optional trailing transfer IEs must yield exactly the encoded UE address, TEID and UPF address; mutated and random inputs must terminate (return or panic): a case without progress for 5 s is re-run alone for 20 s and reported with the goroutine dump.",
         "IPv4 only, ASN.1 IE order in the transfer, table order in the Accept.",
         "DESIGN.md section 3 C12"),
 "C17": ("exploration",
         "runtime reference-model monitor: conversion helpers against encodings written out from TS 24.501 / 23.003 / 38.414 / 24.008, with inverse round trips; PLMNs and AMF ids enumerated completely in thorough",
         "All 1.1M PLMNs, all 256 SST x SD variants, all 2^24 AMF identifiers (thorough), IPv4/IPv6/dual-stack addresses and protocol-configuration-option lists of 0..40 units are pushed through the real helpers and compared with reference encodings; ToString(ToNgap(a)) and UnMarshal(Marshal(p)) must give back the input.",
         "Only families with an inverse in this copy are round-tripped.",
         "DESIGN.md section 3 C17"),
})

CHECKS.update({
 "C08": ("exploration",
         "runtime round-trip monitor over the library's own NAS structs: reflection-built messages for all 45 types and all optional-IE subsets, presence/content comparison, byte-stable re-encode, idempotent decode, shuffled IE order, unknown types refused",
         "For every message type all 2^k optional subsets (k<=10) or a structured sample are generated with corner values and lengths, encoded and decoded by the real codec in child processes; the monitor compares presence pattern and wire-visible content member by member, requires the second encoding to equal the first and the second decode to equal the first, shuffles the optional IE chunks, and feeds every unknown message type and several EPDs to PlainNasDecode.",
         "IEI / message-type constants are read from the working tree with go/ast; values are generated in the normal form a decode produces; lengths within each member's capacity.",
         "DESIGN.md section 3 C08"),
 "C09": ("exploration",
         "runtime differential monitor against hand-written TS 24.501 tables (ref/nas): every (message, optional IE) pair in both directions, mandatory parts, message-type octets, and the emulator's constructors parsed by the independent parser",
         "All (message, optional IE) pairs (enumerated completely in every tier) are built by the library with exactly that IE present at table-minimum / maximum / random length and walked by the table-driven reference parser (IEI, format, length width, content, mandatory fields); conversely reference-built messages are decoded by the library. The emulator's registration, authentication, security-mode, NAS-transport, PDU-session, service and deregistration constructors are driven with random arguments and the parsed fields compared with the arguments.",
         "The tables are this framework's reading of TS 24.501 Rel-15; where the spec changed an IEI between Rel-15 versions (Mapped EPS bearer contexts 7F/75) both are admitted and the library's dialect is spoken back to it; hard-coded 5G-S-TMSI contents and zero-filled SD are observations only.",
         "DESIGN.md section 3 C09"),
})

PROC_NOTE = "Hook: build tag verif (ConnectToAmf adopts an inherited AF_UNIX/SOCK_SEQPACKET socket; the sandbox kernel has no SCTP). The reference AMF decodes with ref/per + ref/nas and derives keys with ref/sec; the ngapType struct tags are its ASN.1 schema (asserted by C03's table)."
CHECKS.update({
 "C01": ("exploration",
         "conversation monitor: the unmodified emulator process (main() included) talks to a reference AMF over a socketpair; every uplink message is decoded independently and checked online against a trace specification (IEs, identifiers, SUCI/PLMN, RES*=XRES*, header types, MAC, COUNT+1)",
         "Generated valid configurations (IMSI lengths, 2|3-digit MNC, OP/OPc variants, gNB id bit lengths 22..32, names 1..150) x AMF choices (RAND, SQN, AMF field, AMF-UE-NGAP-IDs at power-of-two boundaries, ngKSI, optional downlink IEs, Registration Accept options) are run as real processes in test mode; the first failed check of the trace specification, a non-zero exit, a missing banner or a blocked emulator is the verdict.",
         PROC_NOTE + " NEA0/NIA2 only (what the emulator offers).",
         "DESIGN.md section 3 C01"),
 "C02": ("exploration",
         "conversation monitor over whole lifecycles (count vectors incl. every count-larger-than-prerequisite pattern) plus offline history checks (exactly-once per UE index vs independently recomputed clamps, identity, PSI consistency, COUNT never reused) and a procedure driver comparing returned (UE IP, TEID, UPF) with the network's values",
         "Process-level runs in test mode with count vectors and SMF choices (UE IPv4/TEID/UPF corners, QoS rule lengths, optional Accept IEs, AMBR) are checked online by the reference AMF/SMF automaton and offline over the recorded history; a child-process procedure driver calls RegisterUE/EstablishPDU/ReleasePDU/DeregisterUE directly and compares return values and UE context with the network's view.",
         PROC_NOTE + " Main sweep keeps IMSI tail + population <= 255; the overflow is a recorded finding (psi-from-supi-overflow).",
         "DESIGN.md section 3 C02"),
 "C18": ("exploration",
         "runtime monitor at three boundaries: the real GetConfiguration on generated YAML (24 fields compared), the real binary with that file (hook log for the ConnectToAmf arguments, reference AMF for every other value), and the real binary under enumerated argument vectors (banner, exit status, hook log empty and zero bytes at the AMF)",
         "Generated configuration files (quoting styles, escapes, numeric extremes, shuffled keys, comments) are parsed by the real code in child processes; wire cases show where each value arrives; all argument vectors of length 0..2 over an 8-word alphabet (length 3 sampled) must select traffic mode only for [] and test mode only for [-t] and otherwise start nothing; interface names are observed through the fail-fast path and, where XDP works on the idle ifb0/ifb1, one traffic-mode run shows ue_number registrations.",
         PROC_NOTE + " Interface values: non-existent names and ifb0/ifb1 only.",
         "DESIGN.md section 3 C18"),
 "C19": ("fault_enumeration",
         "fault injection at every consumed downlink message (measured with strace) x 9 fault kinds (close, 8 undecodable-garbage variants) on real emulator processes; oracle = exit status, banner, and a two-sample /proc syscall probe for 'blocked in recvmsg'",
         "Per scenario the fault-free baseline under strace yields M sent / R read; every k < R except the deliberately ignored message after Registration Complete is faulted once per kind (exhaustive over k per scenario); the emulator must exit non-zero without the banner and must not stay blocked; the procedure driver checks that EstablishPDU reports no session when its own reply is lost or garbage.",
         PROC_NOTE + " Faults at message boundaries only; SCTP association events cannot be produced on AF_UNIX.",
         "DESIGN.md section 3 C19"),
})

CHECKS.update({
 "C20": ("exploration",
         "Go race detector (-race build of the harness linking /repo) over a multi-goroutine stress workload, plus a determinism oracle: each operation's result under concurrency vs its result in the sequential pre-run of the same seeded scripts",
         "G in {2,4,16,64} goroutines each own a UE context and run seeded scripts of NGAP build/encode/decode, NAS plain and protected encode/decode, key derivation, NEA/NIA and Milenage operations with GOMAXPROCS 2 and 16; race reports are read from GORACE log files and keyed by the innermost code-under-test frames of the two accesses; every result digest must equal the sequential run's; the evidence reports how many operation pairs actually overlapped (logical tickets).",
         "Stress, not enumeration of interleavings; the race detector only sees executed code; reports without a frame of the code under test are treated as harness defects (inconclusive).",
         "DESIGN.md section 3 C20"),
})

NOT_YET = {}

def main():
    ids = [f"C{i:02d}" for i in range(1, 21)]
    try:
        hooks = subprocess.run(["git", "-C", "/repo", "log", "--format=%H", "--grep=^hook:"], capture_output=True, text=True).stdout.split()
    except Exception:
        hooks = []
    m = {
        "version": 1,
        "setup_cmd": "bin/setup.sh",
        "hooks": {
            "guard": "verif",
            "enable": "go build -tags verif  (bin/vcheck builds /repo's emulator and the harness that links /repo/src/* with -tags verif)",
            "baseline_off_cmd": "bin/baseline_off.sh",
            "source_commits": hooks,
            "add_only": True,
        },
        "engines": [
            {"name": "hx", "path": "harness/cmd/hx", "serves_properties": sorted(CHECKS),
             "kind_free_text": "Go binary that links the code under test from /repo's working tree with the monitors in harness/checks and the independent reference implementations in harness/ref; parent schedules deterministic cases, children execute them under crash/stall monitors"},
        ],
        "checks": [],
        "notes": "Technique family: runtime monitoring and sanitizers. Every check rebuilds /repo's working tree, executes the real code on generated/hostile workloads in child processes and decides with an oracle over what was observed. See DESIGN.md.",
        "not_applicable": [],
    }
    for i in ids:
        if i in CHECKS:
            lvl, tech, text, note, ref = CHECKS[i]
            m["checks"].append({
                "property_id": i,
                "quick_cmd": f"bin/vcheck {i} quick",
                "thorough_cmd": f"bin/vcheck {i} thorough",
                "evidence_file": f"evidence/{i}.json",
                "replay_cmd_template": "bin/vcheck replay {path}",
                "engine": "hx",
                "level_claimed": {"category": lvl, "text": text, "design_ref": ref},
                "level_note": note,
                "technique": tech,
            })
        else:
            m["not_applicable"].append({"property_id": i, "reason": NOT_YET.get(i, "check not built yet in this session (runtime-monitoring design exists in DESIGN.md section 3); not claimed until its monitor runs clean on the unchanged tree")})
    with open(os.path.join(VERIF, "MANIFEST.json"), "w") as f:
        json.dump(m, f, indent=1)
        f.write("\n")
    # validate
    try:
        import jsonschema
        jsonschema.validate(m, json.load(open("/root/.vp/MANIFEST.schema.json")))
        print("MANIFEST.json valid:", len(m["checks"]), "checks,", len(m["not_applicable"]), "not claimed")
    except ImportError:
        print("jsonschema not importable here; written without validation")

if __name__ == "__main__":
    main()
