#!/bin/bash
# wave.sh <worktree> <demo-dir-relative-to-worktree> <tier> <ID>...  : confirm a seeded change, then run the given checks against it
WT=$1; DEMO=$2; TIER=$3; shift 3
cd "$(dirname "$0")/.."
bin/confirmseed.sh $WT $DEMO 2>&1 | grep -v '^$' | cut -c1-220 | tail -14
rm -rf $WT/log $WT/src/log $WT/src/*/log $WT/stgutgmain 2>/dev/null
bin/tryseed.sh $WT $TIER "$@"
