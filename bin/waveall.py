#!/usr/bin/env python3
"""waveall.py <wave-dir> [Cxx ...] - for every finished agent worktree <wave-dir>/Cxx (seed_demo/patch.diff present):
confirm the seeded change (bin/confirmseed.sh) and run the check of its property plus related checks (quick) against it.
One compact block per change."""
import os, re, subprocess, sys, glob
V = os.path.dirname(os.path.dirname(os.path.abspath(__file__)))
REL = {"C01": ["C01", "C06"], "C02": ["C02", "C12"], "C03": ["C03", "C04"], "C04": ["C04", "C03"], "C05": ["C05"], "C06": ["C06", "C07"],
       "C07": ["C07"], "C08": ["C08", "C09"], "C09": ["C09", "C08"], "C10": ["C10"], "C11": ["C11", "C17"], "C12": ["C12", "C02"],
       "C13": ["C13", "C03"], "C14": ["C14"], "C15": ["C15"], "C16": ["C16"], "C17": ["C17"], "C18": ["C18"], "C19": ["C19"], "C20": ["C20"]}
wd = sys.argv[1]
ids = sys.argv[2:] or sorted(os.path.basename(p) for p in glob.glob(os.path.join(wd, "C??")))
for cid in ids:
    slot = cid
    if "=" in cid:  # slot directory = property, e.g. S07=C13
        slot, cid = cid.split("=")
    wt = os.path.join(wd, slot)
    if not os.path.exists(os.path.join(wt, "seed_demo", "patch.diff")):
        print(f"#### {cid}: not finished"); continue
    demos = glob.glob(os.path.join(wt, "src", "*", "seed_demo"))
    if not demos:
        print(f"#### {cid}: no demo directory"); continue
    demo = os.path.relpath(demos[0], wt)
    out = subprocess.run(f"bin/confirmseed.sh {wt} {demo}", shell=True, cwd=V, capture_output=True, text=True).stdout
    subprocess.run(f"rm -rf {wt}/log {wt}/src/log {wt}/src/*/log {wt}/stgutgmain", shell=True)
    build = "build ok" in out
    tests = out.count("ok  \tfree5gclib/nas") >= 2
    parts = out.split("--- demo WITHOUT the change (must pass):")
    withc = parts[0].split("--- demo WITH the change (must fail):")[-1] if len(parts) == 2 else ""
    confirmed = build and tests and "FAIL" in withc and len(parts) == 2 and re.search(r"^ok\s", parts[1], re.M) and "FAIL" not in parts[1]
    print(f"#### {slot} {cid}: demo={demo} build={build} repo_tests={tests} confirmed={bool(confirmed)}")
    if not confirmed:
        print(out[-1500:])
    for ck in REL[cid]:
        o = subprocess.run(f"bin/tryseed.sh {wt} quick {ck}", shell=True, cwd=V, capture_output=True, text=True).stdout
        m = re.search(r"exit=(\d+)", o)
        keys = re.findall(r"key=(\S+) cases=(\d+)", o)
        print(f"   {ck} quick exit={m.group(1) if m else '?'} " + " ".join(f"{k}({n})" for k, n in keys[:5]))
    sys.stdout.flush()
