#!/bin/bash
# The repository's own test suite with the verif guard OFF (no build tags), every module of the workspace.
set -u
export GOPROXY=off GOSUMDB=off GOTOOLCHAIN=local
unset GOFLAGS
rc=0
for m in . src/free5gclib src/stgutg src/tglib; do
  ( cd /repo/$m && go build ./... && go test -vet=off -count=1 -timeout 25m ./... ) || rc=1
done
exit $rc
