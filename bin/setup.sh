#!/bin/bash
# Run once after a fresh restore, offline: builds the framework from files on disk, warms the Go build cache
# (plain and -race) and runs the oracle self-tests.
set -eu
VERIF=$(cd "$(dirname "$0")/.." && pwd)
export GOPROXY=off GOSUMDB=off GOTOOLCHAIN=local GOWORK=off GOFLAGS=-mod=mod
cd "$VERIF/harness"
W=$(mktemp -d /var/tmp/stgutg-verif-setup.XXXXXX); trap 'rm -rf "$W"' EXIT
go vet ./ref/... ./fw/... >/dev/null 2>&1 || true
go test -count=1 ./ref/... 2>&1 | tail -20
go build -tags verif -o "$W/bin/hx" ./cmd/hx
go build -tags verif -race -o "$W/bin/hx-race" ./cmd/hx
( unset GOFLAGS GOWORK; cd /repo && go build -tags verif -o "$W/bin/stgutgmain" . )
"$W/bin/hx" list | tr '\n' ' '; echo
echo setup ok
