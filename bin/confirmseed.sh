#!/bin/bash
# confirmseed.sh <worktree> <demo-dir-relative-to-worktree> [go test args...]
# Confirms a seeded change: builds, the repository's own tests pass, the demonstration fails with the change and passes without.
WT=$1; DEMO=$2; shift 2
export GOPROXY=off GOSUMDB=off GOTOOLCHAIN=local; unset GOFLAGS
cd $WT || exit 2
PATCH=$WT/seed_demo/patch.diff
[ -s "$PATCH" ] || { echo "no patch.diff"; exit 2; }
git diff --quiet && { echo "worktree has no change applied: applying"; git apply "$PATCH" || exit 2; }
echo "--- files changed:"; git diff --stat | tail -3
go build ./... && echo "build ok" || { echo "BUILD FAILS"; exit 1; }
( cd src/free5gclib && go test -vet=off -count=1 ./nas/... 2>&1 | grep -v "no test files" | tail -3 )
echo "--- demo WITH the change (must fail):"
( cd $(dirname $DEMO) && go test -vet=off -count=1 "$@" ./$(basename $DEMO)/ 2>&1 | tail -6 ); 
git apply -R "$PATCH" || { echo "cannot revert"; exit 2; }
echo "--- demo WITHOUT the change (must pass):"
( cd $(dirname $DEMO) && go test -vet=off -count=1 "$@" ./$(basename $DEMO)/ 2>&1 | tail -4 )
git apply "$PATCH"
