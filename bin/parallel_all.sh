#!/bin/bash
# parallel_all.sh [tier] [seed] : every check AT THE SAME TIME (the way a fresh-restore check exercises the quick commands),
# each with its own output directory under /var/tmp; one line per check. The load this puts on the machine is the point:
# no check may report a violation or end inconclusive on the unchanged tree because its neighbours are busy.
cd "$(dirname "$0")/.."
TIER=${1:-quick}; SEED=${2:-1}
OUT=$(mktemp -d /var/tmp/stgutg-par.XXXXXX)
for id in $(seq -f "C%02g" 1 20); do
  ( o=$(VERIF_SEED=$SEED VERIF_OUT=$OUT/$id bin/vcheck $id $TIER 2>&1); c=$?
    echo "$id exit=$c $(echo "$o" | grep '^SUMMARY' | cut -c1-170)"
    echo "$o" | grep -E '^(VIOLATION|INCONCLUSIVE)' | cut -c1-300 ) &
done
wait
rm -rf "$OUT"
