#!/bin/bash
# sweep.sh <tier> <seed>...  : every check (or those named in $CHECKS) at the given seeds; prints one line per (check, seed) and every VIOLATION / INCONCLUSIVE line.
cd "$(dirname "$0")/.."
TIER=${1:-quick}; shift
SEEDS=${*:-1 2 3 7 42}
rc=0
for s in $SEEDS; do
  for id in ${CHECKS:-$(seq -f "C%02g" 1 20)}; do
    out=$(VERIF_SEED=$s bin/vcheck $id $TIER 2>&1); code=$?
    echo "seed=$s $id exit=$code $(echo "$out" | grep '^SUMMARY' | cut -c1-200)"
    echo "$out" | grep -E '^(VIOLATION|INCONCLUSIVE|KNOWN-FINDING)' | cut -c1-300
    [ $code -ne 0 ] && rc=1
  done
done
exit $rc
