// Package refamf is the reference AMF/SMF that sits on the other end of the N2 association of the emulator.
// It decodes every uplink PDU with the independent X.691 decoder (ref/per over the ngapType schema) and the
// independent TS 24.501 parser (ref/nas), derives keys with ref/sec, builds every downlink PDU with the independent
// encoders, records one event per message and checks the recorded conversation online against the trace
// specification the properties C01 / C02 spell out.
package refamf

import (
	"bytes"
	"encoding/binary"
	"fmt"
	"math/rand"
	"net"
	"reflect"
	"strings"
	"sync"
	"time"

	"free5gclib/aper"
	"free5gclib/ngap/ngapType"

	"vh/ref/ident"
	refnas "vh/ref/nas"
	"vh/ref/per"
	"vh/ref/sec"
)

const pduTag = "valueExt,valueLB:0,valueUB:2"

// Config mirrors the configuration the emulator was started with: what the AMF expects to see.
type Config struct {
	IMSI, MCC, MNC string
	K, OP, OPC     string // hex, as configured ("" = not configured)
	GnbID          []byte
	GnbBits        uint64
	GnbName        string
	SST            int32
	SD             string
	GnbGTP         string
	// test-mode repetition counts as configured
	Reg, Pdu, Svc, Rel, Dereg int
}

// Fault plan (C19): what happens instead of downlink message number At (0-based; -1 = no fault).
type Fault struct {
	At       int
	Kind     string // "close" | "close-after" | "abort" | "garbage:<variant>"
	AtUplink int    // "abort": ordinal of the uplink message that is left unread (the one that would trigger downlink At)
}

// Choices are the AMF-side decisions of a scenario, all drawn from the scenario PRNG.
type Choices struct {
	AfterRegDelay   time.Duration // the AMF-initiated message after Registration Complete is sent this much later, while the AMF keeps serving the association
	SetupReqLen     int           // 0 = as it comes; else the exact size in octets of every PDU SESSION RESOURCE SETUP REQUEST
	RejectSessionOf int           // index+1 of the UE whose PDU session establishment the SMF refuses (0: none), TS 24.501 6.4.1.4
	// TrailingNewerIE: the AMF follows a later version of TS 38.413 than the emulator's tables and ends a message with an
	// optional IE (criticality ignore) those tables do not list: 0 none; 1, 2 = Redirection for Voice EPS Fallback (id 146)
	// possible / not-possible in INITIAL CONTEXT SETUP REQUEST and UE Retention Information (id 147) in NG SETUP RESPONSE;
	// 3 = an IE of a later release (id > 150) whose value is octets the receiver cannot interpret. A receiver has to
	// ignore an IE it does not comprehend when its criticality says ignore (TS 38.413 10.3.4.2).
	TrailingNewerIE int
	TrailingValue   []byte
	NGSetupRespLen  int // 0 = as it comes; else the exact size in octets of the NG SETUP RESPONSE
	R               *rand.Rand
	AmfIDs          []int64 // per UE index (cycled)
	NgKSI           byte
	AmfName         string
	ExtraDLIEs      bool // optional IEs in DownlinkNASTransport / InitialContextSetupRequest
	RegAcceptOpts   int  // bit mask of optional Registration Accept IEs
	QosRulesLen     int
	AcceptOptMask   int
	UEIPBase        net.IP
	UPF             net.IP
	TEIDBase        uint32
	WithAMBR        bool
	NoConfigUpdate  bool // observation-only scenario: the AMF sends nothing after Registration Complete
	AfterRegMsg     int  // what the AMF sends after Registration Complete: 0 Configuration Update Command (as Open5GS / free5GC), 1 LOCATION REPORTING CONTROL, 2 UE RADIO CAPABILITY CHECK REQUEST, 3 TRACE START-less: DEACTIVATE TRACE, 4 AMF STATUS INDICATION-free: ERROR INDICATION
	BackupAMFName   bool
}

type Event struct {
	N     int      `json:"n"`
	Dir   string   `json:"dir"`
	UE    int64    `json:"ue"` // RAN-UE-NGAP-ID (-1 = non-UE-associated)
	NGAP  string   `json:"ngap"`
	IEs   []string `json:"ies,omitempty"`
	NAS   string   `json:"nas,omitempty"`
	SHT   int      `json:"sht,omitempty"`
	Count int64    `json:"count"` // NAS COUNT used (-1 = unprotected)
	Note  string   `json:"note,omitempty"`
}

type Violation struct {
	Key, Msg string
	Event    int
}

type Session struct {
	UEIndex int
	PSI     int64
	UEIP    net.IP
	TEID    uint32
	UPF     net.IP
}

type ueCtx struct {
	idx          int
	ran, amf     int64
	supi         string
	state        string
	rnd, autn    []byte
	xres         []byte
	kInt, kEnc   []byte
	ul, dl       uint32
	secured      bool
	psi          int64
	hasSession   bool
	pendICS      bool // InitialContextSetupResponse outstanding
	pendRegCmpl  bool
	pendRelResp  bool
	pendRelCmpl  bool
	procs        map[string]int
	countsSeen   map[uint32]bool
	suciSeen     []byte
	regReqPlain  []byte
	gone         bool
	amfIDWasSent bool
}

type AMF struct {
	Cfg   Config
	Ch    Choices
	Fault Fault

	mu         sync.Mutex
	Events     []Event
	Violations []Violation
	Observ     map[string]int
	Rejected   int // PDU session establishments the SMF refused (by choice)
	Sessions   []Session
	ues        []*ueCtx
	byRan      map[int64]*ueCtx
	ngSetup    bool
	DLSent     int // downlink messages handed to the transport (garbage included)
	ULRecv     int
	DLTags     []string // tag of each downlink message ("after-registration-complete" marks the ignored one)
	FaultFired bool
	FaultDone  time.Time // when the fault had taken effect at the transport (diagnostics and the quiet window of a watchdog only)
	lastMsg    time.Time
	Closed     bool
	send       func([]byte) error
	closeConn  func()
	// StopReading (optional) makes every later write of the peer fail while this side can still send: with it the
	// "close-after" fault does not depend on whether the peer's next write is scheduled before or after the close.
	StopReading func()
	k, opc      []byte
	RegDone     int
}

func New(cfg Config, ch Choices, fault Fault, send func([]byte) error, closeConn func()) *AMF {
	a := &AMF{Cfg: cfg, Ch: ch, Fault: fault, Observ: map[string]int{}, byRan: map[int64]*ueCtx{}, send: send, closeConn: closeConn}
	a.k = unhex(cfg.K)
	if cfg.OPC != "" {
		a.opc = unhex(cfg.OPC)
	} else {
		a.opc = sec.ComputeOPc(a.k, unhex(cfg.OP))
	}
	return a
}

func unhex(s string) []byte {
	b := make([]byte, len(s)/2)
	fmt.Sscanf(strings.ToLower(s), "%x", &b)
	return b
}

func (a *AMF) fail(key, format string, args ...any) {
	a.Violations = append(a.Violations, Violation{Key: key, Msg: fmt.Sprintf(format, args...), Event: len(a.Events) - 1})
}
func (a *AMF) observe(k string) { a.Observ[k]++ }

// AbortDue tells the transport that the "abort" fault is due: the AMF ends the association WITHOUT reading the uplink
// message that would have been answered by downlink message Fault.At (the peer then sees a reset, not an orderly end).
func (a *AMF) AbortDue() bool {
	a.mu.Lock()
	defer a.mu.Unlock()
	if a.Fault.Kind != "abort" || a.FaultFired || a.ULRecv != a.Fault.AtUplink {
		return false
	}
	a.FaultFired = true
	a.Closed = true
	a.Events = append(a.Events, Event{N: len(a.Events), Dir: "down", UE: -1, Count: -1, Note: "FAULT: association aborted with the request still unread"})
	return true
}

// Activity counts the messages seen in both directions (safe to call from another goroutine).
func (a *AMF) Activity() int {
	a.mu.Lock()
	defer a.mu.Unlock()
	return a.ULRecv + a.DLSent
}

// State is a one-line account of where the AMF stands (diagnostics of a watchdog).
func (a *AMF) State() string {
	a.mu.Lock()
	defer a.mu.Unlock()
	return fmt.Sprintf("AMF: %d uplink read, %d downlink sent, fault fired=%v, closed=%v", a.ULRecv, a.DLSent, a.FaultFired, a.Closed)
}

// NViolations is safe to call from another goroutine than the one feeding HandleUplink.
func (a *AMF) NViolations() int {
	a.mu.Lock()
	defer a.mu.Unlock()
	return len(a.Violations)
}

// ---------------------------------------------------------------- transport with fault plan

func (a *AMF) down(ue int64, name string, tag string, pdu ngapType.NGAPPDU, nasName string, sht int, count int64) {
	if a.Closed {
		return
	}
	b, err := per.Marshal(pdu, pduTag)
	if err != nil {
		if _, isC := err.(*per.ConstraintError); isC {
			// the AMF's choice is legal per TS 38.413 but the schema the library declares (ngapType tags) excludes it
			a.fail("schema-excludes-amf-choice", "the declared schema cannot express a value a conformant AMF may choose in %s: %v", name, err)
			return
		}
		a.fail("refamf-internal", "reference encoder failed on %s: %v", name, err)
		return
	}
	b = a.trailingNewerIE(name, b)
	idx := a.DLSent
	ev := Event{N: len(a.Events), Dir: "down", UE: ue, NGAP: name, NAS: nasName, SHT: sht, Count: count}
	if a.Fault.At == idx && !a.FaultFired && a.Fault.Kind != "abort" {
		a.FaultFired = true
		if a.Fault.Kind == "close" {
			ev.Note = "FAULT: connection closed instead of sending this message"
			a.Events = append(a.Events, ev)
			a.Closed = true
			a.closeConn()
			a.FaultDone = time.Now()
			return
		}
		if a.Fault.Kind == "close-after" {
			ev.Note = "FAULT: connection closed right after sending this message"
			a.Events = append(a.Events, ev)
			a.DLTags = append(a.DLTags, tag)
			a.DLSent++
			a.lastMsg = time.Now()
			if a.StopReading != nil {
				a.StopReading()
			}
			a.send(b)
			a.Closed = true
			a.closeConn()
			a.FaultDone = time.Now()
			return
		}
		if d := LateBy(a.Fault.Kind); d > 0 {
			// a slow peer: the undecodable answer arrives after the guard timers a UE runs for its procedures (T3510, T3517,
			// T3521: 15 s; T3580: 16 s; T3516: 30 s) would have expired - it is an undecodable answer all the same
			a.mu.Unlock()
			time.Sleep(d)
			a.mu.Lock()
		}
		b = Garbage(a.Fault.Kind, b, a.Ch.R)
		ev.Note = "FAULT: " + a.Fault.Kind + " sent instead"
	}
	a.Events = append(a.Events, ev)
	a.DLTags = append(a.DLTags, tag)
	a.DLSent++
	a.lastMsg = time.Now()
	if err := a.send(b); err != nil {
		a.Closed = true
	}
	if strings.HasPrefix(ev.Note, "FAULT:") {
		a.FaultDone = time.Now()
	}
}

// MarkFaultDone: the transport tells the AMF that the fault it asked for ("abort") has taken effect.
func (a *AMF) MarkFaultDone() {
	a.mu.Lock()
	defer a.mu.Unlock()
	a.FaultDone = time.Now()
}

// Quiet reports the message counters and since when nothing has happened: the later of the last message in either
// direction and the moment the fault took effect. delivered = the fault has taken effect (or none was asked for).
func (a *AMF) Quiet() (activity int, since time.Time, delivered bool) {
	a.mu.Lock()
	defer a.mu.Unlock()
	since = a.lastMsg
	if a.FaultDone.After(since) {
		since = a.FaultDone
	}
	return a.ULRecv + a.DLSent, since, a.Fault.At < 0 && a.Fault.Kind != "abort" || !a.FaultDone.IsZero() || !a.FaultFired
}

// LateBy: the delay of the "late" garbage kinds.
func LateBy(kind string) time.Duration {
	switch strings.TrimPrefix(kind, "garbage:") {
	case "late-17s":
		return 17 * time.Second
	case "late-35s":
		return 35 * time.Second
	}
	return 0
}

// Garbage produces bytes that are not a decodable NGAP PDU.
func Garbage(kind string, valid []byte, r *rand.Rand) []byte {
	switch strings.TrimPrefix(kind, "garbage:") {
	case "late-17s", "late-35s":
		return append([]byte(nil), valid[:len(valid)/2]...)
	case "one-octet":
		return []byte{0xff}
	case "random32":
		b := make([]byte, 32)
		r.Read(b)
		b[0] |= 0x60 // PDU choice index 3: not an alternative
		return b
	case "truncated-half":
		return append([]byte(nil), valid[:len(valid)/2]...)
	case "choice3":
		b := append([]byte(nil), valid...)
		b[0] = 0x60
		return b
	case "random2048", "random2047", "random8192":
		n := 2048
		switch {
		case strings.HasSuffix(kind, "2047"):
			n = 2047
		case strings.HasSuffix(kind, "8192"):
			n = 8192
		}
		b := make([]byte, n) // around and above the emulator's 2048-octet receive buffers
		r.Read(b)
		b[0] = 0x7f
		return b
	case "bad-length":
		b := append([]byte(nil), valid...)
		if len(b) > 3 {
			b[3] = 0x7f // open type length beyond the data
		}
		return b[:minInt(len(b), 6)]
	case "zeros":
		return make([]byte, 3)
	case "paging-header":
		// framed as a PAGING message (initiatingMessage, procedure code 24: what an emulator is tempted to skip while it waits
		// for an answer), then breaking off: a value shorter than announced, a container that ends inside an IE, or nothing
		switch r.Intn(3) {
		case 0:
			b := append([]byte{0x00, 0x18, 0x40, 0x7f}, make([]byte, 6+r.Intn(20))...)
			r.Read(b[4:])
			return b
		case 1:
			return []byte{0x00, 0x18, 0x40, 0x08, 0x00, 0x00, 0x03, 0x00, 0x73, 0x00, 0x20, 0x01}
		}
		return []byte{0x00, 0x18}
	case "dl-nas-header", "unsolicited-header":
		// the header of a message an AMF may send unsolicited at any time (the one an emulator is most tempted to skip while
		// waiting for its answer), followed by a length beyond the data and noise: not a decodable PDU
		code := byte(4) // id-DownlinkNASTransport
		if strings.HasPrefix(strings.TrimPrefix(kind, "garbage:"), "unsolicited") {
			code = []byte{9, 24, 1, 20, 0, 41, 22, 36, 3, 16, 43}[r.Intn(11)] // ErrorIndication, Paging, AMFStatusIndication, NGReset, AMFConfigurationUpdate, UEContextRelease, OverloadStart, RerouteNASRequest, DeactivateTrace, LocationReportingControl, UERadioCapabilityCheck
		}
		b := append([]byte{0x00, code, 0x40, 0x7f}, make([]byte, 4+r.Intn(20))...)
		r.Read(b[4:])
		if r.Intn(3) == 0 {
			b = b[:2+r.Intn(2)] // cut right after the header
		}
		return b
	case "sctp-notification-shaped":
		// laid out like an SCTP event record (sn_type 0x8001.., flags, 32-bit length equal to the message length): what a
		// transport layer hands over when notifications are enabled - to NGAP it is undecodable all the same
		t := []byte{1, 2, 3, 4, 6, 7, 8, 9}[r.Intn(8)]
		n := 20 + 4*r.Intn(3)
		b := make([]byte, n)
		b[0], b[1] = t, 0x80
		b[4], b[5], b[6], b[7] = byte(n), byte(n>>8), 0, 0
		if t != 1 {
			r.Read(b[8:])
		}
		return b
	case "framed-damaged-interior":
		// a PDU whose FRAME is intact - PDU alternative, procedure code, criticality and a length determinant that matches the
		// octets delivered - around an interior no decoder can read: the protocolIEs container announces 65535 IEs (or,
		// every third time, the first IE's value announces more octets than are left)
		b := append([]byte(nil), valid...)
		off := 4
		if len(b) > 4 && b[3]&0x80 != 0 {
			off = 5
		}
		if len(b) < off+8 {
			return b[:len(b)-1]
		}
		if r.Intn(3) == 0 && len(b)-(off+7) < 0x70 {
			b[off+6] = 0x7f
		} else {
			b[off+1], b[off+2] = 0xff, 0xff
		}
		return b
	case "other-type-truncated": // starts like a message of ANOTHER procedure (decodes partially before failing), cut in half
		b := append([]byte(nil), valid[:len(valid)/2+1]...)
		heads := [][2]byte{{0x00, 0x04}, {0x00, 0x0e}, {0x00, 0x1d}, {0x20, 0x15}, {0x00, 0x29}, {0x00, 0x1c}, {0x20, 0x0e}}
		for i := 0; i < len(heads); i++ {
			h := heads[(r.Intn(len(heads))+i)%len(heads)]
			if len(b) >= 2 && (b[0] != h[0] || b[1] != h[1]) {
				b[0], b[1] = h[0], h[1]
				break
			}
		}
		return b
	default: // "truncated-1"
		return append([]byte(nil), valid[:len(valid)-1]...)
	}
}

var GarbageKinds = []string{"garbage:one-octet", "garbage:random32", "garbage:truncated-half", "garbage:choice3", "garbage:random2048", "garbage:bad-length", "garbage:zeros", "garbage:truncated-1", "garbage:random2047", "garbage:random8192", "garbage:other-type-truncated", "garbage:dl-nas-header", "garbage:unsolicited-header", "garbage:late-17s", "garbage:sctp-notification-shaped", "garbage:framed-damaged-interior", "garbage:paging-header"}

func pick3(r *rand.Rand, xs ...string) string { return xs[r.Intn(len(xs))] }

func pickByte(r *rand.Rand, xs ...byte) byte { return xs[r.Intn(len(xs))] }

func maxInt(a, b int) int {
	if a > b {
		return a
	}
	return b
}

func minInt(a, b int) int {
	if a < b {
		return a
	}
	return b
}

// ---------------------------------------------------------------- uplink

type ieInfo struct {
	crit int64
	val  reflect.Value
}

func messageIEs(pdu *ngapType.NGAPPDU) (class int, proc int64, name string, ies map[int64]ieInfo, order []int64, err string) {
	class = pdu.Present
	var msg reflect.Value
	switch class {
	case 1:
		if pdu.InitiatingMessage == nil {
			return class, -1, "", nil, nil, "nil InitiatingMessage"
		}
		proc = pdu.InitiatingMessage.ProcedureCode.Value
		msg = reflect.ValueOf(pdu.InitiatingMessage.Value)
	case 2:
		if pdu.SuccessfulOutcome == nil {
			return class, -1, "", nil, nil, "nil SuccessfulOutcome"
		}
		proc = pdu.SuccessfulOutcome.ProcedureCode.Value
		msg = reflect.ValueOf(pdu.SuccessfulOutcome.Value)
	case 3:
		if pdu.UnsuccessfulOutcome == nil {
			return class, -1, "", nil, nil, "nil UnsuccessfulOutcome"
		}
		proc = pdu.UnsuccessfulOutcome.ProcedureCode.Value
		msg = reflect.ValueOf(pdu.UnsuccessfulOutcome.Value)
	default:
		return class, -1, "", nil, nil, "PDU choice unset"
	}
	present := int(msg.Field(0).Int())
	if present < 1 || present >= msg.NumField() || msg.Field(present).IsNil() {
		return class, proc, "", nil, nil, "message value unset"
	}
	name = msg.Type().Field(present).Name
	m := msg.Field(present).Elem()
	ies = map[int64]ieInfo{}
	list := m.Field(0).Field(0)
	for i := 0; i < list.Len(); i++ {
		ie := list.Index(i)
		id := ie.Field(0).Field(0).Int()
		v := ie.Field(2)
		p := int(v.Field(0).Int())
		var val reflect.Value
		if p >= 1 && p < v.NumField() {
			val = v.Field(p)
		}
		if _, dup := ies[id]; dup {
			err = fmt.Sprintf("IE id %d twice", id)
		}
		ies[id] = ieInfo{int64(ie.Field(1).Field(0).Uint()), val}
		order = append(order, id)
	}
	return
}

// mandatory IEs (id, criticality) per TS 38.413 9.2 for the messages the emulator sends
var mandatory = map[string][][2]int64{
	"1/21": {{27, 0}, {102, 0}, {21, 1}},
	"1/15": {{85, 0}, {38, 0}, {121, 0}, {90, 1}},
	"1/46": {{10, 0}, {85, 0}, {38, 0}, {121, 1}},
	"2/14": {{10, 1}, {85, 1}},
	"2/29": {{10, 1}, {85, 1}},
	"2/28": {{10, 1}, {85, 1}, {70, 1}},
	"2/41": {{10, 1}, {85, 1}},
}

func collect(v reflect.Value, typeName string, out *[]reflect.Value, depth int) {
	if depth > 30 || !v.IsValid() {
		return
	}
	switch v.Kind() {
	case reflect.Ptr, reflect.Interface:
		if !v.IsNil() {
			collect(v.Elem(), typeName, out, depth+1)
		}
	case reflect.Struct:
		if v.Type().Name() == typeName {
			*out = append(*out, v)
			return
		}
		for i := 0; i < v.NumField(); i++ {
			collect(v.Field(i), typeName, out, depth+1)
		}
	case reflect.Slice:
		if v.Type().Elem().Kind() == reflect.Uint8 {
			return
		}
		for i := 0; i < v.Len(); i++ {
			collect(v.Index(i), typeName, out, depth+1)
		}
	}
}

func intIE(ies map[int64]ieInfo, id int64) (int64, bool) {
	ie, ok := ies[id]
	if !ok || !ie.val.IsValid() || ie.val.IsNil() {
		return 0, false
	}
	return ie.val.Elem().Field(0).Int(), true
}

func bytesIE(ies map[int64]ieInfo, id int64) ([]byte, bool) {
	ie, ok := ies[id]
	if !ok || !ie.val.IsValid() || ie.val.IsNil() {
		return nil, false
	}
	return ie.val.Elem().Field(0).Bytes(), true
}

// HandleUplink processes one uplink PDU (one message of the N2 association).
func (a *AMF) HandleUplink(b []byte) {
	a.mu.Lock()
	defer a.mu.Unlock()
	a.ULRecv++
	a.lastMsg = time.Now()
	ev := Event{N: len(a.Events), Dir: "up", UE: -1, Count: -1}
	var pdu ngapType.NGAPPDU
	if err := per.Unmarshal(b, &pdu, pduTag); err != nil {
		ev.NGAP = "UNDECODABLE"
		a.Events = append(a.Events, ev)
		a.fail("ngap-undecodable", "uplink message %d is not a decodable NGAP PDU: %v (%x)", a.ULRecv, err, clipB(b, 80))
		return
	}
	class, proc, name, ies, order, e := messageIEs(&pdu)
	ev.NGAP = name
	for _, id := range order {
		ev.IEs = append(ev.IEs, fmt.Sprintf("%d/%d", id, ies[id].crit))
	}
	if ran, ok := intIE(ies, 85); ok {
		ev.UE = ran
	}
	a.Events = append(a.Events, ev)
	cur := &a.Events[len(a.Events)-1]
	if e != "" {
		a.fail("ngap-malformed", "uplink %s: %s", name, e)
		return
	}
	for _, m := range mandatory[fmt.Sprintf("%d/%d", class, proc)] {
		ie, ok := ies[m[0]]
		if !ok {
			a.fail("missing-mandatory-ie", "%s lacks mandatory IE id %d (present: %v)", name, m[0], order)
			return
		}
		if ie.crit != m[1] {
			a.fail("wrong-criticality", "%s: IE id %d has criticality %d, TS 38.413 9.2 says %d", name, m[0], ie.crit, m[1])
			return
		}
	}
	// PLMN in every user location IE = the subscriber's PLMN
	if uli, ok := ies[121]; ok && uli.val.IsValid() {
		var ps []reflect.Value
		collect(uli.val, "PLMNIdentity", &ps, 0)
		for _, p := range ps {
			if want := ident.PLMN(a.Cfg.MCC, a.Cfg.MNC); !bytes.Equal(p.Field(0).Bytes(), want) {
				a.fail("uli-plmn", "%s: PLMN %x in UserLocationInformation, the configured PLMN %s/%s encodes as %x", name, p.Field(0).Bytes(), a.Cfg.MCC, a.Cfg.MNC, want)
				return
			}
		}
	}
	key := fmt.Sprintf("%d/%d", class, proc)
	if !a.ngSetup && key != "1/21" {
		a.fail("before-ng-setup", "%s received before NG Setup", name)
		return
	}
	switch key {
	case "1/21":
		a.onNGSetup(ies)
	case "1/15":
		a.onInitialUE(ies, cur)
	case "1/46":
		a.onUplinkNAS(ies, cur)
	case "2/14":
		a.onICSResponse(ies, cur)
	case "2/29":
		a.onSetupResponse(ies, cur)
	case "2/28":
		a.onReleaseResponse(ies, cur)
	case "2/41":
		a.onCtxReleaseComplete(ies, cur)
	default:
		a.fail("unexpected-message", "unexpected NGAP message %s (class %d, procedure %d)", name, class, proc)
	}
}

func clipB(b []byte, n int) []byte {
	if len(b) > n {
		return b[:n]
	}
	return b
}

func (a *AMF) onNGSetup(ies map[int64]ieInfo) {
	if a.ngSetup {
		a.fail("ng-setup-twice", "second NGSetupRequest")
		return
	}
	plmn := ident.PLMN(a.Cfg.MCC, a.Cfg.MNC)
	g := ies[27].val
	if !g.IsValid() || g.IsNil() || g.Elem().Field(0).Int() != 1 {
		a.fail("ng-setup-gnb-id", "GlobalRANNodeID is not a globalGNB-ID")
		return
	}
	gg := g.Elem().Interface().(ngapType.GlobalRANNodeID).GlobalGNBID
	if !bytes.Equal(gg.PLMNIdentity.Value, plmn) {
		a.fail("ng-setup-plmn", "NGSetupRequest announces PLMN %x, the configured %s/%s encodes as %x", []byte(gg.PLMNIdentity.Value), a.Cfg.MCC, a.Cfg.MNC, plmn)
		return
	}
	if gg.GNBID.Present != 1 || gg.GNBID.GNBID == nil || gg.GNBID.GNBID.BitLength != a.Cfg.GnbBits {
		a.fail("ng-setup-gnb-id", "gNB-ID bit length differs from the configured %d", a.Cfg.GnbBits)
		return
	}
	for i := 0; i < int(a.Cfg.GnbBits); i++ {
		if (gg.GNBID.GNBID.Bytes[i/8]>>(7-uint(i%8)))&1 != (a.Cfg.GnbID[i/8]>>(7-uint(i%8)))&1 {
			a.fail("ng-setup-gnb-id", "gNB-ID %x differs from the configured %x in its first %d bits", gg.GNBID.GNBID.Bytes, a.Cfg.GnbID, a.Cfg.GnbBits)
			return
		}
	}
	if n, ok := ies[82]; !ok || n.val.IsNil() || n.val.Elem().Field(0).String() != a.Cfg.GnbName {
		a.fail("ng-setup-name", "RANNodeName differs from the configured %q", a.Cfg.GnbName)
		return
	}
	var ps []reflect.Value
	collect(ies[102].val, "PLMNIdentity", &ps, 0)
	if len(ps) == 0 {
		a.fail("ng-setup-plmn", "SupportedTAList broadcasts no PLMN")
		return
	}
	for _, p := range ps {
		if !bytes.Equal(p.Field(0).Bytes(), plmn) {
			a.fail("ng-setup-plmn", "SupportedTAList broadcasts PLMN %x, configured %x", p.Field(0).Bytes(), plmn)
			return
		}
	}
	a.ngSetup = true
	// NG SETUP RESPONSE
	mk := func(amfName string, extraSlices int) ngapType.NGAPPDU {
		var r ngapType.NGSetupResponse
		add := func(id int64, crit uint64, f func(v *ngapType.NGSetupResponseIEsValue)) {
			ie := ngapType.NGSetupResponseIEs{}
			ie.Id.Value, ie.Criticality.Value = id, aper.Enumerated(crit)
			f(&ie.Value)
			r.ProtocolIEs.List = append(r.ProtocolIEs.List, ie)
		}
		add(1, 0, func(v *ngapType.NGSetupResponseIEsValue) {
			v.Present = 1
			v.AMFName = &ngapType.AMFName{Value: amfName}
		})
		add(96, 0, func(v *ngapType.NGSetupResponseIEsValue) {
			v.Present = 2
			it := ngapType.ServedGUAMIItem{GUAMI: a.guami()}
			if a.Ch.BackupAMFName {
				it.BackupAMFName = &ngapType.AMFName{Value: "backup-" + a.Ch.AmfName}
			}
			v.ServedGUAMIList = &ngapType.ServedGUAMIList{List: []ngapType.ServedGUAMIItem{it}}
		})
		add(86, 1, func(v *ngapType.NGSetupResponseIEsValue) {
			v.Present = 3
			v.RelativeAMFCapacity = &ngapType.RelativeAMFCapacity{Value: 255}
		})
		add(80, 0, func(v *ngapType.NGSetupResponseIEsValue) {
			v.Present = 4
			it := ngapType.PLMNSupportItem{}
			it.PLMNIdentity.Value = plmn
			it.SliceSupportList.List = []ngapType.SliceSupportItem{{SNSSAI: a.snssai()}}
			for i := 0; i < extraSlices; i++ { // an AMF that serves many slices (up to 1024 per PLMN, TS 38.413 9.3.1.17)
				var sl ngapType.SNSSAI
				sl.SST.Value = []byte{byte(1 + i%4)}
				sl.SD = &ngapType.SD{Value: []byte{byte(i >> 16), byte(i >> 8), byte(i)}}
				it.SliceSupportList.List = append(it.SliceSupportList.List, ngapType.SliceSupportItem{SNSSAI: sl})
			}
			v.PLMNSupportList = &ngapType.PLMNSupportList{List: []ngapType.PLMNSupportItem{it}}
		})
		var pdu ngapType.NGAPPDU
		pdu.Present = 2
		pdu.SuccessfulOutcome = &ngapType.SuccessfulOutcome{}
		pdu.SuccessfulOutcome.ProcedureCode.Value = 21
		pdu.SuccessfulOutcome.Value.Present = ngapType.SuccessfulOutcomePresentNGSetupResponse
		pdu.SuccessfulOutcome.Value.NGSetupResponse = &r
		return pdu
	}
	pdu := mk(a.Ch.AmfName, 0)
	if want := a.Ch.NGSetupRespLen; want > 0 {
		// the response sized to an exact number of octets (the emulator reads into 2048-octet buffers): slices bring it
		// close, the length of the AMF name (1..150 characters) closes the gap
		lenOf := func(p ngapType.NGAPPDU) int { b, _ := per.Marshal(p, pduTag); return len(b) }
		base, one := lenOf(pdu), lenOf(mk(a.Ch.AmfName, 1))
	search:
		for n := maxInt(0, (want-base)/maxInt(one-base, 1)-30); n <= 1023; n++ {
			l := lenOf(mk("a", n))
			if l > want {
				break
			}
			if want-l > 149 {
				continue
			}
			for k := 1; k <= 150; k++ {
				name := strings.Repeat("a", k)
				if lenOf(mk(name, n)) == want {
					pdu = mk(name, n)
					a.Observ["ng-setup-response-sized-"+fmt.Sprint(want)]++
					break search
				}
			}
		}
	}
	a.down(-1, "NGSetupResponse", "ng-setup-response", pdu, "", 0, -1)
}

func (a *AMF) guami() ngapType.GUAMI {
	var g ngapType.GUAMI
	g.PLMNIdentity.Value = ident.PLMN(a.Cfg.MCC, a.Cfg.MNC)
	g.AMFRegionID.Value = aper.BitString{Bytes: []byte{0x02}, BitLength: 8}
	g.AMFSetID.Value = aper.BitString{Bytes: []byte{0x00, 0x40}, BitLength: 10}
	g.AMFPointer.Value = aper.BitString{Bytes: []byte{0x00}, BitLength: 6}
	return g
}

func (a *AMF) snssai() ngapType.SNSSAI {
	var s ngapType.SNSSAI
	s.SST.Value = []byte{byte(a.Cfg.SST)}
	if len(a.Cfg.SD) == 6 {
		s.SD = &ngapType.SD{Value: unhex(a.Cfg.SD)}
	}
	return s
}

func (a *AMF) expectedSupi(idx int) string {
	var n int64
	fmt.Sscanf(a.Cfg.IMSI, "%d", &n)
	return fmt.Sprintf("%0*d", len(a.Cfg.IMSI), n+int64(idx))
}

// nasUplink removes the security envelope of an uplink NAS message, checking header type, COUNT and MAC.
func (a *AMF) nasUplink(ue *ueCtx, pduB []byte, wantSHT byte, cur *Event) (plain []byte, ok bool) {
	if len(pduB) < 3 || pduB[0] != 0x7e {
		a.fail("nas-malformed", "uplink NAS message %x is not a 5GMM message", clipB(pduB, 16))
		return nil, false
	}
	sht := pduB[1] & 0x0f
	cur.SHT = int(sht)
	if sht == 0 {
		if wantSHT != 0 {
			a.fail("nas-header-type", "UE %d: NAS message sent plain, security header type %d is required at this step", ue.idx, wantSHT)
			return nil, false
		}
		return pduB, true
	}
	if !ue.secured && sht != 4 {
		a.fail("nas-header-type", "UE %d: protected NAS message (type %d) before a security context exists", ue.idx, sht)
		return nil, false
	}
	if wantSHT != 0 && sht != wantSHT {
		a.fail("nas-header-type", "UE %d: security header type %d, expected %d at this step", ue.idx, sht, wantSHT)
		return nil, false
	}
	if wantSHT == 0 {
		a.fail("nas-header-type", "UE %d: security protected NAS message where a plain one is expected", ue.idx)
		return nil, false
	}
	if len(pduB) < 8 {
		a.fail("nas-malformed", "protected NAS message of %d octets", len(pduB))
		return nil, false
	}
	if sht == 4 {
		ue.ul = 0
		ue.countsSeen = map[uint32]bool{}
	}
	cur.Count = int64(ue.ul)
	if pduB[6] != byte(ue.ul) {
		a.fail("nas-count", "UE %d: uplink NAS sequence number %d, the previous message had COUNT %d so this one must carry %d", ue.idx, pduB[6], int64(ue.ul)-1, ue.ul)
		return nil, false
	}
	plain, macOK, err := sec.UnprotectNAS(2, 0, ue.kInt, ue.kEnc, ue.ul, 1, 0, sht == 2 || sht == 4, pduB)
	if err != nil || !macOK {
		a.fail("nas-mac", "UE %d: MAC %x of the uplink NAS message (header type %d, COUNT %d) does not verify under the K_NASint the network derived (err %v)", ue.idx, pduB[2:6], sht, ue.ul, err)
		return nil, false
	}
	if ue.countsSeen[ue.ul] {
		a.fail("nas-count-reuse", "UE %d: uplink NAS COUNT %d used twice under the same key", ue.idx, ue.ul)
		return nil, false
	}
	ue.countsSeen[ue.ul] = true
	ue.ul++
	return plain, true
}

func (a *AMF) onInitialUE(ies map[int64]ieInfo, cur *Event) {
	ran, _ := intIE(ies, 85)
	nasB, _ := bytesIE(ies, 38)
	if len(nasB) >= 2 && nasB[1]&0x0f != 0 {
		a.onServiceRequest(ran, nasB, cur)
		return
	}
	p, err := refnas.Parse(nasB)
	if err != nil || p.Def.Name != "RegistrationRequest" {
		a.fail("initial-nas", "InitialUEMessage carries a NAS message that is not a plain Registration Request (%v)", err)
		return
	}
	cur.NAS = "RegistrationRequest"
	if old, dup := a.byRan[ran]; dup && !old.gone {
		a.fail("ran-id-not-distinct", "RAN-UE-NGAP-ID %d is already used by UE %d", ran, old.idx)
		return
	}
	ue := &ueCtx{idx: len(a.ues), ran: ran, state: "auth", procs: map[string]int{}, countsSeen: map[uint32]bool{}, psi: -1}
	o := p.MandByName("NgksiAndRegistrationType5GS")
	if len(o) != 1 || o[0]&0x07 != 1 {
		a.fail("registration-type", "UE %d: 5GS registration type %d, expected initial registration", ue.idx, o[0]&7)
		return
	}
	if o[0]>>4 != 7 {
		a.fail("registration-ngksi", "UE %d: ngKSI %d in the initial Registration Request, expected 7 (no key available)", ue.idx, o[0]>>4)
		return
	}
	id := p.MandByName("MobileIdentity5GS")
	mcc, mnc, msin, scheme, err := ident.DecodeSUCI(id)
	if err != nil || scheme != 0 {
		a.fail("suci", "UE %d: mobile identity %x is not a null-scheme SUCI: %v", ue.idx, id, err)
		return
	}
	want := a.expectedSupi(ue.idx)
	if mcc != a.Cfg.MCC || mnc != a.Cfg.MNC {
		a.fail("suci-plmn", "UE %d: SUCI identifies PLMN %s/%s, configured %s/%s", ue.idx, mcc, mnc, a.Cfg.MCC, a.Cfg.MNC)
		return
	}
	if got := mcc + mnc + msin; got != want {
		key := "suci-supi"
		for _, o := range a.ues {
			if o.supi == got {
				key = "supi-not-distinct"
			}
		}
		a.fail(key, "UE %d presents SUPI imsi-%s, the %d-th UE of initial IMSI %s must be imsi-%s", ue.idx, got, ue.idx+1, a.Cfg.IMSI, want)
		return
	}
	ue.supi = want
	capIE, ok := p.Get("UESecurityCapability")
	if !ok || len(capIE) < 2 {
		a.fail("ue-security-capability", "UE %d: Registration Request without UE security capability", ue.idx)
		return
	}
	if capIE[0]&0x80 == 0 || capIE[1]&0x20 == 0 {
		a.fail("ue-security-capability", "UE %d advertises 5G-EA %08b / 5G-IA %08b: NEA0 and NIA2 (what it uses) are not both offered", ue.idx, capIE[0], capIE[1])
		return
	}
	ue.suciSeen = id
	ue.regReqPlain = nasB
	a.ues = append(a.ues, ue)
	a.byRan[ran] = ue
	ue.amf = a.Ch.AmfIDs[ue.idx%len(a.Ch.AmfIDs)]
	// 5G-AKA
	r := a.Ch.R
	ue.rnd = make([]byte, 16)
	r.Read(ue.rnd)
	sqn := make([]byte, 6)
	r.Read(sqn)
	amfField := []byte{0x80 | byte(r.Intn(128)), byte(r.Intn(256))}
	ue.autn = sec.GenerateAUTN(a.k, a.opc, ue.rnd, sqn, amfField)
	res, ck, ik, _, _ := sec.F2345(a.k, a.opc, ue.rnd)
	snn := sec.SNName(a.Cfg.MCC, a.Cfg.MNC)
	ue.xres = sec.RESStar(ck, ik, snn, ue.rnd, res)
	kamf := sec.KAMF(sec.KSEAF(sec.KAUSF(ck, ik, snn, ue.autn[:6]), snn), ue.supi, []byte{0, 0})
	ue.kEnc = sec.NASAlgKey(kamf, 1, 0)
	ue.kInt = sec.NASAlgKey(kamf, 2, 2)
	nasDL := append([]byte{0x7e, 0x00, 0x56, a.Ch.NgKSI, 0x02, 0x00, 0x00, 0x21}, ue.rnd...)
	nasDL = append(append(nasDL, 0x20, 0x10), ue.autn...)
	a.downNAS(ue, nasDL, "AuthenticationRequest", "auth-request", 0, -1)
}

// downNAS sends a DownlinkNASTransport; AMF-UE-NGAP-ID is the first IE.
func (a *AMF) downNAS(ue *ueCtx, nasB []byte, nasName, tag string, sht int, count int64) {
	var d ngapType.DownlinkNASTransport
	add := func(id int64, crit uint64, f func(v *ngapType.DownlinkNASTransportIEsValue)) {
		ie := ngapType.DownlinkNASTransportIEs{}
		ie.Id.Value, ie.Criticality.Value = id, aper.Enumerated(crit)
		f(&ie.Value)
		d.ProtocolIEs.List = append(d.ProtocolIEs.List, ie)
	}
	add(10, 0, func(v *ngapType.DownlinkNASTransportIEsValue) {
		v.Present = 1
		v.AMFUENGAPID = &ngapType.AMFUENGAPID{Value: ue.amf}
	})
	add(85, 0, func(v *ngapType.DownlinkNASTransportIEsValue) {
		v.Present = 2
		v.RANUENGAPID = &ngapType.RANUENGAPID{Value: ue.ran}
	})
	if a.Ch.ExtraDLIEs {
		add(48, 0, func(v *ngapType.DownlinkNASTransportIEsValue) {
			v.Present = 3
			v.OldAMF = &ngapType.AMFName{Value: "old-amf"}
		})
		add(83, 1, func(v *ngapType.DownlinkNASTransportIEsValue) {
			v.Present = 4
			v.RANPagingPriority = &ngapType.RANPagingPriority{Value: 1 + int64(a.Ch.R.Intn(256))}
		})
	}
	add(38, 0, func(v *ngapType.DownlinkNASTransportIEsValue) {
		v.Present = 5
		v.NASPDU = &ngapType.NASPDU{Value: nasB}
	})
	if a.Ch.ExtraDLIEs {
		add(36, 1, func(v *ngapType.DownlinkNASTransportIEsValue) {
			// Mobility Restriction List: the AMF names ITS serving PLMN (with network sharing or equivalent PLMNs not the one
			// the gNB announced) - information for the gNB's mobility decisions, nothing the gNB may announce from then on
			v.Present = 6
			other := ident.PLMN(pick3(a.Ch.R, "208", "999", "001"), pick3(a.Ch.R, "93", "999", "01"))
			v.MobilityRestrictionList = &ngapType.MobilityRestrictionList{ServingPLMN: ngapType.PLMNIdentity{Value: other}}
		})
		add(31, 1, func(v *ngapType.DownlinkNASTransportIEsValue) {
			v.Present = 7
			v.IndexToRFSP = &ngapType.IndexToRFSP{Value: 1 + int64(a.Ch.R.Intn(256))}
		})
		add(110, 1, func(v *ngapType.DownlinkNASTransportIEsValue) {
			v.Present = 8
			v.UEAggregateMaximumBitRate = &ngapType.UEAggregateMaximumBitRate{}
			v.UEAggregateMaximumBitRate.UEAggregateMaximumBitRateDL.Value = 1000000000
			v.UEAggregateMaximumBitRate.UEAggregateMaximumBitRateUL.Value = 4000000000000
		})
		add(0, 0, func(v *ngapType.DownlinkNASTransportIEsValue) {
			v.Present = 9
			v.AllowedNSSAI = &ngapType.AllowedNSSAI{List: []ngapType.AllowedNSSAIItem{{SNSSAI: a.snssai()}}}
		})
	}
	ue.amfIDWasSent = true
	var pdu ngapType.NGAPPDU
	pdu.Present = 1
	pdu.InitiatingMessage = &ngapType.InitiatingMessage{}
	pdu.InitiatingMessage.ProcedureCode.Value = 4
	pdu.InitiatingMessage.Criticality.Value = 1
	pdu.InitiatingMessage.Value.Present = ngapType.InitiatingMessagePresentDownlinkNASTransport
	pdu.InitiatingMessage.Value.DownlinkNASTransport = &d
	a.down(ue.ran, "DownlinkNASTransport", tag, pdu, nasName, sht, count)
}

func (a *AMF) protectDL(ue *ueCtx, sht uint8, plain []byte) ([]byte, int64) {
	if sht == 3 || sht == 4 {
		ue.dl = 0
	}
	c := ue.dl
	out, _ := sec.ProtectNAS(2, 0, ue.kInt, ue.kEnc, c, 1, 1, sht, sht == 2 || sht == 4, plain)
	ue.dl++
	return out, int64(c)
}

func (a *AMF) lookup(ies map[int64]ieInfo, what string) *ueCtx {
	ran, ok := intIE(ies, 85)
	ue := a.byRan[ran]
	if !ok || ue == nil || ue.gone {
		a.fail("unknown-ue", "%s for RAN-UE-NGAP-ID %d, which no registered UE owns", what, ran)
		return nil
	}
	amf, ok := intIE(ies, 10)
	if !ok || amf != ue.amf {
		a.fail("wrong-amf-ue-ngap-id", "%s of UE %d carries AMF-UE-NGAP-ID %d, the AMF assigned %d", what, ue.idx, amf, ue.amf)
		return nil
	}
	return ue
}

func (a *AMF) onUplinkNAS(ies map[int64]ieInfo, cur *Event) {
	ue := a.lookup(ies, "UplinkNASTransport")
	if ue == nil {
		return
	}
	nasB, _ := bytesIE(ies, 38)
	switch ue.state {
	case "auth":
		plain, ok := a.nasUplink(ue, nasB, 0, cur)
		if !ok {
			return
		}
		p, err := refnas.Parse(plain)
		if err != nil || p.Def.Name != "AuthenticationResponse" {
			a.fail("expected-auth-response", "UE %d: expected Authentication Response, got %v (%v)", ue.idx, defName(p), err)
			return
		}
		cur.NAS = "AuthenticationResponse"
		res, _ := p.Get("AuthenticationResponseParameter")
		if !bytes.Equal(res, ue.xres) {
			a.fail("res-star", "UE %d: RES* %x differs from the XRES* %x the network derived", ue.idx, res, ue.xres)
			return
		}
		// SECURITY MODE COMMAND, integrity protected with new 5G NAS security context
		smc := []byte{0x7e, 0x00, 0x5d, 0x02, a.Ch.NgKSI, 0x02, 0x80, 0x20, 0xe1, 0x36, 0x01, 0x02}
		prot, c := a.protectDL(ue, 3, smc)
		ue.state = "smc"
		a.downNAS(ue, prot, "SecurityModeCommand", "security-mode-command", 3, c)
	case "smc":
		ue.secured = true
		plain, ok := a.nasUplink(ue, nasB, 4, cur)
		if !ok {
			return
		}
		p, err := refnas.Parse(plain)
		if err != nil || p.Def.Name != "SecurityModeComplete" {
			a.fail("expected-smc-complete", "UE %d: expected Security Mode Complete, got %v (%v)", ue.idx, defName(p), err)
			return
		}
		cur.NAS = "SecurityModeComplete"
		if v, ok := p.Get("IMEISV"); !ok || len(v) < 9 {
			a.fail("smc-complete-imeisv", "UE %d: Security Mode Complete without the requested IMEISV", ue.idx)
			return
		}
		cont, ok := p.Get("NASMessageContainer")
		if !ok {
			a.fail("smc-complete-container", "UE %d: Security Mode Complete without NAS message container", ue.idx)
			return
		}
		ip, err := refnas.Parse(cont)
		if err != nil || ip.Def.Name != "RegistrationRequest" || !bytes.Equal(ip.MandByName("MobileIdentity5GS"), ue.suciSeen) {
			a.fail("smc-complete-container", "UE %d: NAS message container does not hold the full Registration Request of this UE (%v)", ue.idx, err)
			return
		}
		a.sendICSRequest(ue, false)
	case "ctx":
		plain, ok := a.nasUplink(ue, nasB, 2, cur)
		if !ok {
			return
		}
		p, err := refnas.Parse(plain)
		if err != nil || p.Def.Name != "RegistrationComplete" {
			a.fail("expected-registration-complete", "UE %d: expected Registration Complete, got %v (%v)", ue.idx, defName(p), err)
			return
		}
		cur.NAS = "RegistrationComplete"
		ue.pendRegCmpl = false
		a.maybeRegistered(ue)
	case "registered", "release":
		plain, ok := a.nasUplink(ue, nasB, 2, cur)
		if !ok {
			return
		}
		p, err := refnas.Parse(plain)
		if err != nil {
			a.fail("nas-layout", "UE %d: uplink NAS message does not parse per TS 24.501: %v", ue.idx, err)
			return
		}
		cur.NAS = p.Def.Name
		switch p.Def.Name {
		case "ULNASTransport":
			a.onULNASTransport(ue, p, cur)
		case "DeregistrationRequestUEOriginatingDeregistration":
			a.onDeregistration(ue, p)
		default:
			a.fail("unexpected-nas", "UE %d: unexpected NAS message %s in state %s", ue.idx, p.Def.Name, ue.state)
		}
	default:
		a.fail("unexpected-uplink-nas", "UE %d: UplinkNASTransport in state %s", ue.idx, ue.state)
	}
}

func defName(p *refnas.Parsed) string {
	if p == nil || p.Def == nil {
		return "<unparsable>"
	}
	return p.Def.Name
}

func (a *AMF) maybeRegistered(ue *ueCtx) {
	if ue.pendICS || ue.pendRegCmpl {
		return
	}
	ue.state = "registered"
	ue.procs["registration"]++
	a.RegDone++
	if a.Ch.NoConfigUpdate {
		a.observe("no-message-after-registration-complete")
		return
	}
	if a.Ch.AfterRegMsg != 0 && a.sendOtherAfterRegistration(ue) {
		return
	}
	cuc := []byte{0x7e, 0x00, 0x54, 0x43, 0x05, 0x80, 0x41, 0x4d, 0x46, 0x31}
	if d := a.Ch.AfterRegDelay; d > 0 {
		// an independent AMF-initiated procedure may start any time: the command goes out later, from a timer, and in the
		// meantime the AMF answers whatever else arrives on the association
		a.observe("after-registration-message-sent-late")
		go func() {
			time.Sleep(d)
			a.mu.Lock()
			defer a.mu.Unlock()
			prot, c := a.protectDL(ue, 2, cuc)
			a.downNAS(ue, prot, "ConfigurationUpdateCommand", "after-registration-complete", 2, c)
		}()
		return
	}
	prot, c := a.protectDL(ue, 2, cuc)
	a.downNAS(ue, prot, "ConfigurationUpdateCommand", "after-registration-complete", 2, c)
}

// sendOtherAfterRegistration: a conformant AMF is not obliged to follow the registration with a Configuration Update
// Command; the next thing it sends on the association may be any AMF-initiated message for this UE. The emulator waits
// for one message there and ignores its content.
func (a *AMF) sendOtherAfterRegistration(ue *ueCtx) bool {
	var pdu ngapType.NGAPPDU
	pdu.Present = 1
	im := &ngapType.InitiatingMessage{}
	pdu.InitiatingMessage = im
	name := ""
	switch a.Ch.AfterRegMsg {
	case 1:
		name = "LocationReportingControl"
		im.ProcedureCode.Value, im.Criticality.Value = 16, 1 // id-LocationReportingControl (TS 38.413 9.4.7, not the library constant)
		m := &ngapType.LocationReportingControl{}
		add := func(id int64, crit uint64, f func(v *ngapType.LocationReportingControlIEsValue)) {
			ie := ngapType.LocationReportingControlIEs{}
			ie.Id.Value, ie.Criticality.Value = id, aper.Enumerated(crit)
			f(&ie.Value)
			m.ProtocolIEs.List = append(m.ProtocolIEs.List, ie)
		}
		add(10, 0, func(v *ngapType.LocationReportingControlIEsValue) {
			v.Present = 1
			v.AMFUENGAPID = &ngapType.AMFUENGAPID{Value: ue.amf}
		})
		add(85, 0, func(v *ngapType.LocationReportingControlIEsValue) {
			v.Present = 2
			v.RANUENGAPID = &ngapType.RANUENGAPID{Value: ue.ran}
		})
		add(33, 1, func(v *ngapType.LocationReportingControlIEsValue) {
			v.Present = 3
			v.LocationReportingRequestType = &ngapType.LocationReportingRequestType{}
			v.LocationReportingRequestType.EventType.Value = 0
			v.LocationReportingRequestType.ReportArea.Value = 0
		})
		im.Value.Present = ngapType.InitiatingMessagePresentLocationReportingControl
		im.Value.LocationReportingControl = m
	case 2:
		name = "UERadioCapabilityCheckRequest"
		im.ProcedureCode.Value, im.Criticality.Value = 43, 0 // id-UERadioCapabilityCheck
		m := &ngapType.UERadioCapabilityCheckRequest{}
		add := func(id int64, crit uint64, f func(v *ngapType.UERadioCapabilityCheckRequestIEsValue)) {
			ie := ngapType.UERadioCapabilityCheckRequestIEs{}
			ie.Id.Value, ie.Criticality.Value = id, aper.Enumerated(crit)
			f(&ie.Value)
			m.ProtocolIEs.List = append(m.ProtocolIEs.List, ie)
		}
		add(10, 0, func(v *ngapType.UERadioCapabilityCheckRequestIEsValue) {
			v.Present = 1
			v.AMFUENGAPID = &ngapType.AMFUENGAPID{Value: ue.amf}
		})
		add(85, 0, func(v *ngapType.UERadioCapabilityCheckRequestIEsValue) {
			v.Present = 2
			v.RANUENGAPID = &ngapType.RANUENGAPID{Value: ue.ran}
		})
		im.Value.Present = ngapType.InitiatingMessagePresentUERadioCapabilityCheckRequest
		im.Value.UERadioCapabilityCheckRequest = m
	case 3:
		name = "DeactivateTrace"
		im.ProcedureCode.Value, im.Criticality.Value = 3, 1 // id-DeactivateTrace
		m := &ngapType.DeactivateTrace{}
		add := func(id int64, crit uint64, f func(v *ngapType.DeactivateTraceIEsValue)) {
			ie := ngapType.DeactivateTraceIEs{}
			ie.Id.Value, ie.Criticality.Value = id, aper.Enumerated(crit)
			f(&ie.Value)
			m.ProtocolIEs.List = append(m.ProtocolIEs.List, ie)
		}
		add(10, 0, func(v *ngapType.DeactivateTraceIEsValue) {
			v.Present = 1
			v.AMFUENGAPID = &ngapType.AMFUENGAPID{Value: ue.amf}
		})
		add(85, 0, func(v *ngapType.DeactivateTraceIEsValue) {
			v.Present = 2
			v.RANUENGAPID = &ngapType.RANUENGAPID{Value: ue.ran}
		})
		add(44, 1, func(v *ngapType.DeactivateTraceIEsValue) {
			v.Present = 3
			v.NGRANTraceID = &ngapType.NGRANTraceID{Value: []byte{1, 2, 3, 4, 5, 6, 7, 8}}
		})
		im.Value.Present = ngapType.InitiatingMessagePresentDeactivateTrace
		im.Value.DeactivateTrace = m
	default:
		return false
	}
	a.down(ue.ran, name, "after-registration-complete", pdu, "", 0, -1)
	return true
}

// sendICSRequest sends INITIAL CONTEXT SETUP REQUEST with Registration Accept (or Service Accept).
func (a *AMF) sendICSRequest(ue *ueCtx, service bool) {
	var nasPlain []byte
	name := "RegistrationAccept"
	if service {
		name = "ServiceAccept"
		nasPlain = []byte{0x7e, 0x00, 0x4e}
		if a.Ch.RegAcceptOpts&1 != 0 {
			nasPlain = append(nasPlain, 0x50, 0x02, 0x00, 0x00)
		}
	} else {
		plmn := ident.PLMN(a.Cfg.MCC, a.Cfg.MNC)
		nasPlain = []byte{0x7e, 0x00, 0x42, 0x01, 0x01}
		guti := append([]byte{0xf2}, plmn...)
		guti = append(guti, 0x02, 0x00, 0x40)
		guti = binary.BigEndian.AppendUint32(guti, 0xc0000000|uint32(ue.idx))
		nasPlain = append(append(nasPlain, 0x77, 0x00, 0x0b), guti...)
		if a.Ch.RegAcceptOpts&1 != 0 { // TAI list
			nasPlain = append(nasPlain, 0x54, 0x07, 0x00)
			nasPlain = append(append(nasPlain, plmn...), 0x00, 0x00, 0x01)
		}
		if a.Ch.RegAcceptOpts&2 != 0 { // allowed NSSAI
			nasPlain = append(nasPlain, 0x15, 0x02, 0x01, byte(a.Cfg.SST))
		}
		if a.Ch.RegAcceptOpts&4 != 0 { // 5GS network feature support
			nasPlain = append(nasPlain, 0x21, 0x02, 0x01, 0x00)
		}
		if a.Ch.RegAcceptOpts&8 != 0 { // T3512
			nasPlain = append(nasPlain, 0x5e, 0x01, 0x06)
		}
		if a.Ch.RegAcceptOpts&16 != 0 { // MICO
			nasPlain = append(nasPlain, 0xb0)
		}
	}
	prot, c := a.protectDL(ue, 2, nasPlain)
	var m ngapType.InitialContextSetupRequest
	add := func(id int64, crit uint64, f func(v *ngapType.InitialContextSetupRequestIEsValue)) {
		ie := ngapType.InitialContextSetupRequestIEs{}
		ie.Id.Value, ie.Criticality.Value = id, aper.Enumerated(crit)
		f(&ie.Value)
		m.ProtocolIEs.List = append(m.ProtocolIEs.List, ie)
	}
	add(10, 0, func(v *ngapType.InitialContextSetupRequestIEsValue) {
		v.Present = 1
		v.AMFUENGAPID = &ngapType.AMFUENGAPID{Value: ue.amf}
	})
	add(85, 0, func(v *ngapType.InitialContextSetupRequestIEsValue) {
		v.Present = 2
		v.RANUENGAPID = &ngapType.RANUENGAPID{Value: ue.ran}
	})
	if a.Ch.ExtraDLIEs {
		add(110, 0, func(v *ngapType.InitialContextSetupRequestIEsValue) {
			v.Present = 4
			v.UEAggregateMaximumBitRate = &ngapType.UEAggregateMaximumBitRate{}
			v.UEAggregateMaximumBitRate.UEAggregateMaximumBitRateDL.Value = 2000000000
			v.UEAggregateMaximumBitRate.UEAggregateMaximumBitRateUL.Value = 1000000000
		})
	}
	add(28, 0, func(v *ngapType.InitialContextSetupRequestIEsValue) { v.Present = 6; g := a.guami(); v.GUAMI = &g })
	add(0, 0, func(v *ngapType.InitialContextSetupRequestIEsValue) {
		v.Present = 8
		v.AllowedNSSAI = &ngapType.AllowedNSSAI{List: []ngapType.AllowedNSSAIItem{{SNSSAI: a.snssai()}}}
	})
	add(119, 0, func(v *ngapType.InitialContextSetupRequestIEsValue) {
		v.Present = 9
		c := &ngapType.UESecurityCapabilities{}
		c.NRencryptionAlgorithms.Value = aper.BitString{Bytes: []byte{0, 0}, BitLength: 16}
		c.NRintegrityProtectionAlgorithms.Value = aper.BitString{Bytes: []byte{0x40, 0}, BitLength: 16}
		c.EUTRAencryptionAlgorithms.Value = aper.BitString{Bytes: []byte{0, 0}, BitLength: 16}
		c.EUTRAintegrityProtectionAlgorithms.Value = aper.BitString{Bytes: []byte{0, 0}, BitLength: 16}
		v.UESecurityCapabilities = c
	})
	add(94, 0, func(v *ngapType.InitialContextSetupRequestIEsValue) {
		v.Present = 10
		k := make([]byte, 32)
		a.Ch.R.Read(k)
		v.SecurityKey = &ngapType.SecurityKey{Value: aper.BitString{Bytes: k, BitLength: 256}}
	})
	if a.Ch.ExtraDLIEs {
		add(31, 1, func(v *ngapType.InitialContextSetupRequestIEsValue) {
			v.Present = 14
			v.IndexToRFSP = &ngapType.IndexToRFSP{Value: 7}
		})
		add(34, 1, func(v *ngapType.InitialContextSetupRequestIEsValue) {
			v.Present = 15
			v.MaskedIMEISV = &ngapType.MaskedIMEISV{Value: aper.BitString{Bytes: []byte{1, 2, 3, 4, 0xff, 0xff, 7, 8}, BitLength: 64}}
		})
	}
	add(38, 1, func(v *ngapType.InitialContextSetupRequestIEsValue) {
		v.Present = 16
		v.NASPDU = &ngapType.NASPDU{Value: prot}
	})
	var pdu ngapType.NGAPPDU
	pdu.Present = 1
	pdu.InitiatingMessage = &ngapType.InitiatingMessage{}
	pdu.InitiatingMessage.ProcedureCode.Value = 14
	pdu.InitiatingMessage.Value.Present = ngapType.InitiatingMessagePresentInitialContextSetupRequest
	pdu.InitiatingMessage.Value.InitialContextSetupRequest = &m
	if service {
		ue.state = "service"
		ue.pendICS = true
		a.down(ue.ran, "InitialContextSetupRequest", "service-accept", pdu, name, 2, c)
		return
	}
	ue.state = "ctx"
	ue.pendICS, ue.pendRegCmpl = true, true
	a.down(ue.ran, "InitialContextSetupRequest", "registration-accept", pdu, name, 2, c)
}

func (a *AMF) onICSResponse(ies map[int64]ieInfo, cur *Event) {
	ue := a.lookup(ies, "InitialContextSetupResponse")
	if ue == nil {
		return
	}
	if !ue.pendICS {
		a.fail("unexpected-ics-response", "UE %d: InitialContextSetupResponse without an outstanding request (state %s)", ue.idx, ue.state)
		return
	}
	ue.pendICS = false
	if ue.state == "service" {
		var ids []reflect.Value
		collect(ies[72].val, "PDUSessionID", &ids, 0)
		if len(ids) != 1 || ids[0].Field(0).Int() != ue.psi {
			got := []int64{}
			for _, x := range ids {
				got = append(got, x.Field(0).Int())
			}
			a.fail("psi-inconsistent", "UE %d: InitialContextSetupResponse after the service request names PDU session(s) %v, the UE's session is %d", ue.idx, got, ue.psi)
			return
		}
		a.checkGTP(ies[72].val, ue, "InitialContextSetupResponse")
		ue.state = "registered"
		ue.procs["service"]++
		return
	}
	a.maybeRegistered(ue)
}

func (a *AMF) checkGTP(list reflect.Value, ue *ueCtx, what string) {
	var trs []reflect.Value
	collectTransfers(list, &trs)
	want := net.ParseIP(a.Cfg.GnbGTP).To4()
	for _, tb := range trs {
		var t ngapType.PDUSessionResourceSetupResponseTransfer
		if err := per.Unmarshal(tb.Bytes(), &t, "valueExt"); err != nil {
			a.fail("setup-response-transfer", "UE %d: %s transfer does not decode: %v", ue.idx, what, err)
			return
		}
		g := t.QosFlowPerTNLInformation.UPTransportLayerInformation.GTPTunnel
		if g == nil || g.TransportLayerAddress.Value.BitLength != 32 || !bytes.Equal(g.TransportLayerAddress.Value.Bytes, want) {
			a.fail("gnb-gtp-address", "UE %d: %s announces a downlink tunnel endpoint other than the configured gnb_gtp_ip %s", ue.idx, what, a.Cfg.GnbGTP)
			return
		}
	}
	if len(trs) == 0 {
		a.fail("setup-response-transfer", "UE %d: %s carries no setup response transfer", ue.idx, what)
	}
}

func collectTransfers(v reflect.Value, out *[]reflect.Value) {
	if !v.IsValid() {
		return
	}
	switch v.Kind() {
	case reflect.Ptr:
		if !v.IsNil() {
			collectTransfers(v.Elem(), out)
		}
	case reflect.Struct:
		for i := 0; i < v.NumField(); i++ {
			f := v.Field(i)
			if strings.HasSuffix(v.Type().Field(i).Name, "Transfer") && f.Kind() == reflect.Slice && f.Type().Elem().Kind() == reflect.Uint8 {
				*out = append(*out, f)
				continue
			}
			collectTransfers(f, out)
		}
	case reflect.Slice:
		if v.Type().Elem().Kind() != reflect.Uint8 {
			for i := 0; i < v.Len(); i++ {
				collectTransfers(v.Index(i), out)
			}
		}
	}
}

func (a *AMF) onULNASTransport(ue *ueCtx, p *refnas.Parsed, cur *Event) {
	ct := p.MandByName("SpareHalfOctetAndPayloadContainerType")
	if len(ct) != 1 || ct[0]&0x0f != 1 {
		a.fail("payload-container-type", "UE %d: UL NAS TRANSPORT payload container type %x, expected N1 SM information", ue.idx, ct)
		return
	}
	inner, err := refnas.Parse(p.MandByName("PayloadContainer"))
	if err != nil {
		a.fail("payload-container", "UE %d: payload container does not hold a 5GSM message: %v", ue.idx, err)
		return
	}
	cur.NAS = "ULNASTransport(" + inner.Def.Name + ")"
	psiIE, ok := p.Get("PduSessionID2Value")
	if !ok || len(psiIE) != 1 {
		a.fail("psi-missing", "UE %d: UL NAS TRANSPORT without PDU session ID", ue.idx)
		return
	}
	if int64(psiIE[0]) != int64(inner.PSI) {
		a.fail("psi-inconsistent", "UE %d: PDU session identity %d in the 5GSM header but %d in the UL NAS TRANSPORT PDU session ID IE", ue.idx, inner.PSI, psiIE[0])
		return
	}
	switch inner.Def.Name {
	case "PDUSessionEstablishmentRequest":
		if ue.state != "registered" {
			a.fail("prerequisite", "UE %d: PDU session establishment while in state %s", ue.idx, ue.state)
			return
		}
		if ue.hasSession {
			a.observe("second-session-same-ue")
		}
		if inner.PSI == 0 || inner.PSI > 15 {
			a.observe("psi-outside-1..15")
		}
		if rt, ok := p.Get("RequestType"); !ok || rt[0]&7 != 1 {
			a.fail("request-type", "UE %d: request type %x, expected initial request", ue.idx, rt)
			return
		}
		if sn, ok := p.Get("SNSSAI"); ok {
			want := []byte{byte(a.Cfg.SST)}
			if len(a.Cfg.SD) == 6 {
				want = append(want, unhex(a.Cfg.SD)...)
			}
			if !bytes.Equal(sn, want) {
				a.fail("snssai", "UE %d: S-NSSAI %x in the establishment request, configured sst %d sd %q", ue.idx, sn, a.Cfg.SST, a.Cfg.SD)
				return
			}
		} else {
			a.fail("snssai", "UE %d: establishment request without S-NSSAI", ue.idx)
			return
		}
		ue.psi = int64(inner.PSI)
		if a.Ch.RejectSessionOf == ue.idx+1 {
			// the SMF refuses: PDU SESSION ESTABLISHMENT REJECT (5GSM cause #26 insufficient resources, back-off timer absent)
			// in a protected DL NAS TRANSPORT; the UE has no session, whatever it does next must not presuppose one
			sm := []byte{0x2e, byte(ue.psi), inner.PTI, 0xc3, pickByte(a.Ch.R, 26, 27, 31, 33, 67, 69)}
			mm := []byte{0x7e, 0x00, 0x68, 0x01, byte(len(sm) >> 8), byte(len(sm))}
			mm = append(append(mm, sm...), 0x12, byte(ue.psi))
			prot, c := a.protectDL(ue, 2, mm)
			a.Rejected++
			a.observe("session-establishment-rejected")
			a.downNAS(ue, prot, "DLNASTransport(PDUSessionEstablishmentReject)", "session-reject", 2, c)
			return
		}
		a.sendSetupRequest(ue, inner.PTI)
	case "PDUSessionReleaseRequest":
		if !ue.hasSession || ue.state != "registered" {
			a.fail("prerequisite", "UE %d: PDU session release without an established session (state %s)", ue.idx, ue.state)
			return
		}
		if int64(inner.PSI) != ue.psi {
			a.fail("psi-inconsistent", "UE %d: release request for PDU session %d, the established session is %d", ue.idx, inner.PSI, ue.psi)
			return
		}
		a.sendReleaseCommand(ue, inner.PTI)
	case "PDUSessionReleaseComplete":
		if !ue.pendRelCmpl {
			a.fail("unexpected-release-complete", "UE %d: PDU Session Release Complete without a release command", ue.idx)
			return
		}
		if int64(inner.PSI) != ue.psi {
			a.fail("psi-inconsistent", "UE %d: release complete for PDU session %d, the session is %d", ue.idx, inner.PSI, ue.psi)
			return
		}
		ue.pendRelCmpl = false
		a.maybeReleased(ue)
	default:
		a.fail("unexpected-5gsm", "UE %d: unexpected 5GSM message %s", ue.idx, inner.Def.Name)
	}
}

func (a *AMF) sendSetupRequest(ue *ueCtx, pti byte) {
	ip := make(net.IP, 4)
	copy(ip, a.Ch.UEIPBase.To4())
	ip[3] += byte(ue.idx)
	teid := a.Ch.TEIDBase + uint32(ue.idx)
	s := Session{UEIndex: ue.idx, PSI: ue.psi, UEIP: ip, TEID: teid, UPF: a.Ch.UPF}
	a.Sessions = append(a.Sessions, s)
	// the size-relevant draws are made once; build() is then a function of the QoS rules length (content from r, the
	// downlink COUNT of u), so that the message can be SIZED: built with throw-away state until it has the wanted length
	fdLen, ambrUL, ambrPick := 3+a.Ch.R.Intn(300), int64(a.Ch.R.Intn(1<<30)), a.Ch.R.Intn(12)
	var build func(qosLen int, r *rand.Rand, ue *ueCtx) (ngapType.NGAPPDU, int64, bool)
	build = func(qosLen int, r *rand.Rand, ue *ueCtx) (ngapType.NGAPPDU, int64, bool) {
		// 5GSM accept
		sm := []byte{0x2e, byte(ue.psi), pti, 0xc2, 0x11, byte(qosLen >> 8), byte(qosLen)}
		q := make([]byte, qosLen)
		r.Read(q)
		if len(q) >= 7 && r.Intn(3) == 0 { // content that looks like a PDU address element is still content
			copy(q[r.Intn(len(q)-6):], []byte{0x29, 0x05, 0x01, 0xde, 0xad, 0xbe, 0xef})
		}
		sm = append(sm, q...)
		sm = append(sm, 0x06, 0x06, 0x00, 0x64, 0x06, 0x00, 0x64)
		if a.Ch.AcceptOptMask&1 != 0 {
			sm = append(sm, 0x59, 0x32)
		}
		sm = append(append(sm, 0x29, 0x05, 0x01), ip...)
		if a.Ch.AcceptOptMask&2 != 0 {
			sm = append(sm, 0x22, 0x04, byte(a.Cfg.SST), 1, 2, 3)
		}
		if a.Ch.AcceptOptMask&4 != 0 {
			n := fdLen
			sm = append(sm, 0x79, byte(n>>8), byte(n))
			fd := make([]byte, n)
			r.Read(fd)
			sm = append(sm, fd...)
		}
		if a.Ch.AcceptOptMask&8 != 0 {
			sm = append(sm, 0x25, 0x09, 0x08, 'i', 'n', 't', 'e', 'r', 'n', 'e', 't')
		}
		mm := []byte{0x7e, 0x00, 0x68, 0x01, byte(len(sm) >> 8), byte(len(sm))}
		mm = append(append(mm, sm...), 0x12, byte(ue.psi))
		prot, c := a.protectDL(ue, 2, mm)
		// transfer
		var t ngapType.PDUSessionResourceSetupRequestTransfer
		addT := func(id int64, f func(v *ngapType.PDUSessionResourceSetupRequestTransferIEsValue)) {
			ie := ngapType.PDUSessionResourceSetupRequestTransferIEs{}
			ie.Id.Value = id
			f(&ie.Value)
			t.ProtocolIEs.List = append(t.ProtocolIEs.List, ie)
		}
		if a.Ch.WithAMBR {
			addT(130, func(v *ngapType.PDUSessionResourceSetupRequestTransferIEsValue) {
				v.Present = ngapType.PDUSessionResourceSetupRequestTransferIEsPresentPDUSessionAggregateMaximumBitRate
				v.PDUSessionAggregateMaximumBitRate = &ngapType.PDUSessionAggregateMaximumBitRate{}
				v.PDUSessionAggregateMaximumBitRate.PDUSessionAggregateMaximumBitRateDL.Value = 4000000000000
				v.PDUSessionAggregateMaximumBitRate.PDUSessionAggregateMaximumBitRateUL.Value = ambrUL
				if ambrPick < 4 { // octets that imitate the header of the tunnel IE that follows (00 8b 00)
					v.PDUSessionAggregateMaximumBitRate.PDUSessionAggregateMaximumBitRateUL.Value = []int64{0x8b, 0x8b00, 0x01008b00, 0x008b000a}[ambrPick]
				}
			})
		}
		addT(139, func(v *ngapType.PDUSessionResourceSetupRequestTransferIEsValue) {
			v.Present = ngapType.PDUSessionResourceSetupRequestTransferIEsPresentULNGUUPTNLInformation
			v.ULNGUUPTNLInformation = &ngapType.UPTransportLayerInformation{Present: 1, GTPTunnel: &ngapType.GTPTunnel{}}
			v.ULNGUUPTNLInformation.GTPTunnel.TransportLayerAddress.Value = aper.BitString{Bytes: append([]byte(nil), a.Ch.UPF.To4()...), BitLength: 32}
			v.ULNGUUPTNLInformation.GTPTunnel.GTPTEID.Value = binary.BigEndian.AppendUint32(nil, teid)
		})
		addT(134, func(v *ngapType.PDUSessionResourceSetupRequestTransferIEsValue) {
			v.Present = ngapType.PDUSessionResourceSetupRequestTransferIEsPresentPDUSessionType
			v.PDUSessionType = &ngapType.PDUSessionType{Value: 0}
		})
		addT(136, func(v *ngapType.PDUSessionResourceSetupRequestTransferIEsValue) {
			v.Present = ngapType.PDUSessionResourceSetupRequestTransferIEsPresentQosFlowSetupRequestList
			var it ngapType.QosFlowSetupRequestItem
			it.QosFlowIdentifier.Value = 1
			it.QosFlowLevelQosParameters.QosCharacteristics.Present = ngapType.QosCharacteristicsPresentNonDynamic5QI
			it.QosFlowLevelQosParameters.QosCharacteristics.NonDynamic5QI = &ngapType.NonDynamic5QIDescriptor{}
			it.QosFlowLevelQosParameters.QosCharacteristics.NonDynamic5QI.FiveQI.Value = 9
			it.QosFlowLevelQosParameters.AllocationAndRetentionPriority.PriorityLevelARP.Value = 8
			v.QosFlowSetupRequestList = &ngapType.QosFlowSetupRequestList{List: []ngapType.QosFlowSetupRequestItem{it}}
		})
		tb, err := per.Marshal(t, "valueExt")
		if err != nil {
			a.fail("refamf-internal", "transfer: %v", err)
			return ngapType.NGAPPDU{}, 0, false
		}
		var m ngapType.PDUSessionResourceSetupRequest
		add := func(id int64, crit uint64, f func(v *ngapType.PDUSessionResourceSetupRequestIEsValue)) {
			ie := ngapType.PDUSessionResourceSetupRequestIEs{}
			ie.Id.Value, ie.Criticality.Value = id, aper.Enumerated(crit)
			f(&ie.Value)
			m.ProtocolIEs.List = append(m.ProtocolIEs.List, ie)
		}
		add(10, 0, func(v *ngapType.PDUSessionResourceSetupRequestIEsValue) {
			v.Present = 1
			v.AMFUENGAPID = &ngapType.AMFUENGAPID{Value: ue.amf}
		})
		add(85, 0, func(v *ngapType.PDUSessionResourceSetupRequestIEsValue) {
			v.Present = 2
			v.RANUENGAPID = &ngapType.RANUENGAPID{Value: ue.ran}
		})
		add(74, 0, func(v *ngapType.PDUSessionResourceSetupRequestIEsValue) {
			v.Present = 5
			it := ngapType.PDUSessionResourceSetupItemSUReq{}
			it.PDUSessionID.Value = ue.psi
			it.PDUSessionNASPDU = &ngapType.NASPDU{Value: prot}
			it.SNSSAI = a.snssai()
			it.PDUSessionResourceSetupRequestTransfer = tb
			v.PDUSessionResourceSetupListSUReq = &ngapType.PDUSessionResourceSetupListSUReq{List: []ngapType.PDUSessionResourceSetupItemSUReq{it}}
		})
		var pdu ngapType.NGAPPDU
		pdu.Present = 1
		pdu.InitiatingMessage = &ngapType.InitiatingMessage{}
		pdu.InitiatingMessage.ProcedureCode.Value = 29
		pdu.InitiatingMessage.Value.Present = ngapType.InitiatingMessagePresentPDUSessionResourceSetupRequest
		pdu.InitiatingMessage.Value.PDUSessionResourceSetupRequest = &m
		return pdu, c, true
	}
	qosLen := a.Ch.QosRulesLen
	if want := a.Ch.SetupReqLen; want > 0 { // the whole message sized to an exact number of octets (the emulator reads into 2048-octet buffers)
		for try := 0; try < 8; try++ {
			scratch := *ue
			p, _, ok := build(qosLen, rand.New(rand.NewSource(int64(try))), &scratch)
			if !ok {
				break
			}
			b, err := per.Marshal(p, pduTag)
			if err != nil || len(b) == want {
				if err == nil {
					a.Observ["session-setup-request-sized-"+fmt.Sprint(want)]++
				}
				break
			}
			qosLen += want - len(b)
			if qosLen < 0 || qosLen > 4000 {
				qosLen = a.Ch.QosRulesLen
				break
			}
		}
	}
	pdu, c, ok := build(qosLen, a.Ch.R, ue)
	if !ok {
		return
	}
	ue.state = "setup"
	a.down(ue.ran, "PDUSessionResourceSetupRequest", "session-setup", pdu, "DLNASTransport(EstablishmentAccept)", 2, c)
}

func (a *AMF) onSetupResponse(ies map[int64]ieInfo, cur *Event) {
	ue := a.lookup(ies, "PDUSessionResourceSetupResponse")
	if ue == nil {
		return
	}
	if ue.state != "setup" {
		a.fail("unexpected-setup-response", "UE %d: PDUSessionResourceSetupResponse in state %s", ue.idx, ue.state)
		return
	}
	var ids []reflect.Value
	collect(ies[75].val, "PDUSessionID", &ids, 0)
	if len(ids) != 1 || ids[0].Field(0).Int() != ue.psi {
		got := []int64{}
		for _, x := range ids {
			got = append(got, x.Field(0).Int())
		}
		a.fail("psi-inconsistent", "UE %d: PDUSessionResourceSetupResponse names PDU session(s) %v, the NAS request and the setup request used %d", ue.idx, got, ue.psi)
		return
	}
	a.checkGTP(ies[75].val, ue, "PDUSessionResourceSetupResponse")
	ue.state = "registered"
	ue.hasSession = true
	ue.procs["establishment"]++
}

func (a *AMF) onServiceRequest(ran int64, nasB []byte, cur *Event) {
	ue := a.byRan[ran]
	if ue == nil || ue.gone {
		a.fail("unknown-ue", "protected NAS message in InitialUEMessage for RAN-UE-NGAP-ID %d, which no registered UE owns", ran)
		return
	}
	if ue.state != "registered" || !ue.hasSession {
		a.fail("prerequisite", "UE %d: service request in state %s (session established: %v)", ue.idx, ue.state, ue.hasSession)
		return
	}
	plain, ok := a.nasUplink(ue, nasB, 2, cur)
	if !ok {
		return
	}
	p, err := refnas.Parse(plain)
	if err != nil || p.Def.Name != "ServiceRequest" {
		a.fail("expected-service-request", "UE %d: expected Service Request, got %v (%v)", ue.idx, defName(p), err)
		return
	}
	cur.NAS = "ServiceRequest"
	a.observe("service-request-reuses-live-ran-ue-ngap-id")
	a.sendICSRequest(ue, true)
}

func (a *AMF) sendReleaseCommand(ue *ueCtx, pti byte) {
	sm := []byte{0x2e, byte(ue.psi), pti, 0xd3, 0x24}
	mm := []byte{0x7e, 0x00, 0x68, 0x01, 0x00, byte(len(sm))}
	mm = append(append(mm, sm...), 0x12, byte(ue.psi))
	prot, c := a.protectDL(ue, 2, mm)
	var m ngapType.PDUSessionResourceReleaseCommand
	add := func(id int64, crit uint64, f func(v *ngapType.PDUSessionResourceReleaseCommandIEsValue)) {
		ie := ngapType.PDUSessionResourceReleaseCommandIEs{}
		ie.Id.Value, ie.Criticality.Value = id, aper.Enumerated(crit)
		f(&ie.Value)
		m.ProtocolIEs.List = append(m.ProtocolIEs.List, ie)
	}
	add(10, 0, func(v *ngapType.PDUSessionResourceReleaseCommandIEsValue) {
		v.Present = 1
		v.AMFUENGAPID = &ngapType.AMFUENGAPID{Value: ue.amf}
	})
	add(85, 0, func(v *ngapType.PDUSessionResourceReleaseCommandIEsValue) {
		v.Present = 2
		v.RANUENGAPID = &ngapType.RANUENGAPID{Value: ue.ran}
	})
	add(38, 1, func(v *ngapType.PDUSessionResourceReleaseCommandIEsValue) {
		v.Present = 4
		v.NASPDU = &ngapType.NASPDU{Value: prot}
	})
	add(79, 0, func(v *ngapType.PDUSessionResourceReleaseCommandIEsValue) {
		v.Present = 5
		var tr ngapType.PDUSessionResourceReleaseCommandTransfer
		tr.Cause.Present = ngapType.CausePresentNas
		tr.Cause.Nas = &ngapType.CauseNas{Value: 0}
		tb, _ := per.Marshal(tr, "valueExt")
		it := ngapType.PDUSessionResourceToReleaseItemRelCmd{PDUSessionResourceReleaseCommandTransfer: tb}
		it.PDUSessionID.Value = ue.psi
		v.PDUSessionResourceToReleaseListRelCmd = &ngapType.PDUSessionResourceToReleaseListRelCmd{List: []ngapType.PDUSessionResourceToReleaseItemRelCmd{it}}
	})
	var pdu ngapType.NGAPPDU
	pdu.Present = 1
	pdu.InitiatingMessage = &ngapType.InitiatingMessage{}
	pdu.InitiatingMessage.ProcedureCode.Value = 28
	pdu.InitiatingMessage.Value.Present = ngapType.InitiatingMessagePresentPDUSessionResourceReleaseCommand
	pdu.InitiatingMessage.Value.PDUSessionResourceReleaseCommand = &m
	ue.state = "release"
	ue.pendRelResp, ue.pendRelCmpl = true, true
	a.down(ue.ran, "PDUSessionResourceReleaseCommand", "release-command", pdu, "DLNASTransport(ReleaseCommand)", 2, c)
}

func (a *AMF) onReleaseResponse(ies map[int64]ieInfo, cur *Event) {
	ue := a.lookup(ies, "PDUSessionResourceReleaseResponse")
	if ue == nil {
		return
	}
	if !ue.pendRelResp {
		a.fail("unexpected-release-response", "UE %d: PDUSessionResourceReleaseResponse without a release command (state %s)", ue.idx, ue.state)
		return
	}
	var ids []reflect.Value
	collect(ies[70].val, "PDUSessionID", &ids, 0)
	if len(ids) != 1 || ids[0].Field(0).Int() != ue.psi {
		got := []int64{}
		for _, x := range ids {
			got = append(got, x.Field(0).Int())
		}
		a.fail("psi-inconsistent", "UE %d: PDUSessionResourceReleaseResponse names PDU session(s) %v, the session is %d", ue.idx, got, ue.psi)
		return
	}
	ue.pendRelResp = false
	a.maybeReleased(ue)
}

func (a *AMF) maybeReleased(ue *ueCtx) {
	if ue.pendRelResp || ue.pendRelCmpl {
		return
	}
	ue.state = "registered"
	ue.hasSession = false
	ue.procs["release"]++
}

func (a *AMF) onDeregistration(ue *ueCtx, p *refnas.Parsed) {
	if ue.state != "registered" {
		a.fail("prerequisite", "UE %d: deregistration in state %s", ue.idx, ue.state)
		return
	}
	if !bytes.Equal(p.MandByName("MobileIdentity5GS"), ue.suciSeen) {
		a.fail("dereg-identity", "UE %d: Deregistration Request carries identity %x, the UE registered as %x", ue.idx, p.MandByName("MobileIdentity5GS"), ue.suciSeen)
		return
	}
	if t := p.MandByName("NgksiAndDeregistrationType"); len(t) == 1 && t[0]>>4 != a.Ch.NgKSI&7 {
		a.observe("dereg-ngksi-differs-from-assigned")
	}
	prot, c := a.protectDL(ue, 2, []byte{0x7e, 0x00, 0x46})
	ue.state = "dereg"
	a.downNAS(ue, prot, "DeregistrationAccept", "deregistration-accept", 2, c)
	var m ngapType.UEContextReleaseCommand
	ie := ngapType.UEContextReleaseCommandIEs{}
	ie.Id.Value = 114
	ie.Value.Present = 1
	ie.Value.UENGAPIDs = &ngapType.UENGAPIDs{Present: 1, UENGAPIDPair: &ngapType.UENGAPIDPair{}}
	ie.Value.UENGAPIDs.UENGAPIDPair.AMFUENGAPID.Value = ue.amf
	ie.Value.UENGAPIDs.UENGAPIDPair.RANUENGAPID.Value = ue.ran
	m.ProtocolIEs.List = append(m.ProtocolIEs.List, ie)
	ie2 := ngapType.UEContextReleaseCommandIEs{}
	ie2.Id.Value = 15
	ie2.Criticality.Value = 1
	ie2.Value.Present = 2
	ie2.Value.Cause = &ngapType.Cause{Present: ngapType.CausePresentNas, Nas: &ngapType.CauseNas{Value: 2}}
	m.ProtocolIEs.List = append(m.ProtocolIEs.List, ie2)
	var pdu ngapType.NGAPPDU
	pdu.Present = 1
	pdu.InitiatingMessage = &ngapType.InitiatingMessage{}
	pdu.InitiatingMessage.ProcedureCode.Value = 41
	pdu.InitiatingMessage.Value.Present = ngapType.InitiatingMessagePresentUEContextReleaseCommand
	pdu.InitiatingMessage.Value.UEContextReleaseCommand = &m
	a.down(ue.ran, "UEContextReleaseCommand", "context-release-command", pdu, "", 0, -1)
}

func (a *AMF) onCtxReleaseComplete(ies map[int64]ieInfo, cur *Event) {
	ue := a.lookup(ies, "UEContextReleaseComplete")
	if ue == nil {
		return
	}
	if ue.state != "dereg" {
		a.fail("unexpected-context-release-complete", "UE %d: UEContextReleaseComplete in state %s", ue.idx, ue.state)
		return
	}
	ue.state = "gone"
	ue.gone = true
	ue.procs["deregistration"]++
}

// ---------------------------------------------------------------- end-of-run (offline) checks over the history

// ExpectedProcedures recomputes, independently of the emulator, how often each procedure must be seen per UE index.
func ExpectedProcedures(cfg Config) map[string][]int {
	min := func(a, b int) int {
		if a < b {
			return a
		}
		return b
	}
	pdu := min(cfg.Reg, cfg.Pdu)
	exp := map[string][]int{"registration": make([]int, cfg.Reg), "establishment": make([]int, cfg.Reg), "service": make([]int, cfg.Reg), "release": make([]int, cfg.Reg), "deregistration": make([]int, cfg.Reg)}
	for i := 0; i < cfg.Reg; i++ {
		exp["registration"][i] = 1
	}
	for i := 0; i < pdu; i++ {
		exp["establishment"][i] = 1
	}
	for i := 0; i < min(pdu, cfg.Svc); i++ {
		exp["service"][i] = 1
	}
	for i := 0; i < min(pdu, cfg.Rel); i++ {
		exp["release"][i] = 1
	}
	for i := 0; i < min(cfg.Reg, cfg.Dereg); i++ {
		exp["deregistration"][i] = 1
	}
	return exp
}

// FinalChecks runs the history-level checks after a run in which the emulator reported success.
func (a *AMF) FinalChecks() {
	a.mu.Lock()
	defer a.mu.Unlock()
	exp := ExpectedProcedures(a.Cfg)
	if len(a.ues) != a.Cfg.Reg {
		a.fail("procedure-count", "%d UEs registered, the configuration implies %d", len(a.ues), a.Cfg.Reg)
		return
	}
	for name, per := range exp {
		for i, n := range per {
			if got := a.ues[i].procs[name]; got != n {
				a.fail("procedure-count", "UE %d completed %d %s procedure(s), the configured counts imply %d", i, got, name, n)
				return
			}
		}
	}
	for _, ue := range a.ues {
		if ue.state != "registered" && ue.state != "gone" {
			a.fail("unfinished-procedure", "UE %d is left in state %s at the end of the run", ue.idx, ue.state)
			return
		}
	}
}

// UEs returns (index, SUPI, RAN id, AMF id, uplink COUNT) of every UE for evidence.
func (a *AMF) UEs() []string {
	var out []string
	for _, u := range a.ues {
		out = append(out, fmt.Sprintf("ue%d supi=imsi-%s ran=%d amf=%d ulcount=%d psi=%d state=%s", u.idx, u.supi, u.ran, u.amf, u.ul, u.psi, u.state))
	}
	return out
}

// trailingNewerIE appends one protocol IE the emulator's tables do not list to an encoded NGAP PDU: the IE count of the
// message's protocolIEs container goes up by one, the item (id, criticality ignore, open type value) follows the last
// item and the length determinant of the message value is rewritten.
func (a *AMF) trailingNewerIE(name string, b []byte) []byte {
	k := a.Ch.TrailingNewerIE
	if k == 0 || len(b) < 8 {
		return b
	}
	var id int
	var val []byte
	switch {
	case name == "InitialContextSetupRequest" && k <= 2:
		id, val = 146, []byte{byte(k-1) << 6} // ENUMERATED {possible, not-possible, ...}: extension bit 0, one bit of index
	case name == "NGSetupResponse" && k <= 2 && a.Ch.NGSetupRespLen == 0:
		id, val = 147, []byte{0} // ENUMERATED {ues-retained, ...}
	case name == "InitialContextSetupRequest" && k == 3 && len(a.Ch.TrailingValue) > 0 && len(a.Ch.TrailingValue) < 128:
		id, val = 165+len(a.Ch.TrailingValue)%60, a.Ch.TrailingValue
	default:
		return b
	}
	// choice octet, procedure code, criticality, length determinant of the open type, then the message SEQUENCE
	hdr, n := 4, int(b[3])
	if b[3]&0x80 != 0 {
		if b[3]&0x40 != 0 {
			return b // fragmented: left alone
		}
		hdr, n = 5, int(b[3]&0x3f)<<8|int(b[4])
	}
	if hdr+n != len(b) || n < 3 {
		return b
	}
	body := append([]byte(nil), b[hdr:]...)
	cnt := int(body[1])<<8 | int(body[2])
	cnt++
	body[1], body[2] = byte(cnt>>8), byte(cnt)
	body = append(body, byte(id>>8), byte(id), 0x40, byte(len(val))) // criticality ignore = 01 in the two leading bits
	body = append(body, val...)
	out := append([]byte(nil), b[:3]...)
	if len(body) < 128 {
		out = append(out, byte(len(body)))
	} else if len(body) < 16384 {
		out = append(out, 0x80|byte(len(body)>>8), byte(len(body)))
	} else {
		return b
	}
	a.Observ[fmt.Sprintf("trailing-newer-ie-%s-id%d-first-octet-%02x", name, id, val[0])]++
	return append(out, body...)
}
