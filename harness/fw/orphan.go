package fw

import (
	"os"
	"sync"
	"syscall"
	"time"
)

// Child processes of the harness (batch children, emulator hosts) must not outlive the process that started them: a
// parent killed by a watchdog or by the operator would otherwise leave them blocked for ever in a read. Pdeathsig is
// tied to the creating THREAD, which the Go runtime may retire, so the children watch their parent instead.

var (
	liveMu    sync.Mutex
	liveGroup = map[int]bool{} // process-group leaders started by this process
)

// TrackGroup records a process group to be killed if this process has to leave because its parent is gone.
func TrackGroup(pid int) { liveMu.Lock(); liveGroup[pid] = true; liveMu.Unlock() }

// UntrackGroup forgets it (the process has been waited for).
func UntrackGroup(pid int) { liveMu.Lock(); delete(liveGroup, pid); liveMu.Unlock() }

// ExitWithParent makes the process leave (status 3) once its parent has changed, killing the tracked groups first.
func ExitWithParent() {
	parent := os.Getppid()
	go func() {
		for {
			time.Sleep(time.Second)
			if os.Getppid() != parent {
				liveMu.Lock()
				for pid := range liveGroup {
					syscall.Kill(-pid, syscall.SIGKILL)
				}
				liveMu.Unlock()
				os.Exit(3)
			}
		}
	}()
}
