package fw

import (
	"bufio"
	"bytes"
	"encoding/binary"
	"encoding/json"
	"fmt"
	"os"
	"os/exec"
	"path/filepath"
	"runtime"
	"sort"
	"strconv"
	"strings"
	"sync"
	"sync/atomic"
	"syscall"
	"time"
)

// ---------------------------------------------------------------- child side

type chunkSummary struct {
	Kind    string           `json:"kind"` // "chunk"
	From    int              `json:"from"`
	Upto    int              `json:"upto"` // exclusive
	Digests []uint64         `json:"digests"`
	Tags    map[string]int64 `json:"tags"`
	Counts  map[string]int64 `json:"counts"`
	Maxima  map[string]int64 `json:"maxima"`
	Samples []sample         `json:"samples,omitempty"`
	Trivial int64            `json:"trivial"`
}
type sample struct {
	Idx   int      `json:"idx"`
	Input string   `json:"input"`
	Tags  []string `json:"tags,omitempty"`
}
type issue struct {
	Kind    string `json:"kind"` // "violation" | "inconclusive"
	Idx     int    `json:"idx"`
	Key     string `json:"key,omitempty"`
	Msg     string `json:"msg,omitempty"`
	Input   string `json:"input,omitempty"`
	Stage   string `json:"stage,omitempty"`
	Tier    string `json:"tier,omitempty"`
	Seed    int64  `json:"seed,omitempty"`
	Prop    string `json:"property,omitempty"`
	Replay  string `json:"-"`
	Crashed bool   `json:"crashed,omitempty"`
}

const chunkSize = 500

// ChildMain runs cases [from,to) and reports through files with prefix out.
func ChildMain(ck *Check, tier string, seed int64, from, to int, out string) int {
	if ck.Init != nil {
		if err := ck.Init(); err != nil {
			fmt.Fprintln(os.Stderr, "INIT-FAILED:", err)
			return 3
		}
	}
	prog, err := os.OpenFile(out+".prog", os.O_CREATE|os.O_RDWR, 0o644)
	if err != nil {
		fmt.Fprintln(os.Stderr, err)
		return 4
	}
	rf, err := os.OpenFile(out+".jsonl", os.O_CREATE|os.O_WRONLY|os.O_APPEND, 0o644)
	if err != nil {
		fmt.Fprintln(os.Stderr, err)
		return 4
	}
	w := bufio.NewWriter(rf)
	emit := func(v any) {
		b, _ := json.Marshal(v)
		w.Write(b)
		w.WriteByte('\n')
		w.Flush()
	}
	var cs chunkSummary
	reset := func(f int) {
		cs = chunkSummary{Kind: "chunk", From: f, Tags: map[string]int64{}, Counts: map[string]int64{}, Maxima: map[string]int64{}}
	}
	reset(from)
	var pb [8]byte
	go func() { // heartbeats of long cases (Beat) next to the case index: "slow" and "stuck" are different things
		var hb [8]byte
		last := uint64(0)
		for {
			time.Sleep(200 * time.Millisecond)
			if b := atomic.LoadUint64(&beats); b != last {
				last = b
				binary.LittleEndian.PutUint64(hb[:], b)
				prog.WriteAt(hb[:], 8)
			}
		}
	}()
	for i := from; i < to; i++ {
		binary.LittleEndian.PutUint64(pb[:], uint64(i))
		prog.WriteAt(pb[:], 0)
		c := &Case{Seed: seed, Tier: tier, Idx: i, R: CaseRand(ck.ID, seed, tier, i)}
		o := RunCase(ck, c)
		switch o.Verdict {
		case Violated:
			emit(issue{Kind: "violation", Idx: i, Key: o.Key, Msg: o.Msg, Input: o.Input})
		case Inconclusive:
			emit(issue{Kind: "inconclusive", Idx: i, Msg: o.Msg, Input: o.Input})
		}
		if o.Nontrivial {
			cs.Digests = append(cs.Digests, o.Digest)
		} else {
			cs.Trivial++
		}
		for _, t := range o.Tags {
			cs.Tags[t]++
		}
		for k, v := range o.Counts {
			cs.Counts[k] += v
		}
		for k, v := range o.Maxima {
			if v > cs.Maxima[k] {
				cs.Maxima[k] = v
			}
		}
		if len(cs.Samples) < 2 && o.Input != "" && o.Verdict == Held && o.Nontrivial && (i%7 == (i/chunkSize)%7 || i+8 > to) {
			in := o.Input
			if len(in) > 1500 {
				in = in[:1500] + "…"
			}
			cs.Samples = append(cs.Samples, sample{Idx: i, Input: in, Tags: o.Tags})
		}
		if (i+1-from)%chunkSize == 0 || i+1 == to {
			cs.Upto = i + 1
			emit(cs)
			reset(i + 1)
		}
	}
	binary.LittleEndian.PutUint64(pb[:], uint64(to))
	prog.WriteAt(pb[:], 0)
	return 0
}

// ---------------------------------------------------------------- parent side

// Agg is the parent's aggregate over all cases of a run.
type Agg struct {
	mu           sync.Mutex
	Check        *Check
	Tier         string
	Seed         int64
	Evaluations  int64
	Trivial      int64
	Digests      map[uint64]struct{}
	Tags         map[string]int64
	Counts       map[string]int64
	Maxima       map[string]int64
	Samples      []sample
	Violations   []issue
	Inconclusive []issue
	Extra        map[string]any
	Crashes      int
	SlowAlone    int // cases that stalled in a batch (machine load) and completed when run alone
}

func (a *Agg) addChunk(c *chunkSummary) {
	a.mu.Lock()
	defer a.mu.Unlock()
	a.Evaluations += int64(c.Upto - c.From)
	a.Trivial += c.Trivial
	for _, d := range c.Digests {
		a.Digests[d] = struct{}{}
	}
	for k, v := range c.Tags {
		a.Tags[k] += v
	}
	for k, v := range c.Counts {
		a.Counts[k] += v
	}
	for k, v := range c.Maxima {
		if v > a.Maxima[k] {
			a.Maxima[k] = v
		}
	}
	if len(a.Samples) < 8 {
		a.Samples = append(a.Samples, c.Samples...)
	}
}
func (a *Agg) addIssue(i issue) {
	a.mu.Lock()
	defer a.mu.Unlock()
	if i.Kind == "violation" {
		a.Violations = append(a.Violations, i)
	} else {
		a.Inconclusive = append(a.Inconclusive, i)
	}
}

// AddViolation lets a Finish hook report a global (history-level) violation.
func (a *Agg) AddViolation(key, msg, input string) {
	a.addIssue(issue{Kind: "violation", Idx: -1, Key: key, Msg: msg, Input: input})
}

type batch struct{ from, to int }

func procs(ck *Check, tier string) int {
	if v := os.Getenv("VERIF_PROCS"); v != "" {
		if n, err := strconv.Atoi(v); err == nil && n > 0 {
			return n
		}
	}
	if ck.Workers != nil {
		return ck.Workers(tier)
	}
	n := runtime.NumCPU()
	if n > 16 {
		n = 16
	}
	return n
}

// ParentMain runs the whole check and returns the process exit code.
func ParentMain(ck *Check, tier string, seed int64, verifDir, workDir, selfExe string) int {
	start := time.Now()
	if ck.Init != nil {
		if err := ck.Init(); err != nil {
			fmt.Printf("INCONCLUSIVE property=%s oracle self-test failed: %v\n", ck.ID, err)
			return 2
		}
	}
	n := ck.N(tier)
	agg := &Agg{Check: ck, Tier: tier, Seed: seed, Digests: map[uint64]struct{}{}, Tags: map[string]int64{}, Counts: map[string]int64{}, Maxima: map[string]int64{}, Extra: map[string]any{}}
	if ck.InProcess {
		runInProcess(ck, agg, tier, seed, n)
	} else {
		runChildren(ck, agg, tier, seed, n, workDir, selfExe)
		retryInconclusive(ck, agg, tier, seed, workDir, selfExe)
	}
	if ck.Finish != nil {
		ck.Finish(agg)
	}
	return report(ck, agg, tier, seed, verifDir, time.Since(start), n)
}

func runInProcess(ck *Check, agg *Agg, tier string, seed int64, n int) {
	p := procs(ck, tier)
	var wg sync.WaitGroup
	ch := make(chan int)
	for w := 0; w < p; w++ {
		wg.Add(1)
		go func() {
			defer wg.Done()
			for i := range ch {
				c := &Case{Seed: seed, Tier: tier, Idx: i, R: CaseRand(ck.ID, seed, tier, i)}
				o := RunCase(ck, c)
				cs := chunkSummary{From: i, Upto: i + 1, Tags: map[string]int64{}, Counts: o.Counts, Maxima: o.Maxima}
				for _, t := range o.Tags {
					cs.Tags[t]++
				}
				if o.Nontrivial {
					cs.Digests = []uint64{o.Digest}
				} else {
					cs.Trivial = 1
				}
				if o.Input != "" && o.Verdict == Held {
					in := o.Input
					if len(in) > 3000 {
						in = in[:3000] + "…"
					}
					cs.Samples = []sample{{Idx: i, Input: in, Tags: o.Tags}}
				}
				agg.addChunk(&cs)
				switch o.Verdict {
				case Violated:
					agg.addIssue(issue{Kind: "violation", Idx: i, Key: o.Key, Msg: o.Msg, Input: o.Input})
				case Inconclusive:
					agg.addIssue(issue{Kind: "inconclusive", Idx: i, Msg: o.Msg, Input: o.Input})
				}
			}
		}()
	}
	for i := 0; i < n; i++ {
		ch <- i
	}
	close(ch)
	wg.Wait()
}

func runChildren(ck *Check, agg *Agg, tier string, seed int64, n int, workDir, selfExe string) {
	bs := ck.Batch
	if bs <= 0 {
		bs = 2000
	}
	p := procs(ck, tier)
	// keep all workers busy: at least 3 batches per worker when possible
	for bs > chunkSize && n/bs < 3*p {
		bs /= 2
	}
	var mu sync.Mutex
	var queue []batch
	for f := 0; f < n; f += bs {
		t := f + bs
		if t > n {
			t = n
		}
		queue = append(queue, batch{f, t})
	}
	pending := len(queue)
	cond := sync.NewCond(&mu)
	push := func(b batch) {
		if b.from >= b.to {
			return
		}
		mu.Lock()
		queue = append(queue, b)
		pending++
		cond.Broadcast()
		mu.Unlock()
	}
	exe := selfExe
	if ck.Race {
		exe = selfExe + "-race"
	}
	var wg sync.WaitGroup
	var seq int
	for w := 0; w < p; w++ {
		wg.Add(1)
		go func() {
			defer wg.Done()
			for {
				mu.Lock()
				for len(queue) == 0 && pending > 0 {
					cond.Wait()
				}
				if len(queue) == 0 {
					mu.Unlock()
					return
				}
				b := queue[0]
				queue = queue[1:]
				seq++
				id := seq
				tooMany := agg.Crashes > 40
				mu.Unlock()
				if !tooMany {
					runBatch(ck, agg, tier, seed, b, workDir, exe, id, push)
				}
				mu.Lock()
				pending--
				cond.Broadcast()
				mu.Unlock()
			}
		}()
	}
	wg.Wait()
}

var beats uint64

// Beat tells the stall monitor that the running case is alive: long cases (stress loops, process conversations) call it
// as they go, so that only a case that stops making progress - not one that merely takes long - counts as hung.
func Beat() { atomic.AddUint64(&beats, 1) }

func readBeat(path string) uint64 {
	b, err := os.ReadFile(path)
	if err != nil || len(b) < 16 {
		return 0
	}
	return binary.LittleEndian.Uint64(b[8:16])
}

func readProg(path string) int {
	b, err := os.ReadFile(path)
	if err != nil || len(b) < 8 {
		return -1
	}
	return int(binary.LittleEndian.Uint64(b[:8]))
}

// runBatch executes one child; on crash or stall it reports and re-queues the unfinished ranges.
func runBatch(ck *Check, agg *Agg, tier string, seed int64, b batch, workDir, exe string, id int, push func(batch)) {
	out := filepath.Join(workDir, "batch", fmt.Sprintf("%s-%d", ck.ID, id))
	os.MkdirAll(filepath.Dir(out), 0o755)
	os.Remove(out + ".prog")
	os.Remove(out + ".jsonl")
	logf, _ := os.Create(out + ".log")
	cmd := exec.Command(exe, "child", ck.ID, tier, strconv.FormatInt(seed, 10), strconv.Itoa(b.from), strconv.Itoa(b.to), out)
	cmd.Stdout = logf
	cmd.Stderr = logf
	cmd.Dir = workDir
	cmd.Env = append(os.Environ(), "GOTRACEBACK=all")
	if ck.ChildEnv != nil {
		cmd.Env = append(cmd.Env, ck.ChildEnv(b.from)...)
	}
	if ck.Race {
		cmd.Env = append(cmd.Env, "GORACE=halt_on_error=0 exitcode=0 log_path="+out+".race")
	}
	if err := cmd.Start(); err != nil {
		agg.addIssue(issue{Kind: "inconclusive", Idx: b.from, Msg: "cannot start child: " + err.Error()})
		logf.Close()
		return
	}
	done := make(chan error, 1)
	go func() { done <- cmd.Wait() }()
	stall := ck.Stall
	if stall == 0 {
		stall = 30 * time.Second
	}
	lastIdx, lastChange := -2, time.Now()
	lastBeat := uint64(0)
	stalled := false
	var werr error
wait:
	for {
		select {
		case werr = <-done:
			break wait
		case <-time.After(250 * time.Millisecond):
			cur, bt := readProg(out+".prog"), readBeat(out+".prog")
			if cur != lastIdx || bt != lastBeat {
				lastIdx, lastBeat, lastChange = cur, bt, time.Now()
			} else if time.Since(lastChange) > stall {
				stalled = true
				cmd.Process.Signal(syscall.SIGQUIT) // goroutine dump into the log
				select {
				case werr = <-done:
				case <-time.After(5 * time.Second):
					cmd.Process.Kill()
					werr = <-done
				}
				break wait
			}
		}
	}
	logf.Close()
	// collect what the child reported: chunk summaries, and the issues inside completed chunks
	// (issues of an unfinished chunk are found again by the re-run of that range)
	upto := b.from
	var issues []issue
	if f, err := os.Open(out + ".jsonl"); err == nil {
		sc := bufio.NewScanner(f)
		sc.Buffer(make([]byte, 1<<20), 1<<28)
		for sc.Scan() {
			line := sc.Bytes()
			if bytes.Contains(line, []byte(`"kind":"chunk"`)) {
				var c chunkSummary
				if json.Unmarshal(line, &c) == nil {
					agg.addChunk(&c)
					upto = c.Upto
				}
			} else {
				var is issue
				if json.Unmarshal(line, &is) == nil {
					issues = append(issues, is)
				}
			}
		}
		f.Close()
	}
	for _, is := range issues {
		if is.Idx < upto {
			agg.addIssue(is)
		}
	}
	logTxt := tailFile(out+".log", 1<<16)
	if ck.Race {
		collectRace(agg, out)
	}
	if werr == nil && !stalled {
		os.Remove(out + ".jsonl")
		os.Remove(out + ".log")
		os.Remove(out + ".prog")
		return
	}
	cur := readProg(out + ".prog")
	if cur < b.from || cur >= b.to {
		if strings.Contains(logTxt, "INIT-FAILED") {
			agg.addIssue(issue{Kind: "inconclusive", Idx: b.from, Msg: "child init failed: " + firstLines(logTxt, 5)})
			return
		}
		agg.addIssue(issue{Kind: "inconclusive", Idx: b.from, Msg: fmt.Sprintf("child ended abnormally (%v) outside any case: %s", werr, firstLines(logTxt, 10))})
		return
	}
	agg.mu.Lock()
	agg.Crashes++
	agg.mu.Unlock()
	if stalled {
		// stage 2: the same case alone, generous budget
		confirm := ck.Confirm
		if confirm == 0 {
			confirm = 60 * time.Second
		}
		if confirm < stall {
			confirm = stall // alone the case gets at least the window it had in the batch
		}
		ok, dump2 := confirmStall(ck, tier, seed, cur, workDir, exe, confirm, out)
		if ok {
			fr := TopRepoFrame(stackOfRunning(dump2))
			agg.addIssue(issue{Kind: "violation", Idx: cur, Key: "hang:" + fr, Crashed: true,
				Msg: fmt.Sprintf("case made no progress for %v in a batch and again for %v when run alone; goroutine dump:\n%s", stall, confirm, firstLines(dump2, 60))})
		} else if ingestConfirm(agg, out+"-confirm.jsonl", cur) {
			// slow under load, not stuck: the run of the case alone completed and its outcome is the case's outcome
			agg.mu.Lock()
			agg.SlowAlone++
			agg.mu.Unlock()
		} else {
			agg.addIssue(issue{Kind: "inconclusive", Idx: cur, Msg: fmt.Sprintf("stalled %v in a batch and its run alone ended without a result", stall)})
		}
	} else if !ck.CrashNotViolation {
		key := "crash:" + TopRepoFrame(logTxt)
		if !strings.Contains(logTxt, "goroutine ") {
			key = "exit:" + exitDesc(werr)
		}
		agg.addIssue(issue{Kind: "violation", Idx: cur, Key: key, Crashed: true,
			Msg: fmt.Sprintf("child process died inside the case (%v):\n%s", werr, firstLines(crashExcerpt(logTxt), 60))})
	} else {
		agg.addIssue(issue{Kind: "inconclusive", Idx: cur, Msg: fmt.Sprintf("child died (%v): %s", werr, firstLines(crashExcerpt(logTxt), 20))})
	}
	push(batch{upto, cur})
	push(batch{cur + 1, b.to})
}

// ingestConfirm takes over what the stage-2 child (one case alone) reported. True when it completed the case.
func ingestConfirm(agg *Agg, path string, idx int) bool {
	f, err := os.Open(path)
	if err != nil {
		return false
	}
	defer f.Close()
	sc := bufio.NewScanner(f)
	sc.Buffer(make([]byte, 1<<20), 1<<28)
	done := false
	var issues []issue
	for sc.Scan() {
		line := sc.Bytes()
		if bytes.Contains(line, []byte(`"kind":"chunk"`)) {
			var c chunkSummary
			if json.Unmarshal(line, &c) == nil && c.Upto > idx {
				agg.addChunk(&c)
				done = true
			}
		} else {
			var is issue
			if json.Unmarshal(line, &is) == nil {
				issues = append(issues, is)
			}
		}
	}
	if done {
		for _, is := range issues {
			agg.addIssue(is)
		}
	}
	return done
}

// retryInconclusive gives every case that ended inconclusive (a watchdog of the harness on a loaded machine, as a rule)
// a second run ALONE, one after the other, once all batches are done. A second run that reaches a verdict decides the
// case (held, or a violation like any other); one that is inconclusive again, or does not finish, leaves it as it was.
func retryInconclusive(ck *Check, agg *Agg, tier string, seed int64, workDir, selfExe string) {
	exe := selfExe
	if ck.Race {
		exe = selfExe + "-race"
	}
	agg.mu.Lock()
	seen := map[int]bool{}
	var idxs []int
	for _, is := range agg.Inconclusive {
		if is.Idx >= 0 && !seen[is.Idx] && len(idxs) < 24 {
			seen[is.Idx] = true
			idxs = append(idxs, is.Idx)
		}
	}
	agg.mu.Unlock()
	budget := ck.Stall
	if budget < 2*time.Minute {
		budget = 2 * time.Minute
	}
	for _, idx := range idxs {
		out := filepath.Join(workDir, fmt.Sprintf("%s-retry-%d", ck.ID, idx))
		stuck, _ := confirmStall(ck, tier, seed, idx, workDir, exe, budget, out)
		decided, again := false, false
		var found []issue
		if f, err := os.Open(out + "-confirm.jsonl"); err == nil && !stuck {
			sc := bufio.NewScanner(f)
			sc.Buffer(make([]byte, 1<<20), 1<<28)
			for sc.Scan() {
				line := sc.Bytes()
				if bytes.Contains(line, []byte(`"kind":"chunk"`)) {
					var c chunkSummary
					if json.Unmarshal(line, &c) == nil && c.Upto > idx {
						decided = true
					}
				} else {
					var is issue
					if json.Unmarshal(line, &is) == nil {
						if is.Kind == "inconclusive" {
							again = true
						}
						found = append(found, is)
					}
				}
			}
			f.Close()
		}
		for _, sfx := range []string{".jsonl", ".log", ".prog"} {
			os.Remove(out + "-confirm" + sfx)
		}
		if !decided || again {
			continue
		}
		agg.mu.Lock()
		kept := agg.Inconclusive[:0]
		for _, is := range agg.Inconclusive {
			if is.Idx != idx {
				kept = append(kept, is)
			}
		}
		agg.Inconclusive = kept
		n, _ := agg.Extra["inconclusive_cases_decided_by_a_second_run_alone"].(int)
		agg.Extra["inconclusive_cases_decided_by_a_second_run_alone"] = n + 1
		agg.mu.Unlock()
		for _, is := range found {
			agg.addIssue(is)
		}
	}
}

func exitDesc(err error) string {
	if ee, ok := err.(*exec.ExitError); ok {
		return strconv.Itoa(ee.ExitCode())
	}
	return "unknown"
}

func crashExcerpt(log string) string {
	for _, m := range []string{"fatal error:", "panic:", "SIGSEGV", "WARNING: DATA RACE"} {
		if i := strings.Index(log, m); i >= 0 {
			return log[i:]
		}
	}
	return log
}

func stackOfRunning(dump string) string {
	// prefer the goroutine that is running/runnable in repo code
	parts := strings.Split(dump, "\n\n")
	for _, p := range parts {
		if strings.Contains(p, repoPrefix()) && (strings.Contains(p, "[running]") || strings.Contains(p, "[runnable]")) {
			return p
		}
	}
	for _, p := range parts {
		if strings.Contains(p, repoPrefix()) {
			return p
		}
	}
	return dump
}

func confirmStall(ck *Check, tier string, seed int64, idx int, workDir, exe string, budget time.Duration, out string) (bool, string) {
	o2 := out + "-confirm"
	os.Remove(o2 + ".prog")
	os.Remove(o2 + ".jsonl")
	logf, _ := os.Create(o2 + ".log")
	cmd := exec.Command(exe, "child", ck.ID, tier, strconv.FormatInt(seed, 10), strconv.Itoa(idx), strconv.Itoa(idx+1), o2)
	cmd.Stdout, cmd.Stderr, cmd.Dir = logf, logf, workDir
	cmd.Env = append(os.Environ(), "GOTRACEBACK=all")
	if ck.ChildEnv != nil {
		cmd.Env = append(cmd.Env, ck.ChildEnv(idx)...)
	}
	if err := cmd.Start(); err != nil {
		logf.Close()
		return false, ""
	}
	done := make(chan error, 1)
	go func() { done <- cmd.Wait() }()
	// the budget is a window WITHOUT progress (a case that beats is alive), under a generous overall cap
	lastBeat, lastChange, start := uint64(0), time.Now(), time.Now()
	for {
		select {
		case <-done:
			logf.Close()
			return false, ""
		case <-time.After(250 * time.Millisecond):
		}
		if bt := readBeat(o2 + ".prog"); bt != lastBeat {
			lastBeat, lastChange = bt, time.Now()
		}
		if time.Since(lastChange) > budget || time.Since(start) > 40*budget {
			cmd.Process.Signal(syscall.SIGQUIT)
			select {
			case <-done:
			case <-time.After(5 * time.Second):
				cmd.Process.Kill()
				<-done
			}
			logf.Close()
			return true, tailFile(o2+".log", 1<<16)
		}
	}
}

func tailFile(path string, max int64) string {
	f, err := os.Open(path)
	if err != nil {
		return ""
	}
	defer f.Close()
	st, _ := f.Stat()
	if st.Size() > max {
		// keep the head: panics are printed first
		b := make([]byte, max)
		n, _ := f.Read(b)
		return string(b[:n])
	}
	b, _ := os.ReadFile(path)
	return string(b)
}

func firstLines(s string, n int) string {
	l := strings.Split(s, "\n")
	if len(l) > n {
		l = l[:n]
	}
	return strings.Join(l, "\n")
}

// collectRace reads race-detector logs of a child and records each report as a violation keyed by its outermost repo frames.
func collectRace(agg *Agg, out string) {
	files, _ := filepath.Glob(out + ".race.*")
	for _, f := range files {
		b, err := os.ReadFile(f)
		if err != nil {
			continue
		}
		blocks := strings.Split(string(b), "==================")
		for _, blk := range blocks {
			if !strings.Contains(blk, "WARNING: DATA RACE") {
				continue
			}
			agg.mu.Lock()
			agg.Counts["race_reports"]++
			agg.mu.Unlock()
			rk := raceKey(blk)
			if rk == "unknown" { // neither access is in the code under test: a defect of the monitor, never a verdict on the repository
				agg.addIssue(issue{Kind: "inconclusive", Idx: -1, Msg: "race report without a frame of the code under test (harness defect?):\n" + firstLines(strings.TrimSpace(blk), 30)})
				continue
			}
			agg.addIssue(issue{Kind: "violation", Idx: -1, Key: "race:" + rk, Msg: firstLines(strings.TrimSpace(blk), 45)})
		}
		os.Remove(f)
	}
}

// raceKey: the pair of innermost code-under-test frames of the two accesses, line numbers stripped.
func raceKey(blk string) string {
	var fr []string
	secs := strings.Split(blk, "\n\n")
	for _, s := range secs {
		t := strings.TrimSpace(s)
		if strings.HasPrefix(t, "WARNING: DATA RACE") {
			t = strings.TrimSpace(strings.TrimPrefix(t, "WARNING: DATA RACE"))
		}
		if strings.HasPrefix(t, "Write at") || strings.HasPrefix(t, "Read at") || strings.HasPrefix(t, "Previous write") || strings.HasPrefix(t, "Previous read") {
			lines := strings.Split(t, "\n")
			for i := 1; i+1 < len(lines); i += 2 {
				if strings.Contains(lines[i+1], repoPrefix()) {
					fn := strings.TrimSpace(lines[i])
					if p := strings.LastIndex(fn, "("); p > 0 { // the argument list; method receivers like pkg.(*T).M keep theirs
						fn = fn[:p]
					}
					if s := strings.LastIndex(fn, "/"); s >= 0 {
						fn = fn[s+1:]
					}
					fr = append(fr, fn)
					break
				}
			}
		}
	}
	sort.Strings(fr)
	if len(fr) == 0 {
		return "unknown"
	}
	return strings.Join(fr, "|")
}
