// Package fw is the small runtime-monitoring framework shared by every check:
// deterministic case generation from (seed, tier, index), child processes that
// execute batches of cases against the code under test, crash / stall
// monitors in the parent, three-valued verdicts, known-finding matching,
// replay files and evidence files.
package fw

import (
	"encoding/binary"
	"fmt"
	"hash/fnv"
	"math/rand"
	"os"
	"runtime/debug"
	"strings"
	"time"
)

const (
	Held = iota
	Violated
	Inconclusive
)

// Case identifies one deterministic case of a check.
type Case struct {
	Seed    int64
	Tier    string
	Idx     int
	R       *rand.Rand
	Verbose bool // replay mode: the monitor may print what it sees
}

func (c *Case) Thorough() bool { return c.Tier == "thorough" }

// Outcome is what a monitor reports for one case.
type Outcome struct {
	Verdict    int               `json:"verdict"`
	Key        string            `json:"key,omitempty"`   // finding key (narrow classification of the failure)
	Msg        string            `json:"msg,omitempty"`   // human readable witness
	Input      string            `json:"input,omitempty"` // concrete input / history of the case
	Digest     uint64            `json:"digest,omitempty"`
	Nontrivial bool              `json:"nontrivial,omitempty"`
	Tags       []string          `json:"tags,omitempty"`   // histogram keys (one count per case and tag)
	Counts     map[string]int64  `json:"counts,omitempty"` // summed over cases (events observed ...)
	Maxima     map[string]int64  `json:"maxima,omitempty"` // max over cases
	Sets       map[string]string `json:"-"`                // reserved
}

func (o *Outcome) Count(k string, n int64) {
	if o.Counts == nil {
		o.Counts = map[string]int64{}
	}
	o.Counts[k] += n
}
func (o *Outcome) Max(k string, n int64) {
	if o.Maxima == nil {
		o.Maxima = map[string]int64{}
	}
	if n > o.Maxima[k] {
		o.Maxima[k] = n
	}
}
func (o *Outcome) Tag(t ...string) { o.Tags = append(o.Tags, t...) }

// Fail marks the outcome violated (first failure wins).
func (o *Outcome) Fail(key, format string, a ...any) {
	if o.Verdict == Violated {
		return
	}
	o.Verdict = Violated
	o.Key = key
	o.Msg = fmt.Sprintf(format, a...)
}
func (o *Outcome) Inconcl(format string, a ...any) {
	if o.Verdict != Held {
		return
	}
	o.Verdict = Inconclusive
	o.Msg = fmt.Sprintf(format, a...)
}
func (o *Outcome) Failed() bool { return o.Verdict == Violated }

// Check describes one property's machinery.
type Check struct {
	ID          string
	Level       string // exploration | fault_enumeration
	Rule        string
	Assumptions []string
	// N is the number of cases of the tier.
	N func(tier string) int
	// Run generates case c.Idx from c.R and executes it against the code under test.
	Run func(c *Case) Outcome
	// Init runs once per process (parent and children) before any case: oracle self-tests. An error makes the check inconclusive.
	Init func() error
	// Batch is the number of cases per child batch (default 2000).
	Batch int
	// Stall is how long one case may take before the stall monitor looks at the child (default 30s).
	Stall time.Duration
	// Confirm is the budget of the stage-2 re-run of a stalled case alone (default 60s).
	Confirm time.Duration
	// ChildEnv, if set, adds environment variables for the child process that runs the batch starting at case idx (what a
	// process reads once at start - GOMAXPROCS, locale, time zone - is part of the space of executions).
	ChildEnv func(idx int) []string
	// Exhaustive reports whether the tier enumerates a finite space completely.
	Exhaustive func(tier string) bool
	// InProcess: cases are executed by goroutines of the parent (process-level checks whose "code under test" is an exec'd emulator).
	InProcess bool
	// Workers overrides the number of parallel children / goroutines.
	Workers func(tier string) int
	// Explain is added to the evidence.
	Explain string
	// Race: children are the -race build.
	Race bool
	// MaxInconclusive tolerated before the run as a whole is inconclusive (default 0.5% of cases, min 3).
	MaxInconclusive func(n int) int
	// Finish is called in the parent after all cases; may add coverage keys and global verdicts.
	Finish func(a *Agg)
	// CrashIsViolation: a child crash (fatal error, os.Exit) at a case is a violation (default true).
	CrashNotViolation bool
}

var registry = map[string]*Check{}
var order []string

func Register(c *Check) {
	if _, dup := registry[c.ID]; dup {
		panic("duplicate check " + c.ID)
	}
	registry[c.ID] = c
	order = append(order, c.ID)
}
func Lookup(id string) *Check { return registry[id] }
func IDs() []string           { return order }

// CaseRand returns the PRNG of case idx: independent of every other case so that any
// index range can be executed by any child and a replay needs (seed, tier, idx) only.
func CaseRand(id string, seed int64, tier string, idx int) *rand.Rand {
	h := fnv.New64a()
	h.Write([]byte(id))
	h.Write([]byte{0})
	h.Write([]byte(tier))
	var b [16]byte
	binary.LittleEndian.PutUint64(b[:8], uint64(seed))
	binary.LittleEndian.PutUint64(b[8:], uint64(idx))
	h.Write(b[:])
	return rand.New(rand.NewSource(int64(h.Sum64())))
}

func Hash(parts ...[]byte) uint64 {
	h := fnv.New64a()
	for _, p := range parts {
		var l [4]byte
		binary.LittleEndian.PutUint32(l[:], uint32(len(p)))
		h.Write(l[:])
		h.Write(p)
	}
	return h.Sum64()
}
func HashS(parts ...string) uint64 {
	h := fnv.New64a()
	for _, p := range parts {
		h.Write([]byte(p))
		h.Write([]byte{0})
	}
	return h.Sum64()
}

// RunCase executes one case with a panic monitor around it.
func RunCase(ck *Check, c *Case) (o Outcome) {
	defer func() {
		if r := recover(); r != nil {
			st := string(debug.Stack())
			o.Verdict = Violated
			o.Key = "panic:" + TopRepoFrame(st)
			o.Msg = fmt.Sprintf("panic: %v\n%s", r, trimStack(st))
		}
	}()
	return ck.Run(c)
}

// TopRepoFrame returns the innermost function of the code under test in a Go stack dump.
func TopRepoFrame(stack string) string {
	lines := strings.Split(stack, "\n")
	for i := 0; i+1 < len(lines); i++ {
		fn := lines[i]
		loc := strings.TrimSpace(lines[i+1])
		if strings.HasPrefix(loc, repoPrefix()) {
			if p := strings.LastIndex(fn, "("); p > 0 {
				fn = fn[:p]
			}
			if s := strings.LastIndex(fn, "/"); s >= 0 {
				fn = fn[s+1:]
			}
			return strings.TrimSpace(fn)
		}
	}
	return "unknown"
}

// repoPrefix is the path prefix of frames of the code under test (/repo/, or a scratch copy named by VERIF_REPO).
func repoPrefix() string {
	if v := os.Getenv("VERIF_REPO"); v != "" {
		return strings.TrimRight(v, "/") + "/"
	}
	return "/repo/"
}

func trimStack(st string) string {
	lines := strings.Split(st, "\n")
	if len(lines) > 40 {
		lines = lines[:40]
	}
	return strings.Join(lines, "\n")
}
