package fw

import (
	"bufio"
	"encoding/json"
	"fmt"
	"os"
	"path/filepath"
	"sort"
	"strings"
	"time"
)

type knownFinding struct {
	Prop, Key, Text string
}

// loadKnown parses /verif/known_findings.txt: lines "known: property=<id> key=<key> <text>" (and "fixed:" lines, which suppress nothing).
func loadKnown(verifDir string) []knownFinding {
	var out []knownFinding
	f, err := os.Open(filepath.Join(verifDir, "known_findings.txt"))
	if err != nil {
		return nil
	}
	defer f.Close()
	sc := bufio.NewScanner(f)
	for sc.Scan() {
		l := strings.TrimSpace(sc.Text())
		if !strings.HasPrefix(l, "known:") {
			continue
		}
		fs := strings.Fields(strings.TrimPrefix(l, "known:"))
		k := knownFinding{}
		var rest []string
		for _, w := range fs {
			switch {
			case strings.HasPrefix(w, "property=") && k.Prop == "":
				k.Prop = strings.TrimPrefix(w, "property=")
			case strings.HasPrefix(w, "key=") && k.Key == "":
				k.Key = strings.TrimPrefix(w, "key=")
			default:
				rest = append(rest, w)
			}
		}
		k.Text = strings.Join(rest, " ")
		if k.Prop != "" && k.Key != "" {
			out = append(out, k)
		}
	}
	return out
}

type replayFile struct {
	Property string `json:"property"`
	Tier     string `json:"tier"`
	Seed     int64  `json:"seed"`
	Idx      int    `json:"idx"`
	Key      string `json:"key"`
	Msg      string `json:"msg"`
	Input    string `json:"input,omitempty"`
	Note     string `json:"note"`
}

func report(ck *Check, agg *Agg, tier string, seed int64, verifDir string, wall time.Duration, n int) int {
	known := loadKnown(verifDir)
	isKnown := func(key string) *knownFinding {
		for i := range known {
			if known[i].Prop == ck.ID && known[i].Key == key {
				return &known[i]
			}
		}
		return nil
	}
	// group violations by key
	byKey := map[string][]issue{}
	for _, v := range agg.Violations {
		byKey[v.Key] = append(byKey[v.Key], v)
	}
	keys := make([]string, 0, len(byKey))
	for k := range byKey {
		keys = append(keys, k)
	}
	sort.Strings(keys)
	newViol := 0
	knownHits := map[string]int{}
	outDir := verifDir
	if v := os.Getenv("VERIF_OUT"); v != "" { // validation runs against scratch copies must not overwrite the committed evidence
		outDir = v
	}
	replayDir := filepath.Join(outDir, "replay")
	for _, k := range keys {
		vs := byKey[k]
		sort.Slice(vs, func(i, j int) bool { return vs[i].Idx < vs[j].Idx })
		if kf := isKnown(k); kf != nil {
			knownHits[k] = len(vs)
			fmt.Printf("KNOWN-FINDING: property=%s key=%s %s (%d case(s) this run, first idx %d)\n", ck.ID, k, kf.Text, len(vs), vs[0].Idx)
			continue
		}
		newViol += len(vs)
		os.MkdirAll(replayDir, 0o755)
		v := vs[0]
		safe := strings.NewReplacer("/", "_", ":", "_", " ", "_", "|", "_", "*", "_", "(", "", ")", "").Replace(k)
		if len(safe) > 60 {
			safe = safe[:60]
		}
		path := filepath.Join(replayDir, fmt.Sprintf("%s-%s-s%d-%s-%d.json", ck.ID, tier, seed, safe, v.Idx))
		rf := replayFile{Property: ck.ID, Tier: tier, Seed: seed, Idx: v.Idx, Key: k, Msg: v.Msg, Input: v.Input,
			Note: fmt.Sprintf("%d case(s) with this key in the run; replay with: bin/vcheck replay %s", len(vs), path)}
		b, _ := json.MarshalIndent(rf, "", " ")
		os.WriteFile(path, b, 0o644)
		fmt.Printf("VIOLATION property=%s replay=%s\n", ck.ID, path)
		msg := v.Msg
		if len(msg) > 1200 {
			msg = msg[:1200] + "…"
		}
		fmt.Printf("  key=%s cases=%d first=%d\n  %s\n", k, len(vs), v.Idx, strings.ReplaceAll(msg, "\n", "\n  "))
	}
	// inconclusive accounting
	maxInc := 3
	if n/200 > maxInc {
		maxInc = n / 200
	}
	if ck.MaxInconclusive != nil {
		maxInc = ck.MaxInconclusive(n)
	}
	for i, ic := range agg.Inconclusive {
		if i < 5 {
			fmt.Printf("INCONCLUSIVE-CASE property=%s idx=%d %s\n", ck.ID, ic.Idx, firstLines(ic.Msg, 3))
		}
	}
	observedNothing := agg.Evaluations == 0 || len(agg.Digests) < 2
	incomplete := agg.Evaluations < int64(n) && agg.Crashes <= 40

	// evidence
	cov := map[string]any{
		"evaluations":                agg.Evaluations,
		"distinct_nontrivial":        len(agg.Digests),
		"rule":                       ck.Rule,
		"planned_cases":              n,
		"trivial_cases":              agg.Trivial,
		"inconclusive_cases":         len(agg.Inconclusive),
		"child_crashes":              agg.Crashes - agg.SlowAlone,
		"slow_cases_completed_alone": agg.SlowAlone,
	}
	if ck.Exhaustive != nil {
		cov["exhaustive"] = ck.Exhaustive(tier) && agg.Evaluations >= int64(n)
	}
	if len(agg.Tags) > 0 {
		cov["histogram"] = agg.Tags
	}
	if len(agg.Counts) > 0 {
		cov["observed_counts"] = agg.Counts
	}
	if len(agg.Maxima) > 0 {
		cov["observed_maxima"] = agg.Maxima
	}
	var samples []any
	for i, s := range agg.Samples {
		if i >= 6 {
			break
		}
		samples = append(samples, s)
	}
	for _, k := range keys {
		v := byKey[k][0]
		in := v.Input
		if len(in) > 800 {
			in = in[:800] + "…"
		}
		samples = append(samples, map[string]any{"idx": v.Idx, "violation_key": k, "input": in})
	}
	if samples == nil {
		samples = []any{}
	}
	cov["samples"] = samples
	if len(knownHits) > 0 {
		cov["known_findings_hit"] = knownHits
	}
	if ck.Explain != "" {
		cov["explanation"] = ck.Explain
	}
	for k, v := range agg.Extra {
		cov[k] = v
	}
	ev := map[string]any{
		"property_id": ck.ID,
		"tier":        tier,
		"seed":        seed,
		"level":       ck.Level,
		"coverage":    cov,
		"assumptions": ck.Assumptions,
		"wall_s":      float64(int(wall.Seconds()*1000)) / 1000,
		"violations":  newViol,
	}
	if ck.Assumptions == nil {
		ev["assumptions"] = []string{}
	}
	os.MkdirAll(filepath.Join(outDir, "evidence"), 0o755)
	b, _ := json.MarshalIndent(ev, "", " ")
	os.WriteFile(filepath.Join(outDir, "evidence", ck.ID+".json"), append(b, '\n'), 0o644)

	fmt.Printf("SUMMARY property=%s tier=%s seed=%d cases=%d/%d distinct_nontrivial=%d violations=%d known_findings=%d inconclusive=%d wall=%.1fs\n",
		ck.ID, tier, seed, agg.Evaluations, n, len(agg.Digests), newViol, len(knownHits), len(agg.Inconclusive), wall.Seconds())
	if newViol > 0 {
		return 1
	}
	if observedNothing {
		fmt.Printf("INCONCLUSIVE property=%s the monitors observed nothing (evaluations=%d distinct=%d)\n", ck.ID, agg.Evaluations, len(agg.Digests))
		return 2
	}
	if len(agg.Inconclusive) > maxInc {
		fmt.Printf("INCONCLUSIVE property=%s %d inconclusive cases (tolerated %d)\n", ck.ID, len(agg.Inconclusive), maxInc)
		return 2
	}
	if incomplete && len(knownHits) == 0 {
		fmt.Printf("INCONCLUSIVE property=%s only %d of %d cases were executed\n", ck.ID, agg.Evaluations, n)
		return 2
	}
	return 0
}

// Replay re-executes the case recorded in a replay file in this process.
func Replay(path string) int {
	b, err := os.ReadFile(path)
	if err != nil {
		fmt.Println("cannot read replay file:", err)
		return 2
	}
	var rf replayFile
	if err := json.Unmarshal(b, &rf); err != nil {
		fmt.Println("bad replay file:", err)
		return 2
	}
	ck := Lookup(rf.Property)
	if ck == nil {
		fmt.Println("unknown property", rf.Property)
		return 2
	}
	if rf.Idx < 0 {
		fmt.Println("this finding is a whole-run (history level) finding; re-run the check with the same seed:", rf.Property, rf.Tier, "VERIF_SEED=", rf.Seed)
		return 2
	}
	if ck.Init != nil {
		if err := ck.Init(); err != nil {
			fmt.Println("oracle self-test failed:", err)
			return 2
		}
	}
	c := &Case{Seed: rf.Seed, Tier: rf.Tier, Idx: rf.Idx, R: CaseRand(ck.ID, rf.Seed, rf.Tier, rf.Idx), Verbose: true}
	o := RunCase(ck, c)
	fmt.Printf("replay property=%s tier=%s seed=%d idx=%d\ninput: %s\n", rf.Property, rf.Tier, rf.Seed, rf.Idx, o.Input)
	switch o.Verdict {
	case Violated:
		fmt.Printf("VIOLATION property=%s replay=%s\n  key=%s\n  %s\n", rf.Property, path, o.Key, o.Msg)
		return 1
	case Inconclusive:
		fmt.Println("inconclusive:", o.Msg)
		return 2
	}
	fmt.Println("held")
	return 0
}
