package nas

import "testing"

func TestSelfTest(t *testing.T) {
	if err := SelfTest(); err != nil {
		t.Fatal(err)
	}
}

func TestTableSize(t *testing.T) {
	unsure, multi := 0, 0
	for i := range Messages {
		m := &Messages[i]
		for _, f := range m.Mandatory {
			if f.Unsure {
				unsure++
				t.Logf("unsure: %s.%s: %s", m.Name, f.Name, f.Note)
			}
		}
		for _, o := range m.Optional {
			if o.Unsure {
				unsure++
				t.Logf("unsure: %s.%s: %s", m.Name, o.Name, o.Note)
			}
			if len(o.IEI) > 1 {
				multi++
				t.Logf("multi-IEI: %s.%s: % x", m.Name, o.Name, o.IEI)
			}
		}
		for _, o := range m.SpecOnly {
			t.Logf("spec only: %s.%s (%v IEI % x): %s", m.Name, o.Name, o.Fmt, o.IEI, o.Note)
		}
	}
	t.Logf("%d messages, %d (message, optional IE) pairs, %d unsure, %d multi-IEI", len(Messages), NumOptionalPairs(), unsure, multi)
}
