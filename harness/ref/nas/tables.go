// Package nas is an independent, table-driven reference description of the
// 5GS NAS message layouts of 3GPP TS 24.501 Release 15 (v15.2 .. v15.7 era):
// the message tables of clauses 8.2 (5GMM) and 8.3 (5GSM) with IE formats and
// lengths from clause 9.11.
//
// The tables are written from the specification. The ONLY thing shared with
// the code base under test is the list of member names (so that the tables can
// be keyed compatibly). IEIs, formats and lengths come from TS 24.501.
//
// Conventions
//
//   - In the constructors below (lv, lve, tv, tlv, tlve) the lengths are given
//     exactly as in the "Length" column of the TS tables, i.e. TOTAL lengths
//     including the IEI and length-indicator octets. The constructors convert
//     them to VALUE lengths (Min/Max/Len of Field and OptIE).
//   - hi == 0 (N) means "n" in the table: bounded only by the length field.
//   - A TS bound of 65538 for a TLV-E IE (3 + 65535) converts to 65535. For the
//     one LV-E entry where the TS says 65538 (Authorized QoS rules in PDU
//     SESSION ESTABLISHMENT ACCEPT, a known quirk: the table copies the TLV-E
//     size of 9.11.4.13) the value maximum is capped at 65535, the capacity of
//     the two-octet length indicator.
//   - Half-octet pairs of the mandatory part ("V 1/2" + "V 1/2") are one Field
//     of one octet. Per the TS 24.007 rule for type 1 IEs in the mandatory part,
//     the FIRST half-octet IE of the table occupies bits 4..1 and the SECOND
//     one bits 8..5. Field.Spec says which is which.
package nas

// Format of an information element (TS 24.007 clause 11.2.1.1).
type Format int

const (
	FmtV    Format = iota // value only, fixed length (mandatory part)
	FmtLV                 // 1-octet length + value
	FmtLVE                // 2-octet length + value
	FmtTV1                // half-octet TV: IEI in bits 8..5, value in bits 4..1
	FmtT                  // type only (one octet)
	FmtTV                 // IEI octet + fixed-length value
	FmtTLV                // IEI + 1-octet length + value
	FmtTLVE               // IEI + 2-octet length + value
)

func (f Format) String() string {
	switch f {
	case FmtV:
		return "V"
	case FmtLV:
		return "LV"
	case FmtLVE:
		return "LV-E"
	case FmtTV1:
		return "TV(1/2)"
	case FmtT:
		return "T"
	case FmtTV:
		return "TV"
	case FmtTLV:
		return "TLV"
	case FmtTLVE:
		return "TLV-E"
	}
	return "?"
}

// Field is one entry of the mandatory part AFTER the header octets.
type Field struct {
	Name     string // member name from the name list
	Spec     string // IE name(s) as in the TS table
	Fmt      Format // FmtV, FmtLV or FmtLVE
	Len      int    // FmtV: number of octets (RestOfMessage = the rest of the message); otherwise 0
	Min, Max int    // LV/LV-E: bounds of the VALUE length; Max 0 = "n"
	Unsure   bool
	Note     string
}

// RestOfMessage as Field.Len of a FmtV field: the field extends to the end of
// the message (only used for the plain message inside a security protected
// 5GS NAS message).
const RestOfMessage = -1

// OptIE is one entry of the optional part of a message table.
type OptIE struct {
	Name     string // member name from the list without '*'
	Spec     string // IE name in the TS table
	IEI      []byte // admissible IEIs, preferred (latest Rel-15) first; FmtTV1: the 4-bit value
	Fmt      Format
	Len      int // FmtTV: number of VALUE octets (total - 1); FmtTV1/FmtT: 0
	Min, Max int // TLV/TLV-E: bounds of the VALUE length; Max 0 = "n"
	Unsure   bool
	Note     string
}

// MsgDef is one message table.
type MsgDef struct {
	Name      string
	Clause    string
	EPD       byte // 0x7E 5GMM, 0x2E 5GSM
	MsgType   byte
	Mandatory []Field // after the 3 (5GMM) or 4 (5GSM) header octets
	Optional  []OptIE // in table order
	// SpecOnly lists optional IEs that (to my knowledge) later Release-15
	// versions of the TS table contain but the name list does not. They are
	// NOT accepted by Parse (which is keyed by the name list); they are here
	// so that a user of the oracle can recognise them. Their position in the
	// TS table is given in Note.
	SpecOnly []OptIE
	Note     string
}

const (
	EPD5GMM byte = 0x7E
	EPD5GSM byte = 0x2E
)

// N stands for the "n" of the TS length column.
const N = 0

// ---- constructors (arguments = TS table "Length" column, i.e. totals) ----

func v(name, spec string, n int) Field { return Field{Name: name, Spec: spec, Fmt: FmtV, Len: n} }

func lv(name, spec string, lo, hi int) Field {
	f := Field{Name: name, Spec: spec, Fmt: FmtLV, Min: lo - 1}
	if hi != N {
		f.Max = hi - 1
	}
	return f
}

func lve(name, spec string, lo, hi int) Field {
	f := Field{Name: name, Spec: spec, Fmt: FmtLVE, Min: lo - 2}
	if hi != N {
		f.Max = hi - 2
		if f.Max > 65535 {
			f.Max = 65535
		}
	}
	return f
}

func tv1(name, spec string, iei ...byte) OptIE {
	return OptIE{Name: name, Spec: spec, IEI: iei, Fmt: FmtTV1}
}

func tv(name, spec string, total int, iei ...byte) OptIE {
	return OptIE{Name: name, Spec: spec, IEI: iei, Fmt: FmtTV, Len: total - 1}
}

func tlv(name, spec string, lo, hi int, iei ...byte) OptIE {
	o := OptIE{Name: name, Spec: spec, IEI: iei, Fmt: FmtTLV, Min: lo - 2}
	if hi != N {
		o.Max = hi - 2
	}
	return o
}

func tlve(name, spec string, lo, hi int, iei ...byte) OptIE {
	o := OptIE{Name: name, Spec: spec, IEI: iei, Fmt: FmtTLVE, Min: lo - 3}
	if hi != N {
		o.Max = hi - 3
		if o.Max > 65535 {
			o.Max = 65535
		}
	}
	return o
}

func unsure(o OptIE, note string) OptIE { o.Unsure = true; o.Note = note; return o }
func noted(o OptIE, note string) OptIE  { o.Note = note; return o }
func fnoted(f Field, note string) Field { f.Note = note; return f }

// ---- IEs that recur with the same IEI/format in several messages ----

func eapTLVE() OptIE { return tlve("EAPMessage", "EAP message", 7, 1503, 0x78) }
func epco() OptIE {
	return tlve("ExtendedProtocolConfigurationOptions", "Extended protocol configuration options", 4, 65538, 0x7B)
}
func pduSessionStatus() OptIE { return tlv("PDUSessionStatus", "PDU session status", 4, 34, 0x50) }
func uplinkDataStatus() OptIE { return tlv("UplinkDataStatus", "Uplink data status", 4, 34, 0x40) }
func allowedPDUSessionStatus() OptIE {
	return tlv("AllowedPDUSessionStatus", "Allowed PDU session status", 4, 34, 0x25)
}
func reactivationResult() OptIE {
	return tlv("PDUSessionReactivationResult", "PDU session reactivation result", 4, 34, 0x26)
}
func reactivationResultErrorCause() OptIE {
	return tlve("PDUSessionReactivationResultErrorCause", "PDU session reactivation result error cause", 5, 515, 0x72)
}
func t3346() OptIE { return tlv("T3346Value", "T3346 value (GPRS timer 2)", 3, 3, 0x5F) }
func t3502() OptIE { return tlv("T3502Value", "T3502 value (GPRS timer 2)", 3, 3, 0x16) }
func backoff() OptIE {
	return tlv("BackoffTimerValue", "Back-off timer value (GPRS timer 3)", 3, 3, 0x37)
}
func cause5GMMTV() OptIE    { return tv("Cause5GMM", "5GMM cause", 2, 0x58) }
func cause5GSMTV() OptIE    { return tv("Cause5GSM", "5GSM cause", 2, 0x59) }
func micoIndication() OptIE { return tv1("MICOIndication", "MICO indication", 0xB) }
func networkSlicingIndication() OptIE {
	return tv1("NetworkSlicingIndication", "Network slicing indication", 0x9)
}
func nasMessageContainer() OptIE {
	return tlve("NASMessageContainer", "NAS message container", 4, N, 0x71)
}
func guti5G() OptIE { return tlve("GUTI5G", "5G-GUTI (5GS mobile identity)", 14, 14, 0x77) }
func taiList() OptIE {
	return tlv("TAIList", "TAI list (5GS tracking area identity list)", 9, 114, 0x54)
}
func allowedNSSAI() OptIE    { return tlv("AllowedNSSAI", "Allowed NSSAI", 4, 74, 0x15) }
func rejectedNSSAI() OptIE   { return tlv("RejectedNSSAI", "Rejected NSSAI", 4, 42, 0x11) }
func configuredNSSAI() OptIE { return tlv("ConfiguredNSSAI", "Configured NSSAI", 4, 146, 0x31) }
func serviceAreaList() OptIE { return tlv("ServiceAreaList", "Service area list", 6, 114, 0x27) }
func opDefAccessCat() OptIE {
	return tlve("OperatordefinedAccessCategoryDefinitions", "Operator-defined access category definitions", 3, N, 0x76)
}
func snssai() OptIE { return tlv("SNSSAI", "S-NSSAI", 3, 10, 0x22) }
func dnn() OptIE    { return tlv("DNN", "DNN", 3, 102, 0x25) }
func pduSessionID2() OptIE {
	return tv("PduSessionID2Value", "PDU session ID (PDU session identity 2)", 2, 0x12)
}
func additionalInformation() OptIE {
	return tlv("AdditionalInformation", "Additional information", 3, N, 0x24)
}

// "Mapped EPS bearer contexts": IEI 7F in the early Release-15 versions,
// changed to 75 in the later ones. Both admissible, 75 (latest) preferred.
func mappedEPSBearerContexts() OptIE {
	return noted(tlve("MappedEPSBearerContexts", "Mapped EPS bearer contexts", 7, 65538, 0x75, 0x7F),
		"IEI 7F in early Rel-15 versions, 75 in later ones")
}
func alwaysOnIndication() OptIE {
	return tv1("AlwaysonPDUSessionIndication", "Always-on PDU session indication", 0x8)
}
func alwaysOnRequested() OptIE {
	return tv1("AlwaysonPDUSessionRequested", "Always-on PDU session requested", 0xB)
}
func rqTimer() OptIE        { return tv("RQTimerValue", "RQ timer value (GPRS timer)", 2, 0x56) }
func capability5GSM() OptIE { return tlv("Capability5GSM", "5GSM capability", 3, 15, 0x28) }
func maxPacketFilters() OptIE {
	return tv("MaximumNumberOfSupportedPacketFilters", "Maximum number of supported packet filters", 3, 0x55)
}
func congestionReattempt() OptIE {
	return unsure(tlv("CongestionReattemptIndicator5GSM", "5GSM congestion re-attempt indicator", 3, 3, 0x61),
		"present in later Rel-15 versions of the TS table, absent from the name list; introducing version and exact position in the table not verified")
}

// ---- header-adjacent mandatory fields ----

func ngksiSpare() Field {
	return v("SpareHalfOctetAndNgksi", "ngKSI (bits 4-1) + Spare half octet (bits 8-5)", 1)
}
func cause5GMMV() Field { return v("Cause5GMM", "5GMM cause", 1) }
func cause5GSMV() Field { return v("Cause5GSM", "5GSM cause", 1) }
func payloadContainerType() Field {
	return v("SpareHalfOctetAndPayloadContainerType", "Payload container type (bits 4-1) + Spare half octet (bits 8-5)", 1)
}
func payloadContainerLVE() Field {
	return lve("PayloadContainer", "Payload container", 3, 65537)
}
func eapLVE() Field { return lve("EAPMessage", "EAP message", 6, 1502) }

// Messages holds all 45 message definitions of the name list.
var Messages = []MsgDef{
	// ------------------------------------------------------------------
	// 8.2 5GS mobility management messages
	// ------------------------------------------------------------------
	{
		Name: "AuthenticationRequest", Clause: "8.2.1", EPD: EPD5GMM, MsgType: 0x56,
		Mandatory: []Field{
			ngksiSpare(),
			lv("ABBA", "ABBA", 3, N),
		},
		Optional: []OptIE{
			tv("AuthenticationParameterRAND", "Authentication parameter RAND (5G authentication challenge)", 17, 0x21),
			tlv("AuthenticationParameterAUTN", "Authentication parameter AUTN (5G authentication challenge)", 18, 18, 0x20),
			eapTLVE(),
		},
	},
	{
		Name: "AuthenticationResponse", Clause: "8.2.2", EPD: EPD5GMM, MsgType: 0x57,
		Optional: []OptIE{
			noted(tlv("AuthenticationResponseParameter", "Authentication response parameter", 18, 18, 0x2D),
				"RES* is 16 octets: TLV 18 in the 5GS table (the EPS-style 6-18 range does not apply)"),
			eapTLVE(),
		},
	},
	{
		Name: "AuthenticationResult", Clause: "8.2.3", EPD: EPD5GMM, MsgType: 0x5A,
		Mandatory: []Field{
			ngksiSpare(),
			eapLVE(),
		},
		Optional: []OptIE{
			tlv("ABBA", "ABBA", 4, N, 0x38),
		},
	},
	{
		Name: "AuthenticationFailure", Clause: "8.2.4", EPD: EPD5GMM, MsgType: 0x59,
		Mandatory: []Field{cause5GMMV()},
		Optional: []OptIE{
			tlv("AuthenticationFailureParameter", "Authentication failure parameter", 16, 16, 0x30),
		},
	},
	{
		Name: "AuthenticationReject", Clause: "8.2.5", EPD: EPD5GMM, MsgType: 0x58,
		Optional: []OptIE{eapTLVE()},
	},
	{
		Name: "RegistrationRequest", Clause: "8.2.6", EPD: EPD5GMM, MsgType: 0x41,
		Mandatory: []Field{
			v("NgksiAndRegistrationType5GS", "5GS registration type (bits 4-1) + ngKSI (bits 8-5)", 1),
			lve("MobileIdentity5GS", "5GS mobile identity", 6, N),
		},
		Optional: []OptIE{
			tv1("NoncurrentNativeNASKeySetIdentifier", "Non-current native NAS key set identifier", 0xC),
			tlv("Capability5GMM", "5GMM capability", 3, 15, 0x10),
			tlv("UESecurityCapability", "UE security capability", 4, 10, 0x2E),
			tlv("RequestedNSSAI", "Requested NSSAI", 4, 74, 0x2F),
			tv("LastVisitedRegisteredTAI", "Last visited registered TAI (5GS tracking area identity)", 7, 0x52),
			tlv("S1UENetworkCapability", "S1 UE network capability", 4, 15, 0x17),
			uplinkDataStatus(),
			pduSessionStatus(),
			micoIndication(),
			tlv("UEStatus", "UE status", 3, 3, 0x2B),
			tlve("AdditionalGUTI", "Additional GUTI (5GS mobile identity)", 14, 14, 0x77),
			allowedPDUSessionStatus(),
			tlv("UesUsageSetting", "UE's usage setting", 3, 3, 0x18),
			tlv("RequestedDRXParameters", "Requested DRX parameters (5GS DRX parameters)", 3, 3, 0x51),
			tlve("EPSNASMessageContainer", "EPS NAS message container", 4, N, 0x70),
			tlve("LADNIndication", "LADN indication", 3, 811, 0x74),
			tlve("PayloadContainer", "Payload container", 4, 65538, 0x7B),
			networkSlicingIndication(),
			tlv("UpdateType5GS", "5GS update type", 3, 3, 0x53),
			nasMessageContainer(),
		},
		SpecOnly: []OptIE{
			unsure(tv1("PayloadContainerType", "Payload container type", 0x8),
				"later Rel-15 TS table has '8- Payload container type' right before '7B Payload container'; absent from the name list; introducing version not verified"),
			unsure(tlv("EPSBearerContextStatus", "EPS bearer context status", 4, 4, 0x60),
				"later Rel-15 TS table ends with '60 EPS bearer context status' (after NAS message container); absent from the name list"),
		},
	},
	{
		Name: "RegistrationAccept", Clause: "8.2.7", EPD: EPD5GMM, MsgType: 0x42,
		Mandatory: []Field{
			lv("RegistrationResult5GS", "5GS registration result", 2, 2),
		},
		Optional: []OptIE{
			guti5G(),
			tlv("EquivalentPlmns", "Equivalent PLMNs (PLMN list)", 5, 47, 0x4A),
			taiList(),
			allowedNSSAI(),
			rejectedNSSAI(),
			configuredNSSAI(),
			tlv("NetworkFeatureSupport5GS", "5GS network feature support", 3, 5, 0x21),
			pduSessionStatus(),
			reactivationResult(),
			reactivationResultErrorCause(),
			unsure(tlve("LADNInformation", "LADN information", 12, 1715, 0x79),
				"REGISTRATION ACCEPT: TLV-E 12-1715 (at least one LADN); the CONFIGURATION UPDATE COMMAND table has 3-1715. Lower bound in the earliest Rel-15 versions not verified"),
			micoIndication(),
			networkSlicingIndication(),
			serviceAreaList(),
			tlv("T3512Value", "T3512 value (GPRS timer 3)", 3, 3, 0x5E),
			tlv("Non3GppDeregistrationTimerValue", "Non-3GPP de-registration timer value (GPRS timer 2)", 3, 3, 0x5D),
			t3502(),
			tlv("EmergencyNumberList", "Emergency number list", 5, 50, 0x34),
			tlve("ExtendedEmergencyNumberList", "Extended emergency number list", 7, 65538, 0x7A),
			noted(tlve("SORTransparentContainer", "SOR transparent container", 20, N, 0x73),
				"TLV-E 20-n: header octet + MAC-IAUSF(16) + counter SOR(2) [+ list / secured packet]"),
			eapTLVE(),
			tv1("NSSAIInclusionMode", "NSSAI inclusion mode", 0xA),
			opDefAccessCat(),
			tlv("NegotiatedDRXParameters", "Negotiated DRX parameters (5GS DRX parameters)", 3, 3, 0x51),
		},
		SpecOnly: []OptIE{
			unsure(tv1("Non3GppNwProvidedPolicies", "Non-3GPP NW policies", 0xD),
				"later Rel-15 TS table: 'D- Non-3GPP NW policies' after Negotiated DRX parameters; absent from the name list"),
			unsure(tlv("EPSBearerContextStatus", "EPS bearer context status", 4, 4, 0x60),
				"later Rel-15 TS table: '60 EPS bearer context status' at the end; absent from the name list"),
		},
	},
	{
		Name: "RegistrationComplete", Clause: "8.2.8", EPD: EPD5GMM, MsgType: 0x43,
		Optional: []OptIE{
			noted(tlve("SORTransparentContainer", "SOR transparent container", 20, 20, 0x73),
				"UE acknowledgement: header octet + MAC-IUE(16) = 17 value octets, TLV-E 20"),
		},
	},
	{
		Name: "RegistrationReject", Clause: "8.2.9", EPD: EPD5GMM, MsgType: 0x44,
		Mandatory: []Field{cause5GMMV()},
		Optional:  []OptIE{t3346(), t3502(), eapTLVE()},
	},
	{
		Name: "ULNASTransport", Clause: "8.2.10", EPD: EPD5GMM, MsgType: 0x67,
		Mandatory: []Field{payloadContainerType(), payloadContainerLVE()},
		Optional: []OptIE{
			pduSessionID2(),
			tv("OldPDUSessionID", "Old PDU session ID (PDU session identity 2)", 2, 0x59),
			tv1("RequestType", "Request type", 0x8),
			snssai(),
			dnn(),
			additionalInformation(),
		},
	},
	{
		Name: "DLNASTransport", Clause: "8.2.11", EPD: EPD5GMM, MsgType: 0x68,
		Mandatory: []Field{payloadContainerType(), payloadContainerLVE()},
		Optional: []OptIE{
			pduSessionID2(),
			additionalInformation(),
			cause5GMMTV(),
			backoff(),
		},
	},
	{
		Name: "DeregistrationRequestUEOriginatingDeregistration", Clause: "8.2.12", EPD: EPD5GMM, MsgType: 0x45,
		Mandatory: []Field{
			v("NgksiAndDeregistrationType", "De-registration type (bits 4-1) + ngKSI (bits 8-5)", 1),
			lve("MobileIdentity5GS", "5GS mobile identity", 6, N),
		},
	},
	{
		Name: "DeregistrationAcceptUEOriginatingDeregistration", Clause: "8.2.13", EPD: EPD5GMM, MsgType: 0x46,
	},
	{
		Name: "DeregistrationRequestUETerminatedDeregistration", Clause: "8.2.14", EPD: EPD5GMM, MsgType: 0x47,
		Mandatory: []Field{
			v("SpareHalfOctetAndDeregistrationType", "De-registration type (bits 4-1) + Spare half octet (bits 8-5)", 1),
		},
		Optional: []OptIE{cause5GMMTV(), t3346()},
	},
	{
		Name: "DeregistrationAcceptUETerminatedDeregistration", Clause: "8.2.15", EPD: EPD5GMM, MsgType: 0x48,
	},
	{
		Name: "ServiceRequest", Clause: "8.2.16", EPD: EPD5GMM, MsgType: 0x4C,
		Mandatory: []Field{
			v("ServiceTypeAndNgksi", "ngKSI (bits 4-1) + Service type (bits 8-5)", 1),
			fnoted(lve("TMSI5GS", "5G-S-TMSI (5GS mobile identity)", 9, 9),
				"LV-E 9: 2 length octets + 7 value octets (type octet F4, AMF set/pointer 2, 5G-TMSI 4)"),
		},
		Optional: []OptIE{
			uplinkDataStatus(),
			pduSessionStatus(),
			allowedPDUSessionStatus(),
			nasMessageContainer(),
		},
	},
	{
		Name: "ServiceAccept", Clause: "8.2.17", EPD: EPD5GMM, MsgType: 0x4E,
		Optional: []OptIE{
			pduSessionStatus(),
			reactivationResult(),
			reactivationResultErrorCause(),
			eapTLVE(),
		},
	},
	{
		Name: "ServiceReject", Clause: "8.2.18", EPD: EPD5GMM, MsgType: 0x4D,
		Mandatory: []Field{cause5GMMV()},
		Optional:  []OptIE{pduSessionStatus(), t3346(), eapTLVE()},
	},
	{
		Name: "ConfigurationUpdateCommand", Clause: "8.2.19", EPD: EPD5GMM, MsgType: 0x54,
		Optional: []OptIE{
			tv1("ConfigurationUpdateIndication", "Configuration update indication", 0xD),
			guti5G(),
			taiList(),
			allowedNSSAI(),
			serviceAreaList(),
			tlv("FullNameForNetwork", "Full name for network (Network name)", 3, N, 0x43),
			tlv("ShortNameForNetwork", "Short name for network (Network name)", 3, N, 0x45),
			tv("LocalTimeZone", "Local time zone (Time zone)", 2, 0x46),
			tv("UniversalTimeAndLocalTimeZone", "Universal time and local time zone (Time zone and time)", 8, 0x47),
			tlv("NetworkDaylightSavingTime", "Network daylight saving time (Daylight saving time)", 3, 3, 0x49),
			noted(tlve("LADNInformation", "LADN information", 3, 1715, 0x79),
				"3-1715 here (an empty LADN information deletes the stored one); 12-1715 in REGISTRATION ACCEPT"),
			micoIndication(),
			networkSlicingIndication(),
			configuredNSSAI(),
			rejectedNSSAI(),
			opDefAccessCat(),
			tv1("SMSIndication", "SMS indication", 0xF),
		},
	},
	{
		Name: "ConfigurationUpdateComplete", Clause: "8.2.20", EPD: EPD5GMM, MsgType: 0x55,
	},
	{
		Name: "IdentityRequest", Clause: "8.2.21", EPD: EPD5GMM, MsgType: 0x5B,
		Mandatory: []Field{
			v("SpareHalfOctetAndIdentityType", "Identity type (5GS identity type, bits 4-1) + Spare half octet (bits 8-5)", 1),
		},
	},
	{
		Name: "IdentityResponse", Clause: "8.2.22", EPD: EPD5GMM, MsgType: 0x5C,
		Mandatory: []Field{
			lve("MobileIdentity", "Mobile identity (5GS mobile identity)", 3, N),
		},
	},
	{
		Name: "Notification", Clause: "8.2.23", EPD: EPD5GMM, MsgType: 0x65,
		Mandatory: []Field{
			v("SpareHalfOctetAndAccessType", "Access type (bits 4-1) + Spare half octet (bits 8-5)", 1),
		},
	},
	{
		Name: "NotificationResponse", Clause: "8.2.24", EPD: EPD5GMM, MsgType: 0x66,
		Optional: []OptIE{pduSessionStatus()},
	},
	{
		Name: "SecurityModeCommand", Clause: "8.2.25", EPD: EPD5GMM, MsgType: 0x5D,
		Mandatory: []Field{
			v("SelectedNASSecurityAlgorithms", "Selected NAS security algorithms (NAS security algorithms)", 1),
			ngksiSpare(),
			lv("ReplayedUESecurityCapabilities", "Replayed UE security capabilities (UE security capability)", 3, 9),
		},
		Optional: []OptIE{
			tv1("IMEISVRequest", "IMEISV request", 0xE),
			tv("SelectedEPSNASSecurityAlgorithms", "Selected EPS NAS security algorithms", 2, 0x57),
			tlv("Additional5GSecurityInformation", "Additional 5G security information", 3, 3, 0x36),
			eapTLVE(),
			tlv("ABBA", "ABBA", 4, N, 0x38),
			tlv("ReplayedS1UESecurityCapabilities", "Replayed S1 UE security capabilities (S1 UE security capability)", 4, 7, 0x19),
		},
	},
	{
		Name: "SecurityModeComplete", Clause: "8.2.26", EPD: EPD5GMM, MsgType: 0x5E,
		Optional: []OptIE{
			tlve("IMEISV", "IMEISV (5GS mobile identity)", 12, 12, 0x77),
			nasMessageContainer(),
		},
	},
	{
		Name: "SecurityModeReject", Clause: "8.2.27", EPD: EPD5GMM, MsgType: 0x5F,
		Mandatory: []Field{cause5GMMV()},
	},
	{
		// No message type: the octets after the security header type are the
		// MAC (4), the sequence number (1) and a plain 5GS NAS message. It is
		// recognised by a non-zero security header type (bits 4-1 of octet 2),
		// and is represented here with MsgType 0.
		Name: "SecurityProtected5GSNASMessage", Clause: "8.2.28", EPD: EPD5GMM, MsgType: 0x00,
		Mandatory: []Field{
			v("MessageAuthenticationCode", "Message authentication code", 4),
			v("SequenceNumber", "Sequence number", 1),
			v("Plain5GSNASMessage", "Plain 5GS NAS message", RestOfMessage),
		},
		Note: "header is EPD + security header type only (2 octets), no message type octet",
	},
	{
		Name: "Status5GMM", Clause: "8.2.29", EPD: EPD5GMM, MsgType: 0x64,
		Mandatory: []Field{cause5GMMV()},
	},

	// ------------------------------------------------------------------
	// 8.3 5GS session management messages
	// ------------------------------------------------------------------
	{
		Name: "PDUSessionEstablishmentRequest", Clause: "8.3.1", EPD: EPD5GSM, MsgType: 0xC1,
		Mandatory: []Field{
			v("IntegrityProtectionMaximumDataRate", "Integrity protection maximum data rate", 2),
		},
		Optional: []OptIE{
			tv1("PDUSessionType", "PDU session type", 0x9),
			tv1("SSCMode", "SSC mode", 0xA),
			capability5GSM(),
			maxPacketFilters(),
			alwaysOnRequested(),
			tlv("SMPDUDNRequestContainer", "SM PDU DN request container", 3, 255, 0x39),
			epco(),
		},
	},
	{
		Name: "PDUSessionEstablishmentAccept", Clause: "8.3.2", EPD: EPD5GSM, MsgType: 0xC2,
		Mandatory: []Field{
			v("SelectedSSCModeAndSelectedPDUSessionType", "Selected PDU session type (bits 4-1) + Selected SSC mode (bits 8-5)", 1),
			fnoted(lve("AuthorizedQosRules", "Authorized QoS rules (QoS rules)", 6, 65538),
				"TS table says LV-E 6-65538; value maximum capped to 65535 (two-octet length)"),
			lv("SessionAMBR", "Session AMBR", 7, 7),
		},
		Optional: []OptIE{
			cause5GSMTV(),
			noted(tlv("PDUAddress", "PDU address", 7, 15, 0x29),
				"TS: TLV 7, 11 or 15 (IPv4 / IPv6 IID / IPv4v6); the table here admits the whole 7-15 range"),
			rqTimer(),
			snssai(),
			alwaysOnIndication(),
			mappedEPSBearerContexts(),
			eapTLVE(),
			tlve("AuthorizedQosFlowDescriptions", "Authorized QoS flow descriptions (QoS flow descriptions)", 6, 65538, 0x79),
			epco(),
			dnn(),
		},
	},
	{
		Name: "PDUSessionEstablishmentReject", Clause: "8.3.3", EPD: EPD5GSM, MsgType: 0xC3,
		Mandatory: []Field{cause5GSMV()},
		Optional: []OptIE{
			backoff(),
			tv1("AllowedSSCMode", "Allowed SSC mode", 0xF),
			eapTLVE(),
			epco(),
		},
		SpecOnly: []OptIE{congestionReattempt()},
	},
	{
		Name: "PDUSessionAuthenticationCommand", Clause: "8.3.4", EPD: EPD5GSM, MsgType: 0xC5,
		Mandatory: []Field{eapLVE()},
		Optional:  []OptIE{epco()},
	},
	{
		Name: "PDUSessionAuthenticationComplete", Clause: "8.3.5", EPD: EPD5GSM, MsgType: 0xC6,
		Mandatory: []Field{eapLVE()},
		Optional:  []OptIE{epco()},
	},
	{
		Name: "PDUSessionAuthenticationResult", Clause: "8.3.6", EPD: EPD5GSM, MsgType: 0xC7,
		Optional: []OptIE{eapTLVE(), epco()},
	},
	{
		Name: "PDUSessionModificationRequest", Clause: "8.3.7", EPD: EPD5GSM, MsgType: 0xC9,
		Optional: []OptIE{
			capability5GSM(),
			cause5GSMTV(),
			maxPacketFilters(),
			alwaysOnRequested(),
			tv("IntegrityProtectionMaximumDataRate", "Integrity protection maximum data rate", 3, 0x13),
			tlve("RequestedQosRules", "Requested QoS rules (QoS rules)", 7, 65538, 0x7A),
			tlve("RequestedQosFlowDescriptions", "Requested QoS flow descriptions (QoS flow descriptions)", 6, 65538, 0x79),
			mappedEPSBearerContexts(),
			epco(),
		},
	},
	{
		Name: "PDUSessionModificationReject", Clause: "8.3.8", EPD: EPD5GSM, MsgType: 0xCA,
		Mandatory: []Field{cause5GSMV()},
		Optional:  []OptIE{backoff(), epco()},
		SpecOnly:  []OptIE{congestionReattempt()},
	},
	{
		Name: "PDUSessionModificationCommand", Clause: "8.3.9", EPD: EPD5GSM, MsgType: 0xCB,
		Optional: []OptIE{
			cause5GSMTV(),
			tlv("SessionAMBR", "Session AMBR", 8, 8, 0x2A),
			rqTimer(),
			alwaysOnIndication(),
			tlve("AuthorizedQosRules", "Authorized QoS rules (QoS rules)", 7, 65538, 0x7A),
			mappedEPSBearerContexts(),
			tlve("AuthorizedQosFlowDescriptions", "Authorized QoS flow descriptions (QoS flow descriptions)", 6, 65538, 0x79),
			epco(),
		},
	},
	{
		Name: "PDUSessionModificationComplete", Clause: "8.3.10", EPD: EPD5GSM, MsgType: 0xCC,
		Optional: []OptIE{epco()},
	},
	{
		Name: "PDUSessionModificationCommandReject", Clause: "8.3.11", EPD: EPD5GSM, MsgType: 0xCD,
		Mandatory: []Field{cause5GSMV()},
		Optional:  []OptIE{epco()},
	},
	{
		Name: "PDUSessionReleaseRequest", Clause: "8.3.12", EPD: EPD5GSM, MsgType: 0xD1,
		Optional: []OptIE{cause5GSMTV(), epco()},
	},
	{
		Name: "PDUSessionReleaseReject", Clause: "8.3.13", EPD: EPD5GSM, MsgType: 0xD2,
		Mandatory: []Field{cause5GSMV()},
		Optional:  []OptIE{epco()},
	},
	{
		Name: "PDUSessionReleaseCommand", Clause: "8.3.14", EPD: EPD5GSM, MsgType: 0xD3,
		Mandatory: []Field{cause5GSMV()},
		Optional:  []OptIE{backoff(), eapTLVE(), epco()},
		SpecOnly:  []OptIE{congestionReattempt()},
	},
	{
		Name: "PDUSessionReleaseComplete", Clause: "8.3.15", EPD: EPD5GSM, MsgType: 0xD4,
		Optional: []OptIE{cause5GSMTV(), epco()},
	},
	{
		Name: "Status5GSM", Clause: "8.3.16", EPD: EPD5GSM, MsgType: 0xD6,
		Mandatory: []Field{cause5GSMV()},
	},
}

var (
	byType = map[uint16]*MsgDef{}
	byName = map[string]*MsgDef{}
)

func init() {
	for i := range Messages {
		m := &Messages[i]
		byType[uint16(m.EPD)<<8|uint16(m.MsgType)] = m
		byName[m.Name] = m
	}
}

// Lookup returns the definition for an EPD / message type pair, or nil.
// Lookup(0x7E, 0) returns the security protected 5GS NAS message.
func Lookup(epd, msgType byte) *MsgDef { return byType[uint16(epd)<<8|uint16(msgType)] }

// LookupName returns the definition with the given name of the name list.
func LookupName(name string) *MsgDef { return byName[name] }

// FindOpt returns the optional-IE entry of the message that owns the IEI.
// Half-octet IEIs are 0x8..0xF, full-octet IEIs are 0x10..0x7F, so the two
// spaces cannot be confused.
func (m *MsgDef) FindOpt(iei byte) *OptIE {
	for i := range m.Optional {
		o := &m.Optional[i]
		for _, x := range o.IEI {
			if x == iei && (o.Fmt == FmtTV1) == (iei < 0x10) {
				return o
			}
		}
	}
	return nil
}

// OptByName returns the optional-IE entry with the given member name.
func (m *MsgDef) OptByName(name string) *OptIE {
	for i := range m.Optional {
		if m.Optional[i].Name == name {
			return &m.Optional[i]
		}
	}
	return nil
}

// NumOptionalPairs returns the number of (message, optional IE) pairs.
func NumOptionalPairs() int {
	n := 0
	for i := range Messages {
		n += len(Messages[i].Optional)
	}
	return n
}
