package nas

import (
	"bytes"
	"encoding/hex"
	"fmt"
	"math/rand"
	"strings"
)

// SelfTest checks the tables and the codec against themselves:
//  1. table sanity (names and member order vs. the name list, IEI spaces,
//     no duplicate IEI within a message, unique message types per EPD);
//  2. Encode -> Parse -> Encode round trips for every message with every
//     optional IE alone and all together, at min and max (<= 300) lengths,
//     with every admissible IEI, in table order and in reverse order, plus
//     negative cases (unknown IEI, duplicate, truncation, bad lengths);
//  3. hand-checked real messages.
func SelfTest() error {
	if err := tableSanity(); err != nil {
		return fmt.Errorf("table sanity: %w", err)
	}
	if err := roundTrips(); err != nil {
		return fmt.Errorf("round trip: %w", err)
	}
	if err := negatives(); err != nil {
		return fmt.Errorf("negative cases: %w", err)
	}
	if err := knownMessages(); err != nil {
		return fmt.Errorf("known messages: %w", err)
	}
	return nil
}

// ---------------------------------------------------------------- (1)

type listEntry struct {
	name     string
	header   []string
	mand     []string
	optional []string
}

func parseNameList() ([]listEntry, error) {
	var out []listEntry
	for _, line := range strings.Split(strings.TrimSpace(nameList), "\n") {
		i := strings.Index(line, ":")
		if i < 0 {
			return nil, fmt.Errorf("name list: bad line %q", line)
		}
		e := listEntry{name: line[:i]}
		members := strings.Fields(line[i+1:])
		nh := 3
		switch {
		case e.name == "SecurityProtected5GSNASMessage":
			nh = 2
		case len(members) > 1 && members[1] == "PDUSessionID":
			nh = 4
		}
		if len(members) < nh {
			return nil, fmt.Errorf("name list: %s has %d members", e.name, len(members))
		}
		e.header = members[:nh]
		for _, m := range members[nh:] {
			if strings.HasPrefix(m, "*") {
				e.optional = append(e.optional, m[1:])
			} else {
				if len(e.optional) > 0 {
					return nil, fmt.Errorf("name list: %s: mandatory %s after optional", e.name, m)
				}
				e.mand = append(e.mand, m)
			}
		}
		out = append(out, e)
	}
	return out, nil
}

func tableSanity() error {
	list, err := parseNameList()
	if err != nil {
		return err
	}
	if len(list) != 45 {
		return fmt.Errorf("name list has %d messages, want 45", len(list))
	}
	if len(Messages) != 45 {
		return fmt.Errorf("table has %d messages, want 45", len(Messages))
	}
	for _, e := range list {
		m := LookupName(e.name)
		if m == nil {
			return fmt.Errorf("%s: missing from the table", e.name)
		}
		wantEPD := EPD5GMM
		if len(e.header) == 4 {
			wantEPD = EPD5GSM
		}
		if m.EPD != wantEPD {
			return fmt.Errorf("%s: EPD %#02x, header of the list implies %#02x", e.name, m.EPD, wantEPD)
		}
		if len(m.Mandatory) != len(e.mand) {
			return fmt.Errorf("%s: %d mandatory fields, list has %d", e.name, len(m.Mandatory), len(e.mand))
		}
		for i, n := range e.mand {
			if m.Mandatory[i].Name != n {
				return fmt.Errorf("%s: mandatory #%d is %s, list has %s", e.name, i, m.Mandatory[i].Name, n)
			}
		}
		if len(m.Optional) != len(e.optional) {
			return fmt.Errorf("%s: %d optional IEs, list has %d", e.name, len(m.Optional), len(e.optional))
		}
		for i, n := range e.optional {
			if m.Optional[i].Name != n {
				return fmt.Errorf("%s: optional #%d is %s, list has %s", e.name, i, m.Optional[i].Name, n)
			}
		}
	}

	types := map[uint16]string{}
	names := map[string]bool{}
	for i := range Messages {
		m := &Messages[i]
		if names[m.Name] {
			return fmt.Errorf("%s: duplicate name", m.Name)
		}
		names[m.Name] = true
		if m.EPD != EPD5GMM && m.EPD != EPD5GSM {
			return fmt.Errorf("%s: EPD %#02x", m.Name, m.EPD)
		}
		k := uint16(m.EPD)<<8 | uint16(m.MsgType)
		if other, dup := types[k]; dup {
			return fmt.Errorf("%s: message type %#02x also used by %s", m.Name, m.MsgType, other)
		}
		types[k] = m.Name
		if Lookup(m.EPD, m.MsgType) != m || LookupName(m.Name) != m {
			return fmt.Errorf("%s: lookup does not return the entry", m.Name)
		}
		// message type ranges of TS 24.501 table 9.7.1/9.7.2: 01xxxxxx 5GMM, 11xxxxxx 5GSM
		switch {
		case m.MsgType == 0 && m.Name == "SecurityProtected5GSNASMessage":
		case m.EPD == EPD5GMM && m.MsgType&0xC0 != 0x40:
			return fmt.Errorf("%s: 5GMM message type %#02x not 01xxxxxx", m.Name, m.MsgType)
		case m.EPD == EPD5GSM && m.MsgType&0xC0 != 0xC0:
			return fmt.Errorf("%s: 5GSM message type %#02x not 11xxxxxx", m.Name, m.MsgType)
		}
		if m.Clause == "" {
			return fmt.Errorf("%s: no clause", m.Name)
		}
		fnames := map[string]bool{}
		for j := range m.Mandatory {
			f := &m.Mandatory[j]
			if fnames[f.Name] {
				return fmt.Errorf("%s.%s: duplicate member name", m.Name, f.Name)
			}
			fnames[f.Name] = true
			switch f.Fmt {
			case FmtV:
				if f.Len <= 0 && !(f.Len == RestOfMessage && j == len(m.Mandatory)-1) {
					return fmt.Errorf("%s.%s: V with Len %d", m.Name, f.Name, f.Len)
				}
			case FmtLV, FmtLVE:
				lo, hi := f.Bounds()
				if f.Len != 0 || lo < 0 || lo > hi {
					return fmt.Errorf("%s.%s: bad bounds [%d,%d] Len %d", m.Name, f.Name, f.Min, f.Max, f.Len)
				}
			default:
				return fmt.Errorf("%s.%s: format %v in mandatory part", m.Name, f.Name, f.Fmt)
			}
		}
		ieis := map[byte]string{}
		all := append(append([]OptIE{}, m.Optional...), m.SpecOnly...)
		for j := range all {
			o := &all[j]
			if fnames[o.Name] {
				return fmt.Errorf("%s.%s: duplicate member name", m.Name, o.Name)
			}
			fnames[o.Name] = true
			if len(o.IEI) == 0 {
				return fmt.Errorf("%s.%s: no IEI", m.Name, o.Name)
			}
			for _, x := range o.IEI {
				if o.Fmt == FmtTV1 {
					if x < 0x8 || x > 0xF {
						return fmt.Errorf("%s.%s: half-octet IEI %#x outside 8..F", m.Name, o.Name, x)
					}
				} else if x < 0x10 || x > 0x7F {
					return fmt.Errorf("%s.%s: IEI %#02x outside 10..7F", m.Name, o.Name, x)
				}
				if other, dup := ieis[x]; dup {
					return fmt.Errorf("%s: IEI %#02x used by %s and %s", m.Name, x, other, o.Name)
				}
				ieis[x] = o.Name
			}
			lo, hi := o.Bounds()
			switch o.Fmt {
			case FmtTV1, FmtT:
				if o.Len != 0 || o.Min != 0 || o.Max != 0 {
					return fmt.Errorf("%s.%s: lengths on %v", m.Name, o.Name, o.Fmt)
				}
			case FmtTV:
				if o.Len <= 0 || o.Min != 0 || o.Max != 0 {
					return fmt.Errorf("%s.%s: TV lengths", m.Name, o.Name)
				}
			case FmtTLV, FmtTLVE:
				if o.Len != 0 || lo < 0 || lo > hi {
					return fmt.Errorf("%s.%s: bad bounds [%d,%d]", m.Name, o.Name, o.Min, o.Max)
				}
			default:
				return fmt.Errorf("%s.%s: format %v in optional part", m.Name, o.Name, o.Fmt)
			}
		}
		for j := range m.Optional {
			o := &m.Optional[j]
			for _, x := range o.IEI {
				if m.FindOpt(x) != o {
					return fmt.Errorf("%s.%s: FindOpt(%#02x) does not return the entry", m.Name, o.Name, x)
				}
			}
			if m.OptByName(o.Name) != o {
				return fmt.Errorf("%s.%s: OptByName does not return the entry", m.Name, o.Name)
			}
		}
	}
	return nil
}

// ---------------------------------------------------------------- (2)

const maxGen = 300

func randBytes(r *rand.Rand, n int) []byte {
	b := make([]byte, n)
	for i := range b {
		b[i] = byte(r.Intn(256))
	}
	return b
}

func genMand(r *rand.Rand, m *MsgDef, useMax bool) [][]byte {
	var out [][]byte
	for i := range m.Mandatory {
		f := &m.Mandatory[i]
		n := f.Len
		if f.Fmt != FmtV {
			lo, hi := f.Bounds()
			n = lo
			if useMax {
				n = hi
				if n > maxGen {
					n = maxGen
				}
			}
		} else if n == RestOfMessage {
			n = 3
			if useMax {
				n = maxGen
			}
		}
		out = append(out, randBytes(r, n))
	}
	return out
}

func genOpt(r *rand.Rand, o *OptIE, iei byte, useMax bool) IEVal {
	switch o.Fmt {
	case FmtTV1:
		return IEVal{IEI: iei, Val: []byte{byte(r.Intn(16))}}
	case FmtT:
		return IEVal{IEI: iei, Val: []byte{}}
	}
	lo, hi := o.Bounds()
	n := lo
	if useMax {
		n = hi
		if n > maxGen {
			n = maxGen
		}
	}
	return IEVal{IEI: iei, Val: randBytes(r, n)}
}

func equalParsed(a, b *Parsed) error {
	if a.Def != b.Def {
		return fmt.Errorf("Def differs")
	}
	if a.SHT != b.SHT || a.PSI != b.PSI || a.PTI != b.PTI {
		return fmt.Errorf("header differs: %x/%x/%x vs %x/%x/%x", a.SHT, a.PSI, a.PTI, b.SHT, b.PSI, b.PTI)
	}
	if len(a.Mand) != len(b.Mand) {
		return fmt.Errorf("%d vs %d mandatory values", len(a.Mand), len(b.Mand))
	}
	for i := range a.Mand {
		if !bytes.Equal(a.Mand[i], b.Mand[i]) {
			return fmt.Errorf("mandatory #%d differs", i)
		}
	}
	if len(a.Opt) != len(b.Opt) {
		return fmt.Errorf("%d vs %d optional IEs", len(a.Opt), len(b.Opt))
	}
	for i := range a.Opt {
		if a.Opt[i].IEI != b.Opt[i].IEI || !bytes.Equal(a.Opt[i].Val, b.Opt[i].Val) {
			return fmt.Errorf("optional #%d differs (IEI %#02x vs %#02x)", i, a.Opt[i].IEI, b.Opt[i].IEI)
		}
	}
	return nil
}

func roundTrip(p *Parsed, what string) error {
	b, err := Encode(p)
	if err != nil {
		return fmt.Errorf("%s %s: %w", p.Def.Name, what, err)
	}
	q, err := Parse(b)
	if err != nil {
		return fmt.Errorf("%s %s: %w (%x)", p.Def.Name, what, err, b)
	}
	if err := equalParsed(p, q); err != nil {
		return fmt.Errorf("%s %s: %w", p.Def.Name, what, err)
	}
	b2, err := Encode(q)
	if err != nil {
		return fmt.Errorf("%s %s: re-encode: %w", p.Def.Name, what, err)
	}
	if !bytes.Equal(b, b2) {
		return fmt.Errorf("%s %s: re-encoding differs", p.Def.Name, what)
	}
	if err := Validate(p); err != nil {
		return fmt.Errorf("%s %s: Validate: %w", p.Def.Name, what, err)
	}
	// expected length from the table
	want := 3
	if p.Def.EPD == EPD5GSM {
		want = 4
	} else if p.Def.MsgType == 0 {
		want = 2
	}
	for i := range p.Def.Mandatory {
		want += len(p.Mand[i])
		switch p.Def.Mandatory[i].Fmt {
		case FmtLV:
			want++
		case FmtLVE:
			want += 2
		}
	}
	for _, ie := range p.Opt {
		switch p.Def.FindOpt(ie.IEI).Fmt {
		case FmtTV1, FmtT:
			want++
		case FmtTV:
			want += 1 + len(ie.Val)
		case FmtTLV:
			want += 2 + len(ie.Val)
		case FmtTLVE:
			want += 3 + len(ie.Val)
		}
	}
	if len(b) != want {
		return fmt.Errorf("%s %s: %d octets, table says %d", p.Def.Name, what, len(b), want)
	}
	return nil
}

func newParsed(r *rand.Rand, m *MsgDef, useMax bool) *Parsed {
	p := &Parsed{Def: m, Mand: genMand(r, m, useMax)}
	switch {
	case m.EPD == EPD5GSM:
		p.PSI, p.PTI = byte(1+r.Intn(15)), byte(r.Intn(255))
	case m.MsgType == 0:
		p.SHT = byte(1 + r.Intn(4))
	}
	return p
}

func roundTrips() error {
	r := rand.New(rand.NewSource(24501))
	for i := range Messages {
		m := &Messages[i]
		for _, useMax := range []bool{false, true} {
			tag := "min"
			if useMax {
				tag = "max"
			}
			// mandatory part only
			if err := roundTrip(newParsed(r, m, useMax), tag+"/mandatory only"); err != nil {
				return err
			}
			// each optional IE alone, with each admissible IEI
			for j := range m.Optional {
				o := &m.Optional[j]
				for _, iei := range o.IEI {
					p := newParsed(r, m, useMax)
					p.Opt = []IEVal{genOpt(r, o, iei, useMax)}
					if err := roundTrip(p, fmt.Sprintf("%s/%s alone (IEI %#02x)", tag, o.Name, iei)); err != nil {
						return err
					}
				}
			}
			if len(m.Optional) == 0 {
				continue
			}
			// all together: table order (preferred IEIs), reverse order (last IEIs), shuffled
			p := newParsed(r, m, useMax)
			for j := range m.Optional {
				o := &m.Optional[j]
				p.Opt = append(p.Opt, genOpt(r, o, o.IEI[0], useMax))
			}
			if err := roundTrip(p, tag+"/all, table order"); err != nil {
				return err
			}
			if !p.CanonicalOrder() {
				return fmt.Errorf("%s: table order not recognised as canonical", m.Name)
			}
			p = newParsed(r, m, useMax)
			for j := len(m.Optional) - 1; j >= 0; j-- {
				o := &m.Optional[j]
				p.Opt = append(p.Opt, genOpt(r, o, o.IEI[len(o.IEI)-1], useMax))
			}
			if err := roundTrip(p, tag+"/all, reverse order"); err != nil {
				return err
			}
			if len(m.Optional) > 1 && p.CanonicalOrder() {
				return fmt.Errorf("%s: reverse order recognised as canonical", m.Name)
			}
			p = newParsed(r, m, useMax)
			for _, j := range r.Perm(len(m.Optional)) {
				o := &m.Optional[j]
				p.Opt = append(p.Opt, genOpt(r, o, o.IEI[r.Intn(len(o.IEI))], useMax))
			}
			if err := roundTrip(p, tag+"/all, shuffled"); err != nil {
				return err
			}
		}
	}
	return nil
}

func wantParseErr(b []byte, off int, what string) error {
	_, err := Parse(b)
	if err == nil {
		return fmt.Errorf("%s: accepted (%x)", what, b)
	}
	pe, ok := err.(*ParseError)
	if !ok {
		return fmt.Errorf("%s: error is not a *ParseError: %v", what, err)
	}
	if off >= 0 && pe.Off != off {
		return fmt.Errorf("%s: error at offset %d, want %d: %v", what, pe.Off, off, err)
	}
	return nil
}

func negatives() error {
	r := rand.New(rand.NewSource(15))
	for i := range Messages {
		m := &Messages[i]
		if m.MsgType == 0 {
			continue
		}
		base, err := Encode(newParsed(r, m, false))
		if err != nil {
			return err
		}
		// an IEI that is not in the table (full-octet and half-octet)
		// 7C is in no Release-15 table; 01 and 0F are below the full-octet IEI
		// range and must not be mistaken for the half-octet IEIs 1- / F-.
		for _, t := range []byte{0x7C, 0x01, 0x0F} {
			if t >= 0x10 && m.FindOpt(t) != nil {
				return fmt.Errorf("%s: probe IEI %#02x is in the table", m.Name, t)
			}
			if err := wantParseErr(append(clone(base), t, 0x00), len(base), fmt.Sprintf("%s + unknown IEI %#02x", m.Name, t)); err != nil {
				return err
			}
		}
		for h := byte(0x8); h <= 0xF; h++ {
			if m.FindOpt(h) == nil {
				if err := wantParseErr(append(clone(base), h<<4|1), len(base), fmt.Sprintf("%s + unknown half-octet IEI %X-", m.Name, h)); err != nil {
					return err
				}
			}
		}
		// truncation of the mandatory part: every proper prefix that cuts it must fail
		hdr := 3
		if m.EPD == EPD5GSM {
			hdr = 4
		}
		for n := 0; n < len(base); n++ {
			if n < hdr || len(m.Mandatory) > 0 {
				if err := wantParseErr(base[:n], -1, fmt.Sprintf("%s truncated to %d", m.Name, n)); err != nil {
					return err
				}
			}
		}
		// mandatory LV / LV-E out of range
		for j := range m.Mandatory {
			f := &m.Mandatory[j]
			if f.Fmt == FmtV {
				continue
			}
			lo, hi := f.Bounds()
			try := []int{}
			if lo > 0 {
				try = append(try, lo-1)
			}
			if hi < lengthCap(f.Fmt) && hi < 2000 {
				try = append(try, hi+1)
			}
			for _, n := range try {
				p := newParsed(r, m, false)
				p.Mand[j] = randBytes(r, n)
				b, err := Encode(p)
				if err != nil {
					return err
				}
				if err := wantParseErr(b, -1, fmt.Sprintf("%s.%s with %d value octets", m.Name, f.Name, n)); err != nil {
					return err
				}
				if Validate(p) == nil {
					return fmt.Errorf("%s.%s with %d value octets: Validate accepts", m.Name, f.Name, n)
				}
			}
		}
		for j := range m.Optional {
			o := &m.Optional[j]
			ie := genOpt(r, o, o.IEI[0], false)
			p := newParsed(r, m, false)
			p.Opt = []IEVal{ie}
			good, err := Encode(p)
			if err != nil {
				return err
			}
			baseLen := len(good) - encodedLen(o, ie)
			// duplicate (also with the alternative IEI)
			dup := genOpt(r, o, o.IEI[len(o.IEI)-1], false)
			p.Opt = []IEVal{ie, dup}
			b, err := Encode(p)
			if err != nil {
				return err
			}
			if err := wantParseErr(b, len(good), fmt.Sprintf("%s: duplicate %s", m.Name, o.Name)); err != nil {
				return err
			}
			// truncation inside the IE
			for n := baseLen + 1; n < len(good); n++ {
				if err := wantParseErr(good[:n], baseLen, fmt.Sprintf("%s.%s truncated to %d of %d", m.Name, o.Name, n-baseLen, len(good)-baseLen)); err != nil {
					return err
				}
			}
			// value length out of range
			if o.Fmt == FmtTLV || o.Fmt == FmtTLVE {
				lo, hi := o.Bounds()
				try := []int{}
				if lo > 0 {
					try = append(try, lo-1)
				}
				if hi < lengthCap(o.Fmt) && hi < 2000 {
					try = append(try, hi+1)
				}
				for _, n := range try {
					p.Opt = []IEVal{{IEI: o.IEI[0], Val: randBytes(r, n)}}
					b, err := Encode(p)
					if err != nil {
						return err
					}
					if err := wantParseErr(b, baseLen, fmt.Sprintf("%s.%s with %d value octets", m.Name, o.Name, n)); err != nil {
						return err
					}
				}
			}
		}
	}
	// header errors
	if err := wantParseErr([]byte{0x7F, 0x00, 0x41}, 0, "unknown EPD"); err != nil {
		return err
	}
	if err := wantParseErr([]byte{0x7E, 0x00, 0x40}, 2, "unknown 5GMM type"); err != nil {
		return err
	}
	if err := wantParseErr([]byte{0x2E, 0x01, 0x01, 0xC4}, 3, "unknown 5GSM type"); err != nil {
		return err
	}
	if err := wantParseErr([]byte{0x7E, 0x05, 0, 0, 0, 0, 0, 0x7E, 0, 0x55}, 1, "reserved security header type"); err != nil {
		return err
	}
	if err := wantParseErr([]byte{0x7E, 0x02, 0, 0, 0, 0}, -1, "truncated security protected message"); err != nil {
		return err
	}
	return nil
}

func encodedLen(o *OptIE, ie IEVal) int {
	switch o.Fmt {
	case FmtTV1, FmtT:
		return 1
	case FmtTV:
		return 1 + len(ie.Val)
	case FmtTLV:
		return 2 + len(ie.Val)
	}
	return 3 + len(ie.Val)
}

// ---------------------------------------------------------------- (3)

func unhex(s string) []byte {
	s = strings.NewReplacer(" ", "", "\n", "", "\t", "").Replace(s)
	b, err := hex.DecodeString(s)
	if err != nil {
		panic(err)
	}
	return b
}

type wantIE struct {
	name string
	iei  byte
	val  string // hex
}

func checkKnown(what, msg, name string, sht, psi, pti byte, mand []string, opt []wantIE) error {
	b := unhex(msg)
	p, err := Parse(b)
	if err != nil {
		return fmt.Errorf("%s: %w", what, err)
	}
	if p.Def.Name != name {
		return fmt.Errorf("%s: parsed as %s, want %s", what, p.Def.Name, name)
	}
	if p.SHT != sht || p.PSI != psi || p.PTI != pti {
		return fmt.Errorf("%s: header %x/%x/%x", what, p.SHT, p.PSI, p.PTI)
	}
	if len(p.Mand) != len(mand) {
		return fmt.Errorf("%s: %d mandatory values, want %d", what, len(p.Mand), len(mand))
	}
	for i, h := range mand {
		if !bytes.Equal(p.Mand[i], unhex(h)) {
			return fmt.Errorf("%s: mandatory %s = %x, want %s", what, p.Def.Mandatory[i].Name, p.Mand[i], h)
		}
	}
	if len(p.Opt) != len(opt) {
		return fmt.Errorf("%s: %d optional IEs, want %d", what, len(p.Opt), len(opt))
	}
	for i, w := range opt {
		got := p.Opt[i]
		o := p.Def.FindOpt(got.IEI)
		if o == nil || o.Name != w.name || got.IEI != w.iei || !bytes.Equal(got.Val, unhex(w.val)) {
			return fmt.Errorf("%s: optional #%d = %#02x %x, want %s %#02x %s", what, i, got.IEI, got.Val, w.name, w.iei, w.val)
		}
		if v, ok := p.Get(w.name); !ok || !bytes.Equal(v, got.Val) {
			return fmt.Errorf("%s: Get(%s) fails", what, w.name)
		}
	}
	if !p.CanonicalOrder() {
		return fmt.Errorf("%s: not in canonical order", what)
	}
	out, err := Encode(p)
	if err != nil {
		return fmt.Errorf("%s: %w", what, err)
	}
	if !bytes.Equal(out, b) {
		return fmt.Errorf("%s: re-encoded %x", what, out)
	}
	return nil
}

func knownMessages() error {
	const rand16 = "000102030405060708090a0b0c0d0e0f"
	const autn16 = "a0a1a2a3a4a5800000b0b1b2b3b4b5b6"

	// REGISTRATION REQUEST, initial registration (FOR=1), no key (ngKSI 7),
	// SUCI of 208/93 null scheme MSIN 0000000001, UE security capability.
	if err := checkKnown("registration request",
		"7e004179000d0102f8390000000000000000102e04f0f0f0f0",
		"RegistrationRequest", 0, 0, 0,
		[]string{"79", "0102f839000000000000000010"},
		[]wantIE{{"UESecurityCapability", 0x2E, "f0f0f0f0"}}); err != nil {
		return err
	}
	// AUTHENTICATION REQUEST (5G AKA): ngKSI 1, ABBA 0000, RAND, AUTN.
	if err := checkKnown("authentication request",
		"7e0056 01 020000 21"+rand16+" 2010"+autn16,
		"AuthenticationRequest", 0, 0, 0,
		[]string{"01", "0000"},
		[]wantIE{{"AuthenticationParameterRAND", 0x21, rand16}, {"AuthenticationParameterAUTN", 0x20, autn16}}); err != nil {
		return err
	}
	// AUTHENTICATION RESPONSE with RES*.
	if err := checkKnown("authentication response",
		"7e0057 2d10"+rand16,
		"AuthenticationResponse", 0, 0, 0, nil,
		[]wantIE{{"AuthenticationResponseParameter", 0x2D, rand16}}); err != nil {
		return err
	}
	// SECURITY MODE COMMAND: 5G-EA0/128-5G-IA2, ngKSI 1, replayed capability
	// f0f0, IMEISV requested, additional 5G security information (RINMR).
	if err := checkKnown("security mode command",
		"7e005d 02 01 02f0f0 e1 360102",
		"SecurityModeCommand", 0, 0, 0,
		[]string{"02", "01", "f0f0"},
		[]wantIE{{"IMEISVRequest", 0x0E, "01"}, {"Additional5GSecurityInformation", 0x36, "02"}}); err != nil {
		return err
	}
	// SECURITY MODE COMPLETE with IMEISV and a NAS message container holding
	// the registration request above.
	if err := checkKnown("security mode complete",
		"7e005e 770009 051132547698103254 710019 7e004179000d0102f8390000000000000000102e04f0f0f0f0",
		"SecurityModeComplete", 0, 0, 0, nil,
		[]wantIE{{"IMEISV", 0x77, "051132547698103254"},
			{"NASMessageContainer", 0x71, "7e004179000d0102f8390000000000000000102e04f0f0f0f0"}}); err != nil {
		return err
	}
	// DL NAS TRANSPORT carrying a PDU SESSION ESTABLISHMENT REJECT (cause #26)
	// for PDU session 5.
	if err := checkKnown("DL NAS transport",
		"7e0068 01 0005 2e0501c31a 1205",
		"DLNASTransport", 0, 0, 0,
		[]string{"01", "2e0501c31a"},
		[]wantIE{{"PduSessionID2Value", 0x12, "05"}}); err != nil {
		return err
	}
	if err := checkKnown("PDU session establishment reject", "2e0501c31a",
		"PDUSessionEstablishmentReject", 0, 5, 1, []string{"1a"}, nil); err != nil {
		return err
	}
	// UL NAS TRANSPORT carrying a PDU SESSION ESTABLISHMENT REQUEST, initial
	// request, S-NSSAI SST 1, DNN "internet".
	if err := checkKnown("UL NAS transport",
		"7e0067 01 0007 2e0501c1ffff91 1205 81 220101 250908696e7465726e6574",
		"ULNASTransport", 0, 0, 0,
		[]string{"01", "2e0501c1ffff91"},
		[]wantIE{{"PduSessionID2Value", 0x12, "05"}, {"RequestType", 0x08, "01"},
			{"SNSSAI", 0x22, "01"}, {"DNN", 0x25, "08696e7465726e6574"}}); err != nil {
		return err
	}
	if err := checkKnown("PDU session establishment request", "2e0501c1ffff91",
		"PDUSessionEstablishmentRequest", 0, 5, 1, []string{"ffff"},
		[]wantIE{{"PDUSessionType", 0x09, "01"}}); err != nil {
		return err
	}
	// PDU SESSION ESTABLISHMENT ACCEPT: IPv4 / SSC mode 1, one default QoS
	// rule, session AMBR 100 Mbps both ways, PDU address 10.60.0.1, S-NSSAI,
	// one QoS flow description (5QI 9), DNN.
	if err := checkKnown("PDU session establishment accept",
		"2e0501c2 11 0009 010006313101 01ff01 06 060064060064"+
			" 2905010a3c0001 220101 790006 012041010109 250908696e7465726e6574",
		"PDUSessionEstablishmentAccept", 0, 5, 1,
		[]string{"11", "01000631310101ff01", "060064060064"},
		[]wantIE{{"PDUAddress", 0x29, "010a3c0001"}, {"SNSSAI", 0x22, "01"},
			{"AuthorizedQosFlowDescriptions", 0x79, "012041010109"},
			{"DNN", 0x25, "08696e7465726e6574"}}); err != nil {
		return err
	}
	// SERVICE REQUEST: ngKSI 1 (native), service type "data" (1), 5G-S-TMSI,
	// uplink data status for PSI 5.
	if err := checkKnown("service request",
		"7e004c 11 0007 f4 0040 00000001 40022000",
		"ServiceRequest", 0, 0, 0,
		[]string{"11", "f4004000000001"},
		[]wantIE{{"UplinkDataStatus", 0x40, "2000"}}); err != nil {
		return err
	}
	// DEREGISTRATION REQUEST (UE originating): switch off, 3GPP access,
	// ngKSI 1, 5G-GUTI.
	if err := checkKnown("deregistration request",
		"7e0045 19 000b f202f839cafe0000000001",
		"DeregistrationRequestUEOriginatingDeregistration", 0, 0, 0,
		[]string{"19", "f202f839cafe0000000001"}, nil); err != nil {
		return err
	}
	// Security protected 5GS NAS message (integrity protected, SQN 3) around
	// a CONFIGURATION UPDATE COMPLETE.
	if err := checkKnown("security protected message",
		"7e01 deadbeef 03 7e0055",
		"SecurityProtected5GSNASMessage", 1, 0, 0,
		[]string{"deadbeef", "03", "7e0055"}, nil); err != nil {
		return err
	}
	// the old IEI of Mapped EPS bearer contexts is admitted
	for _, iei := range []string{"75", "7f"} {
		p, err := Parse(unhex("2e0500cb " + iei + "0004 50000000"))
		if err != nil {
			return fmt.Errorf("modification command with mapped EPS bearer contexts IEI %s: %w", iei, err)
		}
		if _, ok := p.Get("MappedEPSBearerContexts"); !ok {
			return fmt.Errorf("modification command: mapped EPS bearer contexts IEI %s not found", iei)
		}
	}
	return nil
}
