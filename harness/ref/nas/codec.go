package nas

import (
	"fmt"
)

// IEVal is one optional IE in generic form. For FmtTV1 IEI is the 4-bit IEI
// and Val is one byte holding the value in its low nibble; for FmtT Val is
// empty; otherwise Val is the value part (without IEI and length octets).
type IEVal struct {
	IEI byte
	Val []byte
}

// Parsed is the generic parsed form of a NAS message.
type Parsed struct {
	Def      *MsgDef
	SHT      byte     // 5GMM: security header type octet (second octet); 5GSM: unused
	PSI, PTI byte     // 5GSM only
	Mand     [][]byte // value part of each mandatory field (without length octets)
	Opt      []IEVal  // in the order found on the wire
}

// ParseError names the offset at which a message deviates from its table.
type ParseError struct {
	Off int
	Msg string
}

func (e *ParseError) Error() string { return fmt.Sprintf("nas: offset %d: %s", e.Off, e.Msg) }

func perr(off int, format string, a ...interface{}) error {
	return &ParseError{Off: off, Msg: fmt.Sprintf(format, a...)}
}

// lengthCap is the largest value the length indicator of a format can carry.
func lengthCap(f Format) int {
	switch f {
	case FmtLV, FmtTLV:
		return 255
	case FmtLVE, FmtTLVE:
		return 65535
	}
	return 0
}

// Bounds returns the effective [min,max] of the value length of a mandatory
// LV / LV-E field (Max 0 resolved to the capacity of the length indicator).
func (f *Field) Bounds() (int, int) {
	hi := f.Max
	if c := lengthCap(f.Fmt); hi == 0 || hi > c {
		hi = c
	}
	return f.Min, hi
}

// Bounds returns the effective [min,max] of the value length of an optional
// IE: for TLV / TLV-E with Max 0 resolved; for TV Len..Len; for TV1 and T 0..0
// (the TV1 value nibble is not counted as a length).
func (o *OptIE) Bounds() (int, int) {
	switch o.Fmt {
	case FmtTV:
		return o.Len, o.Len
	case FmtTLV, FmtTLVE:
		hi := o.Max
		if c := lengthCap(o.Fmt); hi == 0 || hi > c {
			hi = c
		}
		return o.Min, hi
	}
	return 0, 0
}

func clone(b []byte) []byte {
	c := make([]byte, len(b))
	copy(c, b)
	return c
}

// Parse walks a NAS message strictly by the table: header, mandatory part,
// then the optional IEs in ANY order. Each IEI must belong to the message's
// table and the format / length rules of that entry are applied. An unknown
// message, an unknown IEI, a truncated IE, a value length outside [Min,Max] or
// a duplicate IE (no IE of these Release-15 tables is repeatable) is a
// *ParseError that names the offset.
//
// A 5GMM message whose security header type (bits 4-1 of octet 2) is not
// "plain" is returned as SecurityProtected5GSNASMessage with Mand = {MAC(4),
// SQN(1), rest}; the rest is NOT parsed (it may be ciphered). Callers that want
// only plain messages check p.Def.MsgType != 0 or p.SHT&0x0F == 0.
func Parse(b []byte) (*Parsed, error) {
	if len(b) < 2 {
		return nil, perr(len(b), "truncated header (%d octets)", len(b))
	}
	p := &Parsed{}
	off := 0
	switch b[0] {
	case EPD5GMM:
		p.SHT = b[1]
		if sht := p.SHT & 0x0F; sht != 0 {
			if sht > 4 {
				return nil, perr(1, "reserved security header type %#x", sht)
			}
			p.Def = Lookup(EPD5GMM, 0)
			off = 2
			break
		}
		if len(b) < 3 {
			return nil, perr(len(b), "truncated 5GMM header")
		}
		p.Def = Lookup(EPD5GMM, b[2])
		if p.Def == nil || p.Def.MsgType == 0 {
			return nil, perr(2, "unknown 5GMM message type %#02x", b[2])
		}
		off = 3
	case EPD5GSM:
		if len(b) < 4 {
			return nil, perr(len(b), "truncated 5GSM header")
		}
		p.PSI, p.PTI = b[1], b[2]
		p.Def = Lookup(EPD5GSM, b[3])
		if p.Def == nil {
			return nil, perr(3, "unknown 5GSM message type %#02x", b[3])
		}
		off = 4
	default:
		return nil, perr(0, "unknown extended protocol discriminator %#02x", b[0])
	}

	// mandatory part
	for i := range p.Def.Mandatory {
		f := &p.Def.Mandatory[i]
		var n int
		start := off
		switch f.Fmt {
		case FmtV:
			n = f.Len
			if n == RestOfMessage {
				n = len(b) - off
			}
		case FmtLV:
			if off+1 > len(b) {
				return nil, perr(off, "%s: truncated length indicator", f.Name)
			}
			n = int(b[off])
			off++
		case FmtLVE:
			if off+2 > len(b) {
				return nil, perr(off, "%s: truncated length indicator", f.Name)
			}
			n = int(b[off])<<8 | int(b[off+1])
			off += 2
		default:
			return nil, perr(off, "%s: table error, format %v in mandatory part", f.Name, f.Fmt)
		}
		if f.Fmt != FmtV {
			lo, hi := f.Bounds()
			if n < lo || n > hi {
				return nil, perr(start, "%s: value length %d outside [%d,%d]", f.Name, n, lo, hi)
			}
		}
		if off+n > len(b) {
			return nil, perr(start, "%s: truncated (%d value octets needed, %d left)", f.Name, n, len(b)-off)
		}
		p.Mand = append(p.Mand, clone(b[off:off+n]))
		off += n
	}

	// optional part
	seen := map[*OptIE]int{}
	for off < len(b) {
		start := off
		t := b[off]
		iei := t
		var o *OptIE
		switch {
		case t >= 0x80: // half-octet IEI 8..F in bits 8-5
			iei = t >> 4
			o = p.Def.FindOpt(iei)
		case t >= 0x10: // full-octet IEI 10..7F
			o = p.Def.FindOpt(t)
		}
		if o == nil {
			return nil, perr(start, "%s: IEI %#02x not in the message table", p.Def.Name, t)
		}
		if prev, dup := seen[o]; dup {
			return nil, perr(start, "%s: duplicate IE %s (first at offset %d)", p.Def.Name, o.Name, prev)
		}
		seen[o] = start
		off++
		var n int
		switch o.Fmt {
		case FmtTV1:
			p.Opt = append(p.Opt, IEVal{IEI: iei, Val: []byte{t & 0x0F}})
			continue
		case FmtT:
			p.Opt = append(p.Opt, IEVal{IEI: iei, Val: []byte{}})
			continue
		case FmtTV:
			n = o.Len
		case FmtTLV:
			if off+1 > len(b) {
				return nil, perr(start, "%s: truncated length indicator", o.Name)
			}
			n = int(b[off])
			off++
		case FmtTLVE:
			if off+2 > len(b) {
				return nil, perr(start, "%s: truncated length indicator", o.Name)
			}
			n = int(b[off])<<8 | int(b[off+1])
			off += 2
		default:
			return nil, perr(start, "%s: table error, format %v in optional part", o.Name, o.Fmt)
		}
		if o.Fmt != FmtTV {
			lo, hi := o.Bounds()
			if n < lo || n > hi {
				return nil, perr(start, "%s: value length %d outside [%d,%d]", o.Name, n, lo, hi)
			}
		}
		if off+n > len(b) {
			return nil, perr(start, "%s: truncated (%d value octets needed, %d left)", o.Name, n, len(b)-off)
		}
		p.Opt = append(p.Opt, IEVal{IEI: iei, Val: clone(b[off : off+n])})
		off += n
	}
	return p, nil
}

// Encode builds the bytes from a Parsed. Optional IEs are emitted in the order
// given (the caller is responsible for canonical order) with the IEI as given
// in IEVal, which must be one of the admissible IEIs of the message's table
// (it selects the format). Encode enforces only what the wire format forces
// (fixed lengths of V / TV, capacity of the length indicator, nibble range);
// conformity to [Min,Max] and uniqueness are checked by Validate, so that
// deliberately off-table messages can still be produced.
func Encode(p *Parsed) ([]byte, error) {
	if p == nil || p.Def == nil {
		return nil, fmt.Errorf("nas: Encode: no message definition")
	}
	d := p.Def
	var b []byte
	switch {
	case d.EPD == EPD5GMM && d.MsgType == 0:
		if p.SHT&0x0F == 0 {
			return nil, fmt.Errorf("nas: Encode %s: security header type is 'plain'", d.Name)
		}
		b = append(b, d.EPD, p.SHT)
	case d.EPD == EPD5GMM:
		b = append(b, d.EPD, p.SHT, d.MsgType)
	case d.EPD == EPD5GSM:
		b = append(b, d.EPD, p.PSI, p.PTI, d.MsgType)
	default:
		return nil, fmt.Errorf("nas: Encode %s: bad EPD %#02x", d.Name, d.EPD)
	}
	if len(p.Mand) != len(d.Mandatory) {
		return nil, fmt.Errorf("nas: Encode %s: %d mandatory values for %d fields", d.Name, len(p.Mand), len(d.Mandatory))
	}
	for i := range d.Mandatory {
		f := &d.Mandatory[i]
		val := p.Mand[i]
		switch f.Fmt {
		case FmtV:
			if f.Len != RestOfMessage && len(val) != f.Len {
				return nil, fmt.Errorf("nas: Encode %s.%s: %d octets, V field has %d", d.Name, f.Name, len(val), f.Len)
			}
		case FmtLV:
			if len(val) > 255 {
				return nil, fmt.Errorf("nas: Encode %s.%s: %d octets do not fit LV", d.Name, f.Name, len(val))
			}
			b = append(b, byte(len(val)))
		case FmtLVE:
			if len(val) > 65535 {
				return nil, fmt.Errorf("nas: Encode %s.%s: %d octets do not fit LV-E", d.Name, f.Name, len(val))
			}
			b = append(b, byte(len(val)>>8), byte(len(val)))
		default:
			return nil, fmt.Errorf("nas: Encode %s.%s: format %v in mandatory part", d.Name, f.Name, f.Fmt)
		}
		b = append(b, val...)
	}
	for _, ie := range p.Opt {
		o := d.FindOpt(ie.IEI)
		if o == nil {
			return nil, fmt.Errorf("nas: Encode %s: IEI %#02x not in the message table", d.Name, ie.IEI)
		}
		switch o.Fmt {
		case FmtTV1:
			if len(ie.Val) != 1 || ie.Val[0] > 0x0F {
				return nil, fmt.Errorf("nas: Encode %s.%s: TV1 value must be one octet <= 0x0F", d.Name, o.Name)
			}
			b = append(b, ie.IEI<<4|ie.Val[0])
		case FmtT:
			if len(ie.Val) != 0 {
				return nil, fmt.Errorf("nas: Encode %s.%s: T has no value", d.Name, o.Name)
			}
			b = append(b, ie.IEI)
		case FmtTV:
			if len(ie.Val) != o.Len {
				return nil, fmt.Errorf("nas: Encode %s.%s: %d octets, TV value has %d", d.Name, o.Name, len(ie.Val), o.Len)
			}
			b = append(b, ie.IEI)
			b = append(b, ie.Val...)
		case FmtTLV:
			if len(ie.Val) > 255 {
				return nil, fmt.Errorf("nas: Encode %s.%s: %d octets do not fit TLV", d.Name, o.Name, len(ie.Val))
			}
			b = append(b, ie.IEI, byte(len(ie.Val)))
			b = append(b, ie.Val...)
		case FmtTLVE:
			if len(ie.Val) > 65535 {
				return nil, fmt.Errorf("nas: Encode %s.%s: %d octets do not fit TLV-E", d.Name, o.Name, len(ie.Val))
			}
			b = append(b, ie.IEI, byte(len(ie.Val)>>8), byte(len(ie.Val)))
			b = append(b, ie.Val...)
		default:
			return nil, fmt.Errorf("nas: Encode %s.%s: format %v in optional part", d.Name, o.Name, o.Fmt)
		}
	}
	return b, nil
}

// Validate checks a Parsed against its table: value lengths within [Min,Max],
// no duplicate optional IE, plain security header for plain messages. It
// accepts exactly what Parse(Encode(p)) would accept.
func Validate(p *Parsed) error {
	b, err := Encode(p)
	if err != nil {
		return err
	}
	_, err = Parse(b)
	return err
}

// Get returns the value of the optional IE with the given member name and
// whether it is present.
func (p *Parsed) Get(name string) ([]byte, bool) {
	o := p.Def.OptByName(name)
	if o == nil {
		return nil, false
	}
	for _, ie := range p.Opt {
		if p.Def.FindOpt(ie.IEI) == o {
			return ie.Val, true
		}
	}
	return nil, false
}

// MandByName returns the value of the mandatory field with the given member
// name (nil if there is none).
func (p *Parsed) MandByName(name string) []byte {
	for i := range p.Def.Mandatory {
		if p.Def.Mandatory[i].Name == name && i < len(p.Mand) {
			return p.Mand[i]
		}
	}
	return nil
}

// CanonicalOrder reports whether the optional IEs of p appear in table order.
func (p *Parsed) CanonicalOrder() bool {
	last := -1
	for _, ie := range p.Opt {
		o := p.Def.FindOpt(ie.IEI)
		if o == nil {
			return false
		}
		idx := 0
		for i := range p.Def.Optional {
			if &p.Def.Optional[i] == o {
				idx = i
			}
		}
		if idx <= last {
			return false
		}
		last = idx
	}
	return true
}
