// Package ident holds independent encoders / decoders of subscriber and PLMN identities written from
// TS 24.501 9.11.3.4 (5GS mobile identity: SUCI, SUPI format IMSI) and TS 38.413 9.3.3.5 (PLMN identity).
package ident

import "fmt"

// PLMN: octet 1 = MCC digit 2 | MCC digit 1, octet 2 = MNC digit 3 (F when the MNC has two digits) | MCC digit 3,
// octet 3 = MNC digit 2 | MNC digit 1.
func PLMN(mcc, mnc string) []byte {
	d := func(c byte) byte { return c - '0' }
	m3 := byte(0xf)
	if len(mnc) == 3 {
		m3 = d(mnc[2])
	}
	return []byte{d(mcc[1])<<4 | d(mcc[0]), m3<<4 | d(mcc[2]), d(mnc[1])<<4 | d(mnc[0])}
}

func DecodePLMN(b []byte) (mcc, mnc string, err error) {
	if len(b) != 3 {
		return "", "", fmt.Errorf("PLMN of %d octets", len(b))
	}
	dig := func(n byte) (byte, bool) { return '0' + n, n <= 9 }
	m1, o1 := dig(b[0] & 0xf)
	m2, o2 := dig(b[0] >> 4)
	m3, o3 := dig(b[1] & 0xf)
	n1, o4 := dig(b[2] & 0xf)
	n2, o5 := dig(b[2] >> 4)
	if !(o1 && o2 && o3 && o4 && o5) {
		return "", "", fmt.Errorf("non-decimal digit in PLMN %x", b)
	}
	mcc = string([]byte{m1, m2, m3})
	if b[1]>>4 == 0xf {
		return mcc, string([]byte{n1, n2}), nil
	}
	n3, o6 := dig(b[1] >> 4)
	if !o6 {
		return "", "", fmt.Errorf("bad MNC digit 3 in PLMN %x", b)
	}
	return mcc, string([]byte{n1, n2, n3}), nil
}

// DecodeSUCI decodes the value part of a 5GS mobile identity of type SUCI with SUPI format IMSI.
func DecodeSUCI(v []byte) (mcc, mnc, msin string, scheme byte, err error) {
	if len(v) < 8 {
		return "", "", "", 0, fmt.Errorf("SUCI of %d octets", len(v))
	}
	if v[0]&0x07 != 0x01 {
		return "", "", "", 0, fmt.Errorf("type of identity %d, expected 1 (SUCI)", v[0]&7)
	}
	if (v[0]>>4)&0x07 != 0 {
		return "", "", "", 0, fmt.Errorf("SUPI format %d, expected 0 (IMSI)", (v[0]>>4)&7)
	}
	if v[0]&0x88 != 0 {
		return "", "", "", 0, fmt.Errorf("spare bits set in octet 4: %02x", v[0])
	}
	mcc, mnc, err = DecodePLMN(v[1:4])
	if err != nil {
		return
	}
	scheme = v[6] & 0x0f
	out := v[8:]
	var ds []byte
	for i, o := range out {
		lo, hi := o&0xf, o>>4
		if lo > 9 {
			return "", "", "", scheme, fmt.Errorf("MSIN digit %d is %x", 2*i+1, lo)
		}
		ds = append(ds, '0'+lo)
		if hi == 0xf {
			if i != len(out)-1 {
				return "", "", "", scheme, fmt.Errorf("filler digit before the last octet of the scheme output")
			}
			break
		}
		if hi > 9 {
			return "", "", "", scheme, fmt.Errorf("MSIN digit %d is %x", 2*i+2, hi)
		}
		ds = append(ds, '0'+hi)
	}
	return mcc, mnc, string(ds), scheme, nil
}
