package sec

import (
	"bytes"
	"crypto/hmac"
	"crypto/sha256"
	"encoding/binary"
	"encoding/hex"
	"fmt"
	"strings"
)

// SelfTest runs all known-answer and consistency tests of the package and
// returns nil when every one passes; otherwise the error lists every
// failure. The SNOW 3G coverage flags are saved and restored, so calling
// SelfTest does not disturb a coverage measurement in progress.
func SelfTest() error {
	savedSR, savedSQ, savedMul, savedDiv := covSR, covSQ, covMul, covDiv
	defer func() { covSR, covSQ, covMul, covDiv = savedSR, savedSQ, savedMul, savedDiv }()

	st := &selfTester{}
	st.tables()
	st.milenage()
	st.cmac()
	st.snow()
	st.eea1()
	st.uia2()
	st.eea2()
	st.eia2()
	st.kdf()
	st.consistency()
	if len(st.fails) == 0 {
		return nil
	}
	return fmt.Errorf("sec: self test: %d failure(s):\n  %s", len(st.fails), strings.Join(st.fails, "\n  "))
}

type selfTester struct{ fails []string }

func (st *selfTester) failf(format string, a ...interface{}) {
	st.fails = append(st.fails, fmt.Sprintf(format, a...))
}

func (st *selfTester) eq(name string, got []byte, wantHex string) {
	want := unhex(wantHex)
	if !bytes.Equal(got, want) {
		st.failf("%s: got %x want %x", name, got, want)
	}
}

func unhex(s string) []byte {
	s = strings.Map(func(r rune) rune {
		if r == ' ' || r == '\n' || r == '\t' {
			return -1
		}
		return r
	}, s)
	b, err := hex.DecodeString(s)
	if err != nil {
		panic("sec: bad hex in self test: " + err.Error())
	}
	return b
}

func unhexWords(s string) [4]uint32 {
	b := unhex(s)
	if len(b) != 16 {
		panic("sec: unhexWords: need 16 bytes")
	}
	return [4]uint32{
		binary.BigEndian.Uint32(b[0:]), binary.BigEndian.Uint32(b[4:]),
		binary.BigEndian.Uint32(b[8:]), binary.BigEndian.Uint32(b[12:]),
	}
}

// ---- table anchors ------------------------------------------------------

func (st *selfTester) tables() {
	if snowSR[0] != 0x63 || snowSR[1] != 0x7C || snowSR[0x53] != 0xED {
		st.failf("S_R anchors: S_R(0)=%02x S_R(1)=%02x S_R(0x53)=%02x", snowSR[0], snowSR[1], snowSR[0x53])
	}
	if snowSQ[0] != 0x25 || snowSQ[1] != 0x24 {
		st.failf("S_Q anchors: S_Q(0)=%02x S_Q(1)=%02x", snowSQ[0], snowSQ[1])
	}
	// Both S-boxes are permutations.
	for name, box := range map[string]*[256]byte{"S_R": &snowSR, "S_Q": &snowSQ} {
		var seen [256]bool
		for _, v := range box {
			seen[v] = true
		}
		for i, ok := range seen {
			if !ok {
				st.failf("%s is not a permutation (value %02x missing)", name, i)
				break
			}
		}
	}
	// MULalpha(1) = beta^23 || beta^245 || beta^48 || beta^239 and, because
	// alpha is a root of x^4 + beta^23 x^3 + beta^245 x^2 + beta^48 x +
	// beta^239, the constant term of DIValpha is the inverse of beta^239,
	// i.e. beta^(255-239) = beta^16, which is its top byte.
	if byte(snowMULa[1])&0xFF == 0 || gfMul(byte(snowMULa[1]), byte(snowDIVa[1]>>24), 0x1A9) != 1 {
		st.failf("MULalpha/DIValpha inverse relation broken: %08x %08x", snowMULa[1], snowDIVa[1])
	}
	if snowMULa[0] != 0 || snowDIVa[0] != 0 {
		st.failf("MULalpha(0)/DIValpha(0) not zero")
	}
}

// ---- Milenage, TS 35.207 / 35.208 (conformance test data) ----------------

type milenageVector struct {
	name                                                     string
	k, rand, sqn, amf, op, opc, f1, f1s, f2, f5, f3, f4, f5s string
}

var milenageVectors = []milenageVector{
	{
		name: "Milenage set 1",
		k:    "465b5ce8b199b49faa5f0a2ee238a6bc", rand: "23553cbe9637a89d218ae64dae47bf35",
		sqn: "ff9bb4d0b607", amf: "b9b9",
		op: "cdc202d5123e20f62b6d676ac72cb318", opc: "cd63cb71954a9f4e48a5994e37a02baf",
		f1: "4a9ffac354dfafb3", f1s: "01cfaf9ec4e871e9", f2: "a54211d5e3ba50bf", f5: "aa689c648370",
		f3: "b40ba9a3c58b2a05bbf0d987b21bf8cb", f4: "f769bcd751044604127672711c6d3441", f5s: "451e8beca43b",
	},
	{
		name: "Milenage set 2",
		k:    "0396eb317b6d1c36f19c1c84cd6ffd16", rand: "c00d603103dcee52c4478119494202e8",
		sqn: "fd8eef40df7d", amf: "af17",
		op: "ff53bade17df5d4e793073ce9d7579fa", opc: "53c15671c60a4b731c55b4a441c0bde2",
		f1: "5df5b31807e258b0", f1s: "a8c016e51ef4a343", f2: "d3a628ed988620f0", f5: "c47783995f72",
		f3: "58c433ff7a7082acd424220f2b67c556", f4: "21a8c1f929702adb3e738488b9f5c5da", f5s: "30f1197061c1",
	},
	{
		name: "Milenage set 3",
		k:    "fec86ba6eb707ed08905757b1bb44b8f", rand: "9f7c8d021accf4db213ccff0c7f71a6a",
		sqn: "9d0277595ffc", amf: "725c",
		op: "dbc59adcb6f9a0ef735477b7fadf8374", opc: "1006020f0a478bf6b699f15c062e42b3",
		f1: "9cabc3e99baf7281", f1s: "95814ba2b3044324", f2: "8011c48c0c214ed2", f5: "33484dc2136b",
		f3: "5dbdbb2954e8f3cde665b046179a5098", f4: "59a92d3b476a0443487055cf88b2307b", f5s: "deacdd848cc6",
	},
}

func (st *selfTester) milenage() {
	for _, v := range milenageVectors {
		k, rand, sqn, amf := unhex(v.k), unhex(v.rand), unhex(v.sqn), unhex(v.amf)
		opc := ComputeOPc(k, unhex(v.op))
		st.eq(v.name+" OPc", opc, v.opc)
		macA, macS := F1(k, opc, rand, sqn, amf)
		st.eq(v.name+" f1", macA, v.f1)
		st.eq(v.name+" f1*", macS, v.f1s)
		res, ck, ik, ak, akStar := F2345(k, opc, rand)
		st.eq(v.name+" f2", res, v.f2)
		st.eq(v.name+" f3", ck, v.f3)
		st.eq(v.name+" f4", ik, v.f4)
		st.eq(v.name+" f5", ak, v.f5)
		st.eq(v.name+" f5*", akStar, v.f5s)

		// AUTN = (SQN xor f5) || AMF || f1, assembled from the vector itself.
		wantAUTN := append(append(xorBytes(sqn, unhex(v.f5)), amf...), unhex(v.f1)...)
		if got := GenerateAUTN(k, opc, rand, sqn, amf); !bytes.Equal(got, wantAUTN) {
			st.failf("%s AUTN: got %x want %x", v.name, got, wantAUTN)
		}
		// AUTS = (SQN xor f5*) || f1*(AMF = 0000): structural, f1* with the
		// dummy AMF is not part of the published vectors.
		_, macS0 := F1(k, opc, rand, sqn, []byte{0, 0})
		wantAUTS := append(xorBytes(sqn, unhex(v.f5s)), macS0...)
		if got := GenerateAUTS(k, opc, rand, sqn); !bytes.Equal(got, wantAUTS) || len(got) != 14 {
			st.failf("%s AUTS: got %x want %x", v.name, got, wantAUTS)
		}
		if bytes.Equal(macS0, macS) {
			st.failf("%s: f1* did not depend on AMF", v.name)
		}
	}
}

// ---- AES-CMAC, RFC 4493 section 4 ------------------------------------------

func (st *selfTester) cmac() {
	key := unhex("2b7e151628aed2a6abf7158809cf4f3c")
	msg := unhex(`6bc1bee22e409f96e93d7e117393172a ae2d8a571e03ac9c9eb76fac45af8e51
		30c81c46a35ce411e5fbc1191a0a52ef f69f2445df4f9b17ad2b417be66c3710`)
	for _, c := range []struct {
		n    int
		want string
	}{
		{0, "bb1d6929e95937287fa37d129b756746"},
		{16, "070a16b46b4d4144f79bdd9dd04a287c"},
		{40, "dfa66747de9ae63030ca32611497c827"},
		{64, "51f0bebf7e3b9d92fc49741779363cfe"},
	} {
		st.eq(fmt.Sprintf("RFC 4493 CMAC len %d", c.n), aesCMAC(key, msg[:c.n]), c.want)
	}
	// Subkeys from RFC 4493: K1, K2.
	l := aesEnc(key, make([]byte, 16))
	st.eq("RFC 4493 L", l, "7df76b0c1ab899b33e42f047b91b546f")
	st.eq("RFC 4493 K1", dbl128(l), "fbeed618357133667c85e08f7236a8de")
	st.eq("RFC 4493 K2", dbl128(dbl128(l)), "f7ddac306ae266ccf90bc11ee46d513b")
}

// ---- SNOW 3G keystream, TS 35.222 (implementers' test data) ---------------

func (st *selfTester) snow() {
	for _, c := range []struct {
		name, key, iv string
		z             []uint32 // z1, z2, ...
	}{
		{"SNOW 3G set 1", "2BD6459F82C5B300952C49104881FF48", "EA024714AD5C4D84DF1F9B251C0BF45F", []uint32{0xABEE9704, 0x7AC31373}},
		{"SNOW 3G set 2", "8CE33E2CC3C0B5FC1F3DE8A6DC66B1F3", "D3C5D592327FB11CDE551988CEB2F9B7", []uint32{0xEFF8A342, 0xF751480F}},
		{"SNOW 3G set 3", "4035C6680AF8C6D1A8FF8667B1714013", "62A540981BA6F9B74592B0E78690F71B", []uint32{0xA8C874A9, 0x7AE7C4F8}},
		{"SNOW 3G set 4", "0DED7263109CF92E3352255A140E0F76", "6B68079A41A7C4C91BEFD79F7FDCC233", []uint32{0xD712C05C, 0xA937C2A6, 0xEB7EAAE3}},
	} {
		z := NewSnow3G(unhexWords(c.key), unhexWords(c.iv)).Keystream(len(c.z))
		for i := range c.z {
			if z[i] != c.z[i] {
				st.failf("%s z%d: got %08X want %08X", c.name, i+1, z[i], c.z[i])
			}
		}
	}
	// Set 4 also publishes z2500; draw the stream in uneven pieces to check
	// that Keystream is resumable.
	s := NewSnow3G(unhexWords("0DED7263109CF92E3352255A140E0F76"), unhexWords("6B68079A41A7C4C91BEFD79F7FDCC233"))
	var z []uint32
	for _, n := range []int{1, 0, 7, 1000, 1492} {
		z = append(z, s.Keystream(n)...)
	}
	if len(z) != 2500 || z[2499] != 0x9C0DB3AA {
		st.failf("SNOW 3G set 4 z2500: got %08X want 9C0DB3AA", z[len(z)-1])
	}
}

// ---- UEA2 / 128-EEA1, TS 35.222 ------------------------------------------

func (st *selfTester) eea1() {
	for _, c := range []struct {
		name, key   string
		count       uint32
		bearer, dir uint8
		bits        int
		pt, ct      string
	}{
		{"EEA1/UEA2 set 1", "D3C5D592327FB11C4035C6680AF8C6D1", 0x398A59B4, 0x15, 1, 253,
			"981BA6824C1BFB1AB485472029B71D808CE33E2CC3C0B5FC1F3DE8A6DC66B1F0",
			"5D5BFE75EB04F68CE0A12377EA00B37D47C6A0BA06309155086A859C4341B378"},
		{"EEA1/UEA2 set 2", "EFA8B2229E720C2A7C36EA55E9605695", 0xE28BCF7B, 0x18, 0, 510,
			`10111231E060253A43FD3F57E37607AB2827B599B6B1BBDA37A8ABCC5A8C550D
			 1BFB2F494624FB50367FA36CE3BC68F11CF93B1510376B02130F812A9FA169D8`,
			`E0DA15CA8E2554F5E56C9468DC6C7C129C568AA5032317E04E0729646CABEFA6
			 89864C410F24F919E61E3DFDFAD77E560DB0A9CD36C34AE4181490B29F5FA2FC`},
		{"EEA1/UEA2 set 3", "5ACB1D644C0D51204EA5F1451010D852", 0xFA556B26, 0x03, 1, 120,
			"AD9C441F890B38C457A49D421407E8", "BA0F31300334C56B52A7497CBAC046"},
	} {
		key, pt := unhex(c.key), unhex(c.pt)
		ct := EEA1(key, c.count, c.bearer, c.dir, pt, c.bits)
		st.eq(c.name+" encrypt", ct, c.ct)
		st.eq(c.name+" decrypt", EEA1(key, c.count, c.bearer, c.dir, ct, c.bits), c.pt)
	}
}

// ---- UIA2 f9, TS 35.222 ---------------------------------------------------
// The published UIA2 vectors use a full 32-bit FRESH, which 128-EIA1 cannot
// express (FRESH = BEARER || 0^27), so they are run against the internal f9
// and EIA1 is then tied to f9 structurally.

func (st *selfTester) uia2() {
	for _, c := range []struct {
		name, key    string
		count, fresh uint32
		dir          uint8
		bits         int
		msg, mac     string
	}{
		{"UIA2 set 1", "2BD6459F82C5B300952C49104881FF48", 0x38A6F056, 0xB8AEFDA9, 0, 88,
			"3332346263393861373479", "EE419E0D"},
		{"UIA2 set 2", "7E5E94431E11D73828D739CC6CED4573", 0x36AF6144, 0x9838F03A, 1, 254,
			"B3D3C9170A4E1632F60F861013D22D84B726B6A278D802D1EEAF1321BA5929DC", "92F2A453"},
		{"UIA2 set 3", "D3419BE821087ACD02123A9248033359", 0xC7590EA9, 0x57D5DF7D, 0, 511,
			`BBB057038809496BCFF86D6FBC8CE5B135A06B166054F2D565BE8ACE75DC851E
			 0BCDD8F07141C495872FB5D8C0C66A8B6DA556663E4E461205D84580BEE5BC7E`, "AD8C69F9"},
	} {
		st.eq(c.name, uia2(unhex(c.key), c.count, c.fresh, c.dir, unhex(c.msg), c.bits), c.mac)
	}
	key := unhex("2BD6459F82C5B300952C49104881FF48")
	msg := unhex("3332346263393861373479")
	for bearer := uint8(0); bearer < 32; bearer++ {
		for dir := uint8(0); dir < 2; dir++ {
			a := EIA1(key, 0x38A6F056, bearer, dir, msg, 88)
			b := uia2(key, 0x38A6F056, uint32(bearer)<<27, dir, msg, 88)
			if !bytes.Equal(a, b) || len(a) != 4 {
				st.failf("EIA1 bearer %d dir %d: %x != f9 %x", bearer, dir, a, b)
			}
		}
	}
	// Bits beyond LENGTH must not influence the MAC.
	m2 := append([]byte(nil), msg...)
	m2[10] ^= 0x01
	if !bytes.Equal(EIA1(key, 1, 2, 1, msg, 87), EIA1(key, 1, 2, 1, m2, 87)) {
		st.failf("EIA1: bit past LENGTH influenced the MAC")
	}
}

// ---- 128-EEA2, TS 33.401 C.1 ----------------------------------------------

func (st *selfTester) eea2() {
	key := unhex("d3c5d592327fb11c4035c6680af8c6d1")
	pt := "981ba6824c1bfb1ab485472029b71d808ce33e2cc3c0b5fc1f3de8a6dc66b1f0"
	ctHex := "e9fed8a63d155304d71df20bf3e82214b20ed7dad2f233dc3c22d7bdeeed8e78"
	ct := EEA2(key, 0x398a59b4, 0x15, 1, unhex(pt), 253)
	st.eq("EEA2 set 1 encrypt", ct, ctHex)
	st.eq("EEA2 set 1 decrypt", EEA2(key, 0x398a59b4, 0x15, 1, ct, 253), pt)

	// Keystream block i must be AES_K(T1 + i): check directly against the
	// block primitive for a 3-block all-zero message.
	ks := EEA2(key, 0x01020304, 0x1F, 1, make([]byte, 48), 384)
	for i := 0; i < 3; i++ {
		ctr := unhex("01020304fc0000000000000000000000")
		ctr[15] = byte(i)
		if !bytes.Equal(ks[16*i:16*i+16], aesEnc(key, ctr)) {
			st.failf("EEA2 counter block %d mismatch", i)
		}
	}
}

// ---- 128-EIA2, TS 33.401 C.2 ----------------------------------------------

func (st *selfTester) eia2() {
	st.eq("EIA2 set 1", EIA2(unhex("2bd6459f82c5b300952c49104881ff48"), 0x38a6f056, 0x18, 0,
		unhex("3332346263393840"), 58), "118c6eb8")
	st.eq("EIA2 set 2", EIA2(unhex("7e5e94431e11d73828d739cc6ced4573"), 0x36af6144, 0x18, 1,
		unhex("b3d3c9170a4e1632f60f861013d22d84b726b6a278d802d1eeaf1321ba5929dc"), 254), "1f60b01d")

	// Octet-aligned EIA2 equals plain RFC 4493 CMAC over header || message.
	key := unhex("2b7e151628aed2a6abf7158809cf4f3c")
	for n := 0; n <= 40; n++ {
		msg := make([]byte, n)
		for i := range msg {
			msg[i] = byte(7*i + n)
		}
		hdr := []byte{0xA1, 0xB2, 0xC3, 0xD4, 0x0A<<3 | 1<<2, 0, 0, 0}
		want := aesCMAC(key, append(hdr, msg...))[:4]
		if got := EIA2(key, 0xA1B2C3D4, 0x0A, 1, msg, 8*n); !bytes.Equal(got, want) {
			st.failf("EIA2 aligned len %d: got %x want %x", n, got, want)
		}
	}
}

// ---- KDF and the 5G key chain: structural checks --------------------------

func (st *selfTester) kdf() {
	directHMAC := func(key, s []byte) []byte {
		m := hmac.New(sha256.New, key)
		m.Write(s)
		return m.Sum(nil)
	}
	cat := func(parts ...[]byte) []byte {
		var out []byte
		for _, p := range parts {
			out = append(out, p...)
		}
		return out
	}

	if got := SNName("208", "93"); got != "5G:mnc093.mcc208.3gppnetwork.org" {
		st.failf("SNName(208,93) = %q", got)
	}
	if got := SNName("310", "410"); got != "5G:mnc410.mcc310.3gppnetwork.org" {
		st.failf("SNName(310,410) = %q", got)
	}
	if got := SNName("1", "1"); got != "5G:mnc001.mcc001.3gppnetwork.org" {
		st.failf("SNName(1,1) = %q", got)
	}

	sn := SNName("208", "93")
	if len(sn) != 32 {
		st.failf("SN name length %d, expected 32", len(sn))
	}
	snL := []byte{0x00, 0x20}
	ck := unhex("b40ba9a3c58b2a05bbf0d987b21bf8cb")
	ik := unhex("f769bcd751044604127672711c6d3441")
	rand := unhex("23553cbe9637a89d218ae64dae47bf35")
	res := unhex("a54211d5e3ba50bf")
	sqnAK := unhex("55f328b43577")
	abba := []byte{0x00, 0x00}
	supi := "208930000000003"

	// Generic KDF including an empty parameter.
	if got, want := KDF(ck, 0x42, []byte("ab"), nil, []byte{9}),
		directHMAC(ck, []byte{0x42, 'a', 'b', 0, 2, 0, 0, 9, 0, 1}); !bytes.Equal(got, want) {
		st.failf("KDF generic: got %x want %x", got, want)
	}
	if got, want := KDF(ck, 0x42), directHMAC(ck, []byte{0x42}); !bytes.Equal(got, want) {
		st.failf("KDF no params: got %x want %x", got, want)
	}

	kausf := KAUSF(ck, ik, sn, sqnAK)
	if want := directHMAC(cat(ck, ik), cat([]byte{0x6A}, []byte(sn), snL, sqnAK, []byte{0, 6})); !bytes.Equal(kausf, want) {
		st.failf("KAUSF: got %x want %x", kausf, want)
	}
	resStar := RESStar(ck, ik, sn, rand, res)
	if want := directHMAC(cat(ck, ik), cat([]byte{0x6B}, []byte(sn), snL, rand, []byte{0, 16}, res, []byte{0, 8}))[16:]; !bytes.Equal(resStar, want) || len(resStar) != 16 {
		st.failf("RES*: got %x want %x", resStar, want)
	}
	kseaf := KSEAF(kausf, sn)
	if want := directHMAC(kausf, cat([]byte{0x6C}, []byte(sn), snL)); !bytes.Equal(kseaf, want) {
		st.failf("KSEAF: got %x want %x", kseaf, want)
	}
	kamf := KAMF(kseaf, supi, abba)
	if want := directHMAC(kseaf, cat([]byte{0x6D}, []byte(supi), []byte{0, 15}, abba, []byte{0, 2})); !bytes.Equal(kamf, want) {
		st.failf("KAMF: got %x want %x", kamf, want)
	}
	for _, d := range []byte{1, 2} {
		for _, id := range []byte{0, 1, 2} {
			got := NASAlgKey(kamf, d, id)
			want := directHMAC(kamf, []byte{0x69, d, 0, 1, id, 0, 1})[16:]
			if !bytes.Equal(got, want) || len(got) != 16 {
				st.failf("NASAlgKey(%d,%d): got %x want %x", d, id, got, want)
			}
		}
	}
}

// ---- internal consistency ---------------------------------------------------

func (st *selfTester) consistency() {
	key := unhex("000102030405060708090a0b0c0d0e0f")
	key2 := unhex("f0e1d2c3b4a5968778695a4b3c2d1e0f")
	data := make([]byte, 64)
	for i := range data {
		data[i] = byte(i*37 + 11)
	}

	type encFn func([]byte, uint32, uint8, uint8, []byte, int) []byte
	for name, f := range map[string]encFn{"EEA1": EEA1, "EEA2": EEA2} {
		for n := 1; n <= 64; n++ {
			ct := f(key, 0x12345678, 7, 1, data[:n], 8*n)
			if len(ct) != n || bytes.Equal(ct, data[:n]) && n > 2 {
				st.failf("%s len %d: bad ciphertext", name, n)
			}
			if pt := f(key, 0x12345678, 7, 1, ct, 8*n); !bytes.Equal(pt, data[:n]) {
				st.failf("%s len %d: round trip failed", name, n)
			}
			// A prefix of the keystream is the keystream of the prefix.
			if n > 1 && !bytes.Equal(ct[:n-1], f(key, 0x12345678, 7, 1, data[:n-1], 8*(n-1))) {
				st.failf("%s len %d: prefix property failed", name, n)
			}
		}
		// Non-octet-aligned lengths: trailing bits zero, round trip on the
		// masked plaintext, and the caller's buffer is untouched.
		for bits := 1; bits <= 70; bits++ {
			n := (bits + 7) / 8
			in := append([]byte(nil), data[:n+1]...)
			ct := f(key, 5, 0, 0, in, bits)
			if !bytes.Equal(in, data[:n+1]) {
				st.failf("%s bits %d: input modified", name, bits)
			}
			if len(ct) != n+1 || ct[n] != 0 || (bits%8 != 0 && ct[n-1]&(0xFF>>uint(bits%8)) != 0) {
				st.failf("%s bits %d: padding bits not zero: %x", name, bits, ct)
			}
			if pt := f(key, 5, 0, 0, ct, bits); !bytes.Equal(pt[:n], takeBits(data, bits)) {
				st.failf("%s bits %d: round trip failed", name, bits)
			}
		}
		// COUNT, BEARER and DIRECTION all matter.
		base := f(key, 1, 1, 0, data, 512)
		for what, other := range map[string][]byte{
			"COUNT": f(key, 2, 1, 0, data, 512), "BEARER": f(key, 1, 2, 0, data, 512),
			"DIRECTION": f(key, 1, 1, 1, data, 512), "KEY": f(key2, 1, 1, 0, data, 512),
		} {
			if bytes.Equal(base, other) {
				st.failf("%s: output independent of %s", name, what)
			}
		}
	}

	type macFn func([]byte, uint32, uint8, uint8, []byte, int) []byte
	for name, f := range map[string]macFn{"EIA1": EIA1, "EIA2": EIA2} {
		base := f(key, 1, 1, 0, data, 512)
		d2 := append([]byte(nil), data...)
		d2[63] ^= 1
		for what, other := range map[string][]byte{
			"COUNT": f(key, 2, 1, 0, data, 512), "BEARER": f(key, 1, 2, 0, data, 512),
			"DIRECTION": f(key, 1, 1, 1, data, 512), "KEY": f(key2, 1, 1, 0, data, 512),
			"last bit": f(key, 1, 1, 0, d2, 512), "LENGTH": f(key, 1, 1, 0, data, 511),
		} {
			if len(other) != 4 || bytes.Equal(base, other) {
				st.failf("%s: MAC independent of %s", name, what)
			}
		}
	}

	// NAS wrappers.
	if out, err := NEA(0, nil, 1, 1, 1, data); err != nil || !bytes.Equal(out, data) || &out[0] == &data[0] {
		st.failf("NEA0 is not a fresh identity copy")
	}
	if out, err := NIA(0, nil, 1, 1, 1, data); err != nil || !bytes.Equal(out, []byte{0, 0, 0, 0}) {
		st.failf("NIA0 MAC not zero")
	}
	if _, err := NEA(3, key, 1, 1, 1, data); err == nil {
		st.failf("NEA(3) did not fail")
	}
	if _, err := NIA(3, key, 1, 1, 1, data); err == nil {
		st.failf("NIA(3) did not fail")
	}

	// NAS envelope round trip for every algorithm pair.
	plain := unhex("7e005e7700090500000000000000f1") // arbitrary octets
	for intAlg := uint8(0); intAlg <= 2; intAlg++ {
		for encAlg := uint8(0); encAlg <= 2; encAlg++ {
			for _, cipher := range []bool{false, true} {
				const count = 0x0001A2FE
				sht := uint8(1)
				if cipher {
					sht = 2
				}
				tag := fmt.Sprintf("NAS int=%d enc=%d cipher=%v", intAlg, encAlg, cipher)
				p, err := ProtectNAS(intAlg, encAlg, key, key2, count, 1, 0, sht, cipher, plain)
				if err != nil {
					st.failf("%s: %v", tag, err)
					continue
				}
				if len(p) != 7+len(plain) || p[0] != 0x7E || p[1] != sht || p[6] != 0xFE {
					st.failf("%s: bad envelope %x", tag, p)
				}
				wantMAC, _ := NIA(intAlg, key, count, 1, 0, p[6:])
				if !bytes.Equal(p[2:6], wantMAC) {
					st.failf("%s: MAC field %x want %x", tag, p[2:6], wantMAC)
				}
				wantPayload := plain
				if cipher {
					wantPayload, _ = NEA(encAlg, key2, count, 1, 0, plain)
				}
				if !bytes.Equal(p[7:], wantPayload) {
					st.failf("%s: payload %x want %x", tag, p[7:], wantPayload)
				}
				got, ok, err := UnprotectNAS(intAlg, encAlg, key, key2, count, 1, 0, cipher, p)
				if err != nil || !ok || !bytes.Equal(got, plain) {
					st.failf("%s: unprotect: plain %x ok %v err %v", tag, got, ok, err)
				}
				if intAlg != 0 {
					bad := append([]byte(nil), p...)
					bad[len(bad)-1] ^= 0x80
					if _, ok, _ := UnprotectNAS(intAlg, encAlg, key, key2, count, 1, 0, cipher, bad); ok {
						st.failf("%s: tampered message accepted", tag)
					}
					if _, ok, _ := UnprotectNAS(intAlg, encAlg, key, key2, count+256, 1, 0, cipher, p); ok {
						st.failf("%s: wrong COUNT accepted", tag)
					}
					if _, ok, _ := UnprotectNAS(intAlg, encAlg, key, key2, count, 1, 1, cipher, p); ok {
						st.failf("%s: wrong DIRECTION accepted", tag)
					}
				}
			}
		}
	}
	if _, _, err := UnprotectNAS(2, 2, key, key2, 0, 1, 0, true, []byte{0x7E, 2, 0, 0, 0, 0}); err == nil {
		st.failf("UnprotectNAS accepted a 6-octet message")
	}
	if _, err := ProtectNAS(2, 7, key, key2, 0, 1, 0, 2, true, plain); err == nil {
		st.failf("ProtectNAS accepted encAlg 7")
	}
	if _, err := ProtectNAS(7, 2, key, key2, 0, 1, 0, 2, true, plain); err == nil {
		st.failf("ProtectNAS accepted intAlg 7")
	}
}
