package sec

import (
	"crypto/hmac"
	"crypto/sha256"
	"fmt"
	"strings"
)

// KDF is the generic key derivation function of TS 33.220 Annex B.2:
// HMAC-SHA-256(key, S) with S = FC || P0 || L0 || P1 || L1 || ... where Li
// is the two-octet big-endian length of Pi.
func KDF(key []byte, fc byte, params ...[]byte) []byte {
	s := []byte{fc}
	for _, p := range params {
		if len(p) > 0xFFFF {
			panic("sec: KDF: parameter longer than 65535 octets")
		}
		s = append(s, p...)
		s = append(s, byte(len(p)>>8), byte(len(p)))
	}
	m := hmac.New(sha256.New, key)
	m.Write(s)
	return m.Sum(nil)
}

// SNName builds the 5G serving network name of TS 24.501 9.12.1:
// "5G:mnc<MNC>.mcc<MCC>.3gppnetwork.org" with a 3-digit MNC (a 2-digit MNC
// is left-padded with a zero) and a 3-digit MCC.
func SNName(mcc, mnc string) string {
	return fmt.Sprintf("5G:mnc%s.mcc%s.3gppnetwork.org", pad3(mnc), pad3(mcc))
}

func pad3(s string) string {
	if len(s) < 3 {
		return strings.Repeat("0", 3-len(s)) + s
	}
	return s
}

func concat(a, b []byte) []byte {
	out := make([]byte, 0, len(a)+len(b))
	out = append(out, a...)
	out = append(out, b...)
	return out
}

// KAUSF derives K_AUSF for 5G AKA, TS 33.501 A.2:
// FC = 0x6A, P0 = serving network name, P1 = SQN xor AK, key = CK || IK.
func KAUSF(ck, ik []byte, snName string, sqnXorAK []byte) []byte {
	mustLen("CK", ck, 16)
	mustLen("IK", ik, 16)
	mustLen("SQN xor AK", sqnXorAK, 6)
	return KDF(concat(ck, ik), 0x6A, []byte(snName), sqnXorAK)
}

// RESStar derives RES* / XRES*, TS 33.501 A.4:
// FC = 0x6B, P0 = serving network name, P1 = RAND, P2 = RES, key = CK || IK;
// the result is the 128 least significant bits of the KDF output.
func RESStar(ck, ik []byte, snName string, rand, res []byte) []byte {
	mustLen("CK", ck, 16)
	mustLen("IK", ik, 16)
	mustLen("RAND", rand, 16)
	out := KDF(concat(ck, ik), 0x6B, []byte(snName), rand, res)
	return append([]byte(nil), out[16:32]...)
}

// KSEAF derives K_SEAF, TS 33.501 A.6: FC = 0x6C, P0 = serving network name,
// key = K_AUSF.
func KSEAF(kausf []byte, snName string) []byte {
	mustLen("KAUSF", kausf, 32)
	return KDF(kausf, 0x6C, []byte(snName))
}

// KAMF derives K_AMF, TS 33.501 A.7: FC = 0x6D, P0 = SUPI (for an IMSI-based
// SUPI the decimal digits of the IMSI, no "imsi-" prefix), P1 = ABBA,
// key = K_SEAF.
func KAMF(kseaf []byte, supiDigits string, abba []byte) []byte {
	mustLen("KSEAF", kseaf, 32)
	return KDF(kseaf, 0x6D, []byte(supiDigits), abba)
}

// NASAlgKey derives K_NASenc / K_NASint, TS 33.501 A.8: FC = 0x69,
// P0 = algorithm type distinguisher (0x01 N-NAS-enc-alg, 0x02 N-NAS-int-alg),
// P1 = algorithm identity, key = K_AMF. The 128 least significant bits of
// the 256-bit KDF output are returned.
func NASAlgKey(kamf []byte, algTypeDistinguisher, algID byte) []byte {
	mustLen("KAMF", kamf, 32)
	out := KDF(kamf, 0x69, []byte{algTypeDistinguisher}, []byte{algID})
	return append([]byte(nil), out[16:32]...)
}
