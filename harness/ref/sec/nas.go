package sec

import (
	"crypto/subtle"
	"fmt"
)

// EPD5GMM is the extended protocol discriminator for 5GS mobility
// management messages (TS 24.007 11.2.3.1A).
const EPD5GMM = 0x7E

// ProtectNAS builds a security protected 5GS NAS message (TS 24.501 9.1.1):
//
//	EPD (0x7E) | security header type | MAC (4) | sequence number (1) | payload
//
// The sequence number is the 8 least significant bits of count. If cipher is
// true the plain NAS message is ciphered with encAlg first (TS 24.501
// 4.4.5); the MAC is then computed with intAlg over sequence number ||
// payload as sent (TS 24.501 4.4.3.3) using count, bearer and direction.
func ProtectNAS(intAlg, encAlg uint8, kInt, kEnc []byte, count uint32, bearer, direction uint8, sht uint8, cipher bool, plain []byte) ([]byte, error) {
	if sht > 0x0F {
		return nil, fmt.Errorf("sec: security header type 0x%x does not fit in 4 bits", sht)
	}
	payload := append([]byte{}, plain...)
	if cipher {
		var err error
		payload, err = NEA(encAlg, kEnc, count, bearer, direction, plain)
		if err != nil {
			return nil, err
		}
	}
	macInput := make([]byte, 0, 1+len(payload))
	macInput = append(macInput, byte(count))
	macInput = append(macInput, payload...)
	mac, err := NIA(intAlg, kInt, count, bearer, direction, macInput)
	if err != nil {
		return nil, err
	}
	out := make([]byte, 0, 7+len(payload))
	out = append(out, EPD5GMM, sht)
	out = append(out, mac...)
	out = append(out, macInput...)
	return out, nil
}

// UnprotectNAS takes a full security protected NAS message and the COUNT
// the receiver has estimated for it. It recomputes the MAC over
// sequence number || payload (octets 7..n as received) and compares it to
// octets 3..6; if decipher is true the payload is deciphered with encAlg.
// The plain payload is returned regardless of macOK so the caller can
// inspect it. The sequence number octet is not compared against count; that
// is the caller's business.
func UnprotectNAS(intAlg, encAlg uint8, kInt, kEnc []byte, count uint32, bearer, direction uint8, decipher bool, protected []byte) (plain []byte, macOK bool, err error) {
	if len(protected) < 7 {
		return nil, false, fmt.Errorf("sec: protected NAS message too short (%d octets)", len(protected))
	}
	if protected[0] != EPD5GMM {
		return nil, false, fmt.Errorf("sec: unexpected extended protocol discriminator 0x%02x", protected[0])
	}
	mac, err := NIA(intAlg, kInt, count, bearer, direction, protected[6:])
	if err != nil {
		return nil, false, err
	}
	macOK = subtle.ConstantTimeCompare(mac, protected[2:6]) == 1
	payload := protected[7:]
	if decipher {
		plain, err = NEA(encAlg, kEnc, count, bearer, direction, payload)
		if err != nil {
			return nil, false, err
		}
	} else {
		plain = append([]byte{}, payload...)
	}
	return plain, macOK, nil
}
