// Package sec is an independent reference implementation of the 3GPP
// security algorithms needed for 5G NAS: Milenage (TS 35.206), the generic
// KDF (TS 33.220 B.2), the 5G key hierarchy (TS 33.501 Annex A), SNOW 3G
// (TS 35.216), 128-EEA1/EIA1 (TS 35.215 + TS 33.401 B.1.2/B.2.2),
// 128-EEA2/EIA2 (TS 33.401 B.1.3/B.2.3, RFC 4493) and the NAS security
// envelope of TS 24.501.
//
// It is written from the specifications using only the Go standard library
// and exists to serve as a test oracle. Clarity is preferred over speed.
package sec

import (
	"crypto/aes"
	"fmt"
)

// aesEnc encrypts exactly one 16-byte block with AES-128 (Rijndael, the
// kernel function E_K of TS 35.206).
func aesEnc(key, in []byte) []byte {
	if len(in) != 16 {
		panic(fmt.Sprintf("sec: aesEnc: block length %d", len(in)))
	}
	c, err := aes.NewCipher(key)
	if err != nil {
		panic("sec: aes.NewCipher: " + err.Error())
	}
	out := make([]byte, 16)
	c.Encrypt(out, in)
	return out
}

func xorBytes(a, b []byte) []byte {
	if len(a) != len(b) {
		panic(fmt.Sprintf("sec: xorBytes: lengths %d != %d", len(a), len(b)))
	}
	out := make([]byte, len(a))
	for i := range a {
		out[i] = a[i] ^ b[i]
	}
	return out
}

func mustLen(what string, b []byte, n int) {
	if len(b) != n {
		panic(fmt.Sprintf("sec: %s must be %d bytes, got %d", what, n, len(b)))
	}
}

// rotl128 rotates a 128-bit value left (towards the most significant bit)
// by r bits; r must be a multiple of 8 (true for all Milenage constants).
func rotl128(x []byte, r int) []byte {
	if r%8 != 0 {
		panic("sec: rotl128: r not a multiple of 8")
	}
	out := make([]byte, 16)
	for i := 0; i < 16; i++ {
		out[i] = x[(i+r/8)%16]
	}
	return out
}

// ComputeOPc returns OPc = OP xor E_K(OP) (TS 35.206 clause 4.1).
func ComputeOPc(k, op []byte) []byte {
	mustLen("K", k, 16)
	mustLen("OP", op, 16)
	return xorBytes(aesEnc(k, op), op)
}

// Milenage rotation and addition constants, TS 35.206 clause 4.1.
var (
	milR = [6]int{0, 64, 0, 32, 64, 96}
	milC = [6]byte{0, 0, 1, 2, 4, 8} // ci is 128 bits, only the low byte is non-zero
)

// F1 computes f1 (MAC-A) and f1* (MAC-S).
func F1(k, opc, rand, sqn, amf []byte) (macA, macS []byte) {
	mustLen("K", k, 16)
	mustLen("OPc", opc, 16)
	mustLen("RAND", rand, 16)
	mustLen("SQN", sqn, 6)
	mustLen("AMF", amf, 2)

	temp := aesEnc(k, xorBytes(rand, opc))

	in1 := make([]byte, 0, 16)
	in1 = append(in1, sqn...)
	in1 = append(in1, amf...)
	in1 = append(in1, sqn...)
	in1 = append(in1, amf...)

	// OUT1 = E_K(TEMP xor rot(IN1 xor OPc, r1) xor c1) xor OPc
	x := rotl128(xorBytes(in1, opc), milR[1])
	x[15] ^= milC[1]
	x = xorBytes(x, temp)
	out1 := xorBytes(aesEnc(k, x), opc)

	macA = append([]byte(nil), out1[0:8]...)
	macS = append([]byte(nil), out1[8:16]...)
	return
}

// milOut computes OUTi for i = 2..5:
// OUTi = E_K(rot(TEMP xor OPc, ri) xor ci) xor OPc.
func milOut(k, opc, temp []byte, i int) []byte {
	x := rotl128(xorBytes(temp, opc), milR[i])
	x[15] ^= milC[i]
	return xorBytes(aesEnc(k, x), opc)
}

// F2345 computes f2 (RES), f3 (CK), f4 (IK), f5 (AK) and f5* (AK*).
func F2345(k, opc, rand []byte) (res, ck, ik, ak, akStar []byte) {
	mustLen("K", k, 16)
	mustLen("OPc", opc, 16)
	mustLen("RAND", rand, 16)

	temp := aesEnc(k, xorBytes(rand, opc))

	out2 := milOut(k, opc, temp, 2)
	out3 := milOut(k, opc, temp, 3)
	out4 := milOut(k, opc, temp, 4)
	out5 := milOut(k, opc, temp, 5)

	res = append([]byte(nil), out2[8:16]...)
	ak = append([]byte(nil), out2[0:6]...)
	ck = out3
	ik = out4
	akStar = append([]byte(nil), out5[0:6]...)
	return
}

// GenerateAUTN returns AUTN = (SQN xor AK) || AMF || MAC-A (TS 33.102 6.3.2).
func GenerateAUTN(k, opc, rand, sqn, amf []byte) []byte {
	macA, _ := F1(k, opc, rand, sqn, amf)
	_, _, _, ak, _ := F2345(k, opc, rand)
	out := make([]byte, 0, 16)
	out = append(out, xorBytes(sqn, ak)...)
	out = append(out, amf...)
	out = append(out, macA...)
	return out
}

// GenerateAUTS returns AUTS = (SQNms xor AK*) || MAC-S, with MAC-S = f1*
// computed over SQNms and the dummy AMF 00 00 (TS 33.102 6.3.3).
func GenerateAUTS(k, opc, rand, sqnMS []byte) []byte {
	_, macS := F1(k, opc, rand, sqnMS, []byte{0, 0})
	_, _, _, _, akStar := F2345(k, opc, rand)
	out := make([]byte, 0, 14)
	out = append(out, xorBytes(sqnMS, akStar)...)
	out = append(out, macS...)
	return out
}
