package sec

import (
	"encoding/binary"
	"encoding/hex"
	"testing"
)

func hx(s string) []byte {
	b, err := hex.DecodeString(s)
	if err != nil {
		panic(err)
	}
	return b
}

func words(s string) [4]uint32 {
	b := hx(s)
	return [4]uint32{binary.BigEndian.Uint32(b[0:]), binary.BigEndian.Uint32(b[4:]), binary.BigEndian.Uint32(b[8:]), binary.BigEndian.Uint32(b[12:])}
}

func TestExplore(t *testing.T) {
	t.Logf("SQ0=%02x SQ1=%02x SR0=%02x SR1=%02x", snowSQ[0], snowSQ[1], snowSR[0], snowSR[1])
	for _, c := range []struct{ k, iv string }{
		{"2BD6459F82C5B300952C49104881FF48", "EA024714AD5C4D84DF1F9B251C0BF45F"},
		{"8CE33E2CC3C0B5FC1F3DE8A6DC66B1F3", "D3C5D592327FB11CDE551988CEB2F9B7"},
		{"4035C6680AF8C6D1A8FF8667B1714013", "62A540981BA6F9B74592B0E78690F71B"},
		{"0DED7263109CF92E3352255A140E0F76", "6B68079A41A7C4C91BEFD79F7FDCC233"},
	} {
		k, iv := words(c.k), words(c.iv)
		kr := [4]uint32{k[3], k[2], k[1], k[0]}
		ivr := [4]uint32{iv[3], iv[2], iv[1], iv[0]}
		for i, kk := range [][4]uint32{k, kr} {
			for j, vv := range [][4]uint32{iv, ivr} {
				z := NewSnow3G(kk, vv).Keystream(2500)
				t.Logf("%s k%d iv%d: %08X %08X %08X ... %08X", c.k[:8], i, j, z[0], z[1], z[2], z[2499])
			}
		}
	}
	// UIA2
	t.Logf("UIA2-1 %x want EE419E0D", uia2(hx("2BD6459F82C5B300952C49104881FF48"), 0x38A6F056, 0xB8AEFDA9, 0, hx("3332346263393861373479"), 88))
	t.Logf("UIA2-2 %x want 92F2A453", uia2(hx("7E5E94431E11D73828D739CC6CED4573"), 0x36AF6144, 0x9838F03A, 1, hx("B3D3C9170A4E1632F60F861013D22D84B726B6A278D802D1EEAF1321BA5929DC"), 254))
	t.Logf("UIA2-3 %x want AD8C69F9", uia2(hx("D3419BE821087ACD02123A9248033359"), 0xC7590EA9, 0x57D5DF7D, 0, hx("BBB057038809496BCFF86D6FBC8CE5B135A06B166054F2D565BE8ACE75DC851E0BCDD8F07141C495872FB5D8C0C66A8B6DA556663E4E461205D84580BEE5BC7E"), 511))
	// UEA2
	t.Logf("UEA2-1 %x", EEA1(hx("D3C5D592327FB11C4035C6680AF8C6D1"), 0x398A59B4, 0x15, 1, hx("981BA6824C1BFB1AB485472029B71D808CE33E2CC3C0B5FC1F3DE8A6DC66B1F0"), 253))
	t.Logf("want   5d5bfe75eb04f68ce0a12377ea00b37d47c6a0ba06309155086a859c4341b378")
	t.Logf("UEA2-2 %x", EEA1(hx("EFA8B2229E720C2A7C36EA55E9605695"), 0xE28BCF7B, 0x18, 0, hx("10111231E060253A43FD3F57E37607AB2827B599B6B1BBDA37A8ABCC5A8C550D1BFB2F494624FB50367FA36CE3BC68F11CF93B1510376B02130F812A9FA169D8"), 510))
	t.Logf("want   e0da15ca8e2554f5e56c9468dc6c7c129c568aa5032317e04e0729646cabefa689864c410f24f919e61e3dfdfad77e560db0a9cd36c34ae4181490b29f5fa2fc")
	// EEA2
	t.Logf("EEA2-1 %x", EEA2(hx("d3c5d592327fb11c4035c6680af8c6d1"), 0x398a59b4, 0x15, 1, hx("981ba6824c1bfb1ab485472029b71d808ce33e2cc3c0b5fc1f3de8a6dc66b1f0"), 253))
	t.Logf("want   e9fed8a63d155304d71df20bf3e82214b20ed7dad2f233dc3c22d7bdeeed8e78")
	t.Logf("EEA2-2 %x", EEA2(hx("2bd6459f82c5b300952c49104881ff48"), 0xc675a64b, 0x0c, 1, hx("7ec61272743bf1614726446a6c38ced166f6ca76eb5430044286346cef130f92922b03450d3a9975e5bd2ea0eb55ad8e1b199e3ec4316020e9a1b285e762795359b7bdfd39bef4b2484583d5afe082aee638bf5fd5a606193901a08f4ab41aab9b134880"), 798))
	t.Logf("want   5961605353c64bdca15b195e288553a910632506d6200aa790c4c806c99904cf2445cc50bb1cf168a49673734e081b57e324ce5259c0e78d4cd97b870976503c0943f2cb5ae8f052c7b7d392239587b8956086bcab18836042e2e6ce42432a17105c53d0")
	// EIA2
	t.Logf("EIA2-1 %x want 118c6eb8", EIA2(hx("2bd6459f82c5b300952c49104881ff48"), 0x38a6f056, 0x18, 0, hx("3332346263393840"), 58))
	for d := uint8(0); d < 2; d++ {
		t.Logf("EIA2-2 dir%d %x want 1f60b01d", d, EIA2(hx("7e5e94431e11d73828d739cc6ced4573"), 0x36af6144, 0x18, d, hx("b3d3c9170a4e1632f60f861013d22d84b726b6a278d802d1eeaf1321ba5929dc"), 254))
	}
	// Milenage
	for _, c := range []struct{ k, rand, sqn, amf, op string }{
		{"465b5ce8b199b49faa5f0a2ee238a6bc", "23553cbe9637a89d218ae64dae47bf35", "ff9bb4d0b607", "b9b9", "cdc202d5123e20f62b6d676ac72cb318"},
		{"0396eb317b6d1c36f19c1c84cd6ffd16", "c00d603103dcee52c4478119494202e8", "fd8eef40df7d", "af17", "ff53bade17df5d4e793073ce9d7579fa"},
		{"fec86ba6eb707ed08905757b1bb44b8f", "9f7c8d021accf4db213ccff0c7f71a6a", "9d0277595ffc", "725c", "dbc59adcb6f9a0ef735477b7fadf8374"},
	} {
		opc := ComputeOPc(hx(c.k), hx(c.op))
		a, s := F1(hx(c.k), opc, hx(c.rand), hx(c.sqn), hx(c.amf))
		res, ck, ik, ak, aks := F2345(hx(c.k), opc, hx(c.rand))
		t.Logf("opc=%x f1=%x f1*=%x f2=%x f5=%x f3=%x f4=%x f5*=%x", opc, a, s, res, ak, ck, ik, aks)
	}
}
