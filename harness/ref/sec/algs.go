package sec

import (
	"crypto/aes"
	"encoding/binary"
	"fmt"
)

// ---- helpers ----------------------------------------------------------

// takeBits returns a fresh copy of the first bitLen bits of data packed in
// ceil(bitLen/8) bytes, with the unused low-order bits of the last byte
// cleared.
func takeBits(data []byte, bitLen int) []byte {
	if bitLen < 0 || bitLen > len(data)*8 {
		panic(fmt.Sprintf("sec: bit length %d out of range for %d bytes", bitLen, len(data)))
	}
	n := (bitLen + 7) / 8
	out := append([]byte(nil), data[:n]...)
	if r := bitLen % 8; r != 0 {
		out[n-1] &= byte(0xFF) << uint(8-r)
	}
	return out
}

// applyKeystream XORs the first bitLen bits of data with ks and returns a
// slice of len(data) in which everything after bit bitLen is zero.
func applyKeystream(data []byte, bitLen int, ks []byte) []byte {
	in := takeBits(data, bitLen)
	out := make([]byte, len(data))
	for i := range in {
		out[i] = in[i] ^ ks[i]
	}
	if r := bitLen % 8; r != 0 {
		out[len(in)-1] &= byte(0xFF) << uint(8-r)
	}
	return out
}

func checkParams(key []byte, bearer, direction uint8) {
	mustLen("key", key, 16)
	if bearer > 0x1F {
		panic(fmt.Sprintf("sec: BEARER %d does not fit in 5 bits", bearer))
	}
	if direction > 1 {
		panic(fmt.Sprintf("sec: DIRECTION %d does not fit in 1 bit", direction))
	}
}

// snowKey maps a 128-bit key onto k0..k3 as in TS 35.215 3.4 / 4.4:
// K3 = bytes 0..3, K2 = bytes 4..7, K1 = bytes 8..11, K0 = bytes 12..15.
func snowKey(key []byte) [4]uint32 {
	return [4]uint32{
		binary.BigEndian.Uint32(key[12:16]),
		binary.BigEndian.Uint32(key[8:12]),
		binary.BigEndian.Uint32(key[4:8]),
		binary.BigEndian.Uint32(key[0:4]),
	}
}

// ---- UEA2 f8 / 128-EEA1 -----------------------------------------------

// EEA1 is 128-EEA1 (TS 33.401 B.1.2): UEA2 f8 of TS 35.215 clause 3 with
// the 5-bit BEARER and 1-bit DIRECTION.
func EEA1(key []byte, count uint32, bearer, direction uint8, data []byte, bitLen int) []byte {
	checkParams(key, bearer, direction)
	// IV3 = COUNT, IV2 = BEARER || DIRECTION || 0^26, IV1 = IV3, IV0 = IV2.
	w := uint32(bearer)<<27 | uint32(direction)<<26
	iv := [4]uint32{w, count, w, count}
	s := NewSnow3G(snowKey(key), iv)
	nWords := (bitLen + 31) / 32
	z := s.Keystream(nWords)
	ks := make([]byte, 4*nWords)
	for i, v := range z {
		binary.BigEndian.PutUint32(ks[4*i:], v)
	}
	return applyKeystream(data, bitLen, ks)
}

// ---- UIA2 f9 / 128-EIA1 -----------------------------------------------

// mul64x is MULx of TS 35.215 4.3.1 over 64-bit values.
func mul64x(v, c uint64) uint64 {
	if v&0x8000000000000000 != 0 {
		return v<<1 ^ c
	}
	return v << 1
}

// mul64 is MUL(V, P, c) of TS 35.215 4.3.3: multiplication in GF(2^64)
// with the reduction x^64 + x^4 + x^3 + x + 1 for c = 0x1B.
func mul64(v, p, c uint64) uint64 {
	var result uint64
	x := v // V * x^i
	for i := 0; i < 64; i++ {
		if p>>uint(i)&1 != 0 {
			result ^= x
		}
		x = mul64x(x, c)
	}
	return result
}

// uia2 is f9 of TS 35.215 clause 4 with a full 32-bit FRESH.
func uia2(key []byte, count, fresh uint32, direction uint8, msg []byte, bitLen int) []byte {
	mustLen("key", key, 16)
	if direction > 1 {
		panic("sec: DIRECTION does not fit in 1 bit")
	}
	dir := uint32(direction)
	// IV3 = COUNT, IV2 = FRESH, IV1 = COUNT with DIRECTION xored into its
	// most significant bit, IV0 = FRESH with DIRECTION xored into bit 15.
	iv := [4]uint32{fresh ^ dir<<15, count ^ dir<<31, fresh, count}
	z := NewSnow3G(snowKey(key), iv).Keystream(5)
	p := uint64(z[0])<<32 | uint64(z[1])
	q := uint64(z[2])<<32 | uint64(z[3])
	otp := z[4]

	// Message blocks M0..M(D-2), zero padded; M(D-1) = LENGTH.
	m := takeBits(msg, bitLen)
	nBlocks := (bitLen + 63) / 64
	padded := make([]byte, 8*nBlocks)
	copy(padded, m)

	var eval uint64
	for i := 0; i < nBlocks; i++ {
		eval = mul64(eval^binary.BigEndian.Uint64(padded[8*i:]), p, 0x1B)
	}
	eval ^= uint64(bitLen)
	eval = mul64(eval, q, 0x1B)

	mac := make([]byte, 4)
	binary.BigEndian.PutUint32(mac, uint32(eval>>32)^otp)
	return mac
}

// EIA1 is 128-EIA1 (TS 33.401 B.2.2): UIA2 f9 with
// FRESH = BEARER || 0^27.
func EIA1(key []byte, count uint32, bearer, direction uint8, msg []byte, bitLen int) []byte {
	checkParams(key, bearer, direction)
	return uia2(key, count, uint32(bearer)<<27, direction, msg, bitLen)
}

// ---- 128-EEA2: AES-128 in CTR mode ------------------------------------

// EEA2 is 128-EEA2 (TS 33.401 B.1.3). The initial counter block is
// COUNT || BEARER || DIRECTION || 0^26 || 0^64 and is incremented as a
// 128-bit big-endian integer.
func EEA2(key []byte, count uint32, bearer, direction uint8, data []byte, bitLen int) []byte {
	checkParams(key, bearer, direction)
	blk, err := aes.NewCipher(key)
	if err != nil {
		panic(err)
	}
	ctr := make([]byte, 16)
	binary.BigEndian.PutUint32(ctr[0:4], count)
	ctr[4] = bearer<<3 | direction<<2

	nBytes := (bitLen + 7) / 8
	ks := make([]byte, 0, nBytes+16)
	tmp := make([]byte, 16)
	for len(ks) < nBytes {
		blk.Encrypt(tmp, ctr)
		ks = append(ks, tmp...)
		for i := 15; i >= 0; i-- {
			ctr[i]++
			if ctr[i] != 0 {
				break
			}
		}
	}
	return applyKeystream(data, bitLen, ks)
}

// ---- AES-CMAC (RFC 4493 / NIST SP 800-38B) ----------------------------

// dbl128 multiplies a 128-bit value by x in GF(2^128) with R128 = 0x87.
func dbl128(in []byte) []byte {
	out := make([]byte, 16)
	var carry byte
	for i := 15; i >= 0; i-- {
		out[i] = in[i]<<1 | carry
		carry = in[i] >> 7
	}
	if carry != 0 {
		out[15] ^= 0x87
	}
	return out
}

// cmacBits computes the 128-bit AES-CMAC over the first bitLen bits of msg
// (SP 800-38B permits messages that are not a whole number of octets).
func cmacBits(key, msg []byte, bitLen int) []byte {
	mustLen("key", key, 16)
	blk, err := aes.NewCipher(key)
	if err != nil {
		panic(err)
	}
	m := takeBits(msg, bitLen)

	l := make([]byte, 16)
	blk.Encrypt(l, l)
	k1 := dbl128(l)
	k2 := dbl128(k1)

	n := (bitLen + 127) / 128
	complete := n > 0 && bitLen%128 == 0
	if n == 0 {
		n = 1
	}

	last := make([]byte, 16)
	copy(last, m[16*(n-1):])
	if complete {
		last = xorBytes(last, k1)
	} else {
		r := bitLen - 128*(n-1) // number of message bits in the last block
		last[r/8] |= 0x80 >> uint(r%8)
		last = xorBytes(last, k2)
	}

	x := make([]byte, 16)
	for i := 0; i < n-1; i++ {
		x = xorBytes(x, m[16*i:16*i+16])
		blk.Encrypt(x, x)
	}
	x = xorBytes(x, last)
	blk.Encrypt(x, x)
	return x
}

// aesCMAC is AES-CMAC over an octet string.
func aesCMAC(key, msg []byte) []byte { return cmacBits(key, msg, 8*len(msg)) }

// EIA2 is 128-EIA2 (TS 33.401 B.2.3): the 32 most significant bits of
// AES-CMAC over COUNT || BEARER || DIRECTION || 0^26 || MESSAGE.
func EIA2(key []byte, count uint32, bearer, direction uint8, msg []byte, bitLen int) []byte {
	checkParams(key, bearer, direction)
	body := takeBits(msg, bitLen)
	m := make([]byte, 8, 8+len(body))
	binary.BigEndian.PutUint32(m[0:4], count)
	m[4] = bearer<<3 | direction<<2
	m = append(m, body...)
	t := cmacBits(key, m, 64+bitLen)
	return append([]byte(nil), t[:4]...)
}

// ---- 5G NAS wrappers ---------------------------------------------------

// NEA applies 5G NAS ciphering algorithm alg (0 = NEA0 null, 1 = 128-NEA1,
// 2 = 128-NEA2) to an octet-aligned message.
func NEA(alg uint8, key []byte, count uint32, bearer, direction uint8, data []byte) ([]byte, error) {
	switch alg {
	case 0:
		return append([]byte{}, data...), nil
	case 1:
		return EEA1(key, count, bearer, direction, data, 8*len(data)), nil
	case 2:
		return EEA2(key, count, bearer, direction, data, 8*len(data)), nil
	}
	return nil, fmt.Errorf("sec: unsupported NEA algorithm %d", alg)
}

// NIA computes the 32-bit MAC with 5G NAS integrity algorithm alg (0 = NIA0
// null, all-zero MAC; 1 = 128-NIA1; 2 = 128-NIA2) over an octet-aligned
// message.
func NIA(alg uint8, key []byte, count uint32, bearer, direction uint8, msg []byte) ([]byte, error) {
	switch alg {
	case 0:
		return make([]byte, 4), nil
	case 1:
		return EIA1(key, count, bearer, direction, msg, 8*len(msg)), nil
	case 2:
		return EIA2(key, count, bearer, direction, msg, 8*len(msg)), nil
	}
	return nil, fmt.Errorf("sec: unsupported NIA algorithm %d", alg)
}

// ---- helpers for monitors that aim a message at particular field elements of 128-EIA1's evaluation

// EIA1Params returns P and Q (the first four keystream words) of the 128-EIA1 evaluation for these parameters.
func EIA1Params(key []byte, count uint32, bearer, direction uint8) (p, q uint64) {
	checkParams(key, bearer, direction)
	dir := uint32(direction)
	fresh := uint32(bearer) << 27
	iv := [4]uint32{fresh ^ dir<<15, count ^ dir<<31, fresh, count}
	z := NewSnow3G(snowKey(key), iv).Keystream(5)
	return uint64(z[0])<<32 | uint64(z[1]), uint64(z[2])<<32 | uint64(z[3])
}

// GF64Mul multiplies in GF(2^64) modulo x^64 + x^4 + x^3 + x + 1.
func GF64Mul(a, b uint64) uint64 { return mul64(a, b, 0x1B) }

// GF64Inv is the multiplicative inverse (a^(2^64-2)); 0 for 0.
func GF64Inv(a uint64) uint64 {
	r, sq := uint64(1), a
	for i := 1; i < 64; i++ { // exponent 2^64-2 = sum of 2^i for i = 1..63
		sq = mul64(sq, sq, 0x1B)
		r = mul64(r, sq, 0x1B)
	}
	return r
}
