package sec

import "testing"

func TestSelfTest(t *testing.T) {
	if err := SelfTest(); err != nil {
		t.Fatal(err)
	}
}

func countTrue(b []bool) int {
	n := 0
	for _, v := range b {
		if v {
			n++
		}
	}
	return n
}

func TestSnowCoverage(t *testing.T) {
	SnowCoverageReset()
	sr, sq, mul, div := SnowCoverage()
	for i := 0; i < 4; i++ {
		if countTrue(sr[i][:]) != 0 || countTrue(sq[i][:]) != 0 {
			t.Fatal("coverage not empty after reset")
		}
	}
	if countTrue(mul[:]) != 0 || countTrue(div[:]) != 0 {
		t.Fatal("coverage not empty after reset")
	}

	// SelfTest must leave the counters as it found them.
	if err := SelfTest(); err != nil {
		t.Fatal(err)
	}
	sr, _, mul, _ = SnowCoverage()
	if countTrue(sr[0][:]) != 0 || countTrue(mul[:]) != 0 {
		t.Fatal("SelfTest disturbed the coverage counters")
	}

	// One initialisation touches something but not everything ...
	s := NewSnow3G([4]uint32{1, 2, 3, 4}, [4]uint32{5, 6, 7, 8})
	sr, sq, mul, div = SnowCoverage()
	if n := countTrue(mul[:]); n == 0 || n > 33 {
		t.Fatalf("MULalpha coverage after init: %d", n)
	}
	// ... and a long keystream touches every table entry.
	s.Keystream(20000)
	sr, sq, mul, div = SnowCoverage()
	for i := 0; i < 4; i++ {
		if countTrue(sr[i][:]) != 256 || countTrue(sq[i][:]) != 256 {
			t.Fatalf("byte position %d: S_R %d S_Q %d of 256", i, countTrue(sr[i][:]), countTrue(sq[i][:]))
		}
	}
	if countTrue(mul[:]) != 256 || countTrue(div[:]) != 256 {
		t.Fatalf("MULalpha %d DIValpha %d of 256", countTrue(mul[:]), countTrue(div[:]))
	}
	SnowCoverageReset()
}

func BenchmarkEEA1_1500(b *testing.B) {
	key := make([]byte, 16)
	data := make([]byte, 1500)
	b.SetBytes(1500)
	for i := 0; i < b.N; i++ {
		EEA1(key, uint32(i), 1, 0, data, 8*len(data))
	}
}

func BenchmarkEIA2_1500(b *testing.B) {
	key := make([]byte, 16)
	data := make([]byte, 1500)
	b.SetBytes(1500)
	for i := 0; i < b.N; i++ {
		EIA2(key, uint32(i), 1, 0, data, 8*len(data))
	}
}
