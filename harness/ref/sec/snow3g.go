package sec

// SNOW 3G, TS 35.216 (ETSI/SAGE "Document 2: SNOW 3G Specification").
//
// All four lookup structures (S_R, S_Q, MULalpha, DIValpha) are computed at
// package initialisation from their algebraic definitions; no table is
// pasted from anywhere.

// gfMul multiplies a and b in GF(2^8) = GF(2)[x]/(poly); poly is the full
// 9-bit reduction polynomial (e.g. 0x11B).
func gfMul(a, b byte, poly uint16) byte {
	var acc uint16
	aa := uint16(a)
	for i := 0; i < 8; i++ {
		if b&(1<<uint(i)) != 0 {
			acc ^= aa
		}
		aa <<= 1
		if aa&0x100 != 0 {
			aa ^= poly
		}
	}
	return byte(acc)
}

// gfPow computes a^n in GF(2^8)/(poly) by square and multiply.
func gfPow(a byte, n int, poly uint16) byte {
	result := byte(1)
	base := a
	for n > 0 {
		if n&1 != 0 {
			result = gfMul(result, base, poly)
		}
		base = gfMul(base, base, poly)
		n >>= 1
	}
	return result
}

func rotl8(b byte, n uint) byte { return b<<n | b>>(8-n) }

var (
	snowSR   [256]byte   // Rijndael S-box
	snowSQ   [256]byte   // S-box derived from the Dickson polynomial g49
	snowMULa [256]uint32 // MULalpha
	snowDIVa [256]uint32 // DIValpha
)

func init() {
	for i := 0; i < 256; i++ {
		x := byte(i)

		// S_R: multiplicative inverse in GF(2^8)/0x11B (0 -> 0) followed by
		// the Rijndael affine transformation.
		inv := byte(0)
		if x != 0 {
			inv = gfPow(x, 254, 0x11B)
		}
		snowSR[i] = inv ^ rotl8(inv, 1) ^ rotl8(inv, 2) ^ rotl8(inv, 3) ^ rotl8(inv, 4) ^ 0x63

		// S_Q: g49(x) xor 0x25 with
		// g49(x) = x + x^9 + x^13 + x^15 + x^33 + x^41 + x^45 + x^47 + x^49
		// over GF(2^8) defined by x^8 + x^6 + x^5 + x^3 + 1 (0x169).
		var g byte
		for _, e := range [...]int{1, 9, 13, 15, 33, 41, 45, 47, 49} {
			if x != 0 {
				g ^= gfPow(x, e, 0x169)
			}
		}
		snowSQ[i] = g ^ 0x25

		// MULalpha / DIValpha over GF(2^8) defined by
		// x^8 + x^7 + x^5 + x^3 + 1 (0x1A9), beta = 0x02.
		const p = 0x1A9
		snowMULa[i] = uint32(gfMul(x, gfPow(2, 23, p), p))<<24 |
			uint32(gfMul(x, gfPow(2, 245, p), p))<<16 |
			uint32(gfMul(x, gfPow(2, 48, p), p))<<8 |
			uint32(gfMul(x, gfPow(2, 239, p), p))
		snowDIVa[i] = uint32(gfMul(x, gfPow(2, 16, p), p))<<24 |
			uint32(gfMul(x, gfPow(2, 39, p), p))<<16 |
			uint32(gfMul(x, gfPow(2, 6, p), p))<<8 |
			uint32(gfMul(x, gfPow(2, 64, p), p))
	}
}

// ---- coverage ---------------------------------------------------------

var (
	covSR  [4][256]bool
	covSQ  [4][256]bool
	covMul [256]bool
	covDiv [256]bool
)

// SnowCoverageReset clears the SNOW 3G table coverage flags.
func SnowCoverageReset() {
	covSR = [4][256]bool{}
	covSQ = [4][256]bool{}
	covMul = [256]bool{}
	covDiv = [256]bool{}
}

// SnowCoverage reports which inputs of S_R and S_Q (per byte position,
// index 0 = most significant byte of the 32-bit word), MULalpha and DIValpha
// have been exercised since the last reset. Not goroutine-safe.
func SnowCoverage() (sr [4][256]bool, sq [4][256]bool, mul [256]bool, div [256]bool) {
	return covSR, covSQ, covMul, covDiv
}

// ---- the cipher -------------------------------------------------------

// mulx is MULx(V, c) of TS 35.216 3.1.1.
func mulx(v, c byte) byte {
	if v&0x80 != 0 {
		return v<<1 ^ c
	}
	return v << 1
}

// sboxWord applies the common structure of S1 and S2 (TS 35.216 3.3):
// a byte substitution followed by the MixColumn of Rijndael, expressed with
// MULx and constant c.
func sboxWord(w uint32, box *[256]byte, c byte, cov *[4][256]bool) uint32 {
	w0, w1, w2, w3 := byte(w>>24), byte(w>>16), byte(w>>8), byte(w)
	cov[0][w0], cov[1][w1], cov[2][w2], cov[3][w3] = true, true, true, true
	b0, b1, b2, b3 := box[w0], box[w1], box[w2], box[w3]
	r0 := mulx(b0, c) ^ b1 ^ b2 ^ mulx(b3, c) ^ b3
	r1 := mulx(b0, c) ^ b0 ^ mulx(b1, c) ^ b2 ^ b3
	r2 := b0 ^ mulx(b1, c) ^ b1 ^ mulx(b2, c) ^ b3
	r3 := b0 ^ b1 ^ mulx(b2, c) ^ b2 ^ mulx(b3, c)
	return uint32(r0)<<24 | uint32(r1)<<16 | uint32(r2)<<8 | uint32(r3)
}

func s1(w uint32) uint32 { return sboxWord(w, &snowSR, 0x1B, &covSR) }
func s2(w uint32) uint32 { return sboxWord(w, &snowSQ, 0x69, &covSQ) }

func mulAlpha(c byte) uint32 { covMul[c] = true; return snowMULa[c] }
func divAlpha(c byte) uint32 { covDiv[c] = true; return snowDIVa[c] }

// Snow3G is the state of one SNOW 3G instance.
type Snow3G struct {
	s          [16]uint32
	r1, r2, r3 uint32
}

// clockFSM clocks the FSM and returns its output word F (TS 35.216 3.4.6).
func (s *Snow3G) clockFSM() uint32 {
	f := (s.s[15] + s.r1) ^ s.r2
	r := s.r2 + (s.r3 ^ s.s[5])
	s.r3 = s2(s.r2)
	s.r2 = s1(s.r1)
	s.r1 = r
	return f
}

// clockLFSR clocks the LFSR; f is the FSM word consumed in initialisation
// mode and must be 0 in keystream mode (TS 35.216 3.4.4 / 3.4.5).
func (s *Snow3G) clockLFSR(f uint32) {
	s0, s11 := s.s[0], s.s[11]
	v := s0<<8 ^ mulAlpha(byte(s0>>24)) ^ s.s[2] ^ s11>>8 ^ divAlpha(byte(s11)) ^ f
	copy(s.s[0:15], s.s[1:16])
	s.s[15] = v
}

// NewSnow3G performs Initialize(k, IV) of TS 35.216 4.1 (including the
// keystream-mode clock whose FSM output is discarded), so that the next
// word produced is z1. key is k0..k3 and iv is IV0..IV3.
func NewSnow3G(key, iv [4]uint32) *Snow3G {
	const ones = 0xFFFFFFFF
	k0, k1, k2, k3 := key[0], key[1], key[2], key[3]
	s := &Snow3G{}
	s.s[15] = k3 ^ iv[0]
	s.s[14] = k2
	s.s[13] = k1
	s.s[12] = k0 ^ iv[1]
	s.s[11] = k3 ^ ones
	s.s[10] = k2 ^ ones ^ iv[2]
	s.s[9] = k1 ^ ones ^ iv[3]
	s.s[8] = k0 ^ ones
	s.s[7] = k3
	s.s[6] = k2
	s.s[5] = k1
	s.s[4] = k0
	s.s[3] = k3 ^ ones
	s.s[2] = k2 ^ ones
	s.s[1] = k1 ^ ones
	s.s[0] = k0 ^ ones
	for i := 0; i < 32; i++ {
		f := s.clockFSM()
		s.clockLFSR(f)
	}
	// 4.2: the FSM is clocked once, its output discarded, then the LFSR is
	// clocked once in keystream mode.
	s.clockFSM()
	s.clockLFSR(0)
	return s
}

// Keystream produces the next n 32-bit keystream words.
func (s *Snow3G) Keystream(n int) []uint32 {
	z := make([]uint32, n)
	for t := 0; t < n; t++ {
		f := s.clockFSM()
		z[t] = f ^ s.s[0]
		s.clockLFSR(0)
	}
	return z
}
