package per

import "testing"

func TestSelfTest(t *testing.T) {
	if err := SelfTest(); err != nil {
		t.Fatal(err)
	}
}
