package per

import (
	"fmt"
	"reflect"
)

// ---------------------------------------------------------------- bit reader

type bitReader struct {
	buf []byte
	pos int // bit position
}

type DecodeError struct{ Msg string }

func (e *DecodeError) Error() string { return "per decode: " + e.Msg }

func derr(format string, a ...any) error { return &DecodeError{fmt.Sprintf(format, a...)} }

func (r *bitReader) remaining() int { return len(r.buf)*8 - r.pos }

func (r *bitReader) getBits(n int) (uint64, error) {
	if n < 0 || n > 64 {
		return 0, derr("bad bit count %d", n)
	}
	if r.remaining() < n {
		return 0, derr("truncated: need %d bits at bit %d, have %d", n, r.pos, r.remaining())
	}
	var v uint64
	for i := 0; i < n; i++ {
		b := (r.buf[r.pos>>3] >> (7 - uint(r.pos&7))) & 1
		v = v<<1 | uint64(b)
		r.pos++
	}
	return v, nil
}

func (r *bitReader) align() { r.pos = (r.pos + 7) &^ 7 }

func (r *bitReader) getOctets(n int) ([]byte, error) {
	if n < 0 || r.remaining() < n*8 {
		return nil, derr("truncated: need %d octets at bit %d, have %d bits", n, r.pos, r.remaining())
	}
	out := make([]byte, n)
	if r.pos&7 == 0 {
		copy(out, r.buf[r.pos>>3:])
		r.pos += n * 8
		return out, nil
	}
	for i := range out {
		v, _ := r.getBits(8)
		out[i] = byte(v)
	}
	return out, nil
}

func (r *bitReader) getBitField(n int) ([]byte, error) {
	if n < 0 || r.remaining() < n {
		return nil, derr("truncated: need %d bits at bit %d, have %d", n, r.pos, r.remaining())
	}
	out := make([]byte, (n+7)/8)
	for i := 0; i < n; i++ {
		b := (r.buf[r.pos>>3] >> (7 - uint(r.pos&7))) & 1
		out[i>>3] |= b << (7 - uint(i&7))
		r.pos++
	}
	return out, nil
}

func (r *bitReader) constrainedWholeNumber(lb, ub int64) (int64, error) {
	rng := uint64(ub-lb) + 1
	var off uint64
	var err error
	switch {
	case rng == 1:
		return lb, nil
	case rng <= 255:
		off, err = r.getBits(bitsFor(rng - 1))
	case rng == 256:
		r.align()
		off, err = r.getBits(8)
	case rng <= 65536:
		r.align()
		off, err = r.getBits(16)
	default:
		maxLen := octetsFor(rng - 1)
		var n int64
		n, err = r.constrainedWholeNumber(1, int64(maxLen))
		if err != nil {
			return 0, err
		}
		r.align()
		off, err = r.getBits(int(n) * 8)
	}
	if err != nil {
		return 0, err
	}
	if off > uint64(ub-lb) {
		return 0, derr("constrained whole number offset %d outside range %d..%d", off, lb, ub)
	}
	return lb + int64(off), nil
}

// generalLength reads one general length determinant; more reports a 16K-multiple fragment.
func (r *bitReader) generalLength() (n int, more bool, err error) {
	r.align()
	b, err := r.getBits(8)
	if err != nil {
		return 0, false, err
	}
	switch {
	case b&0x80 == 0:
		return int(b), false, nil
	case b&0xC0 == 0x80:
		lo, err := r.getBits(8)
		if err != nil {
			return 0, false, err
		}
		return int(b&0x3f)<<8 | int(lo), false, nil
	default:
		m := int(b & 0x3f)
		if m < 1 || m > 4 {
			return 0, false, derr("bad fragment multiplier %d", m)
		}
		return m * 16384, true, nil
	}
}

// readFragmented reads a (possibly fragmented) general-length item list; get is called per fragment.
func (r *bitReader) readFragmented(get func(n int) error) error {
	for {
		n, more, err := r.generalLength()
		if err != nil {
			return err
		}
		if n > 0 {
			if err := get(n); err != nil {
				return err
			}
		}
		if !more {
			return nil
		}
	}
}

// ---------------------------------------------------------------- decoder

// Unmarshal decodes a complete ALIGNED PER encoding into the value pointed to by ptr.
func Unmarshal(b []byte, ptr any, topTag string) error {
	p, err := ParseTag(topTag)
	if err != nil {
		return &SchemaError{err.Error()}
	}
	v := reflect.ValueOf(ptr)
	if v.Kind() != reflect.Ptr || v.IsNil() {
		return serr("Unmarshal needs a non-nil pointer")
	}
	r := &bitReader{buf: b}
	if err := decode(r, v.Elem(), p, "$"); err != nil {
		return err
	}
	if rem := r.remaining(); rem >= 8 {
		return derr("%d unread octets after the value", rem/8)
	}
	return nil
}

func decode(r *bitReader, v reflect.Value, p Params, path string) error {
	if v.Kind() == reflect.Ptr {
		if v.IsNil() {
			v.Set(reflect.New(v.Type().Elem()))
		}
		return decode(r, v.Elem(), p, path)
	}
	t := v.Type()
	switch kindOf(t) {
	case kBool:
		b, err := r.getBits(1)
		if err != nil {
			return err
		}
		v.SetBool(b == 1)
		return nil
	case kInteger:
		x, err := decInteger(r, p, path)
		if err != nil {
			return err
		}
		v.SetInt(x)
		return nil
	case kEnumerated:
		if p.ValueLB == nil || p.ValueUB == nil {
			return serr("%s: ENUMERATED without bounds", path)
		}
		if p.ValueExt {
			e, err := r.getBits(1)
			if err != nil {
				return err
			}
			if e == 1 {
				return derr("%s: ENUMERATED extension addition is not expressible", path)
			}
		}
		x, err := r.constrainedWholeNumber(*p.ValueLB, *p.ValueUB)
		if err != nil {
			return err
		}
		v.SetUint(uint64(x))
		return nil
	case kBitString:
		b, n, err := decBitString(r, p, path)
		if err != nil {
			return err
		}
		v.Field(0).SetBytes(b)
		v.Field(1).SetUint(uint64(n))
		return nil
	case kOctetString:
		b, err := decOctets(r, p, path)
		if err != nil {
			return err
		}
		v.SetBytes(b)
		return nil
	case kString:
		b, err := decOctets(r, p, path)
		if err != nil {
			return err
		}
		v.SetString(string(b))
		return nil
	case kSequenceOf:
		return decSequenceOf(r, v, p, path)
	case kChoice:
		if p.OpenType {
			return decOpenType(r, v, p, path)
		}
		return decChoice(r, v, p, path)
	case kSequence:
		return decSequence(r, v, p, path)
	}
	return serr("%s: unsupported Go type %s", path, t)
}

func decInteger(r *bitReader, p Params, path string) (int64, error) {
	hasLB, hasUB := p.ValueLB != nil, p.ValueUB != nil
	unconstrained := func() (int64, error) {
		n, more, err := r.generalLength()
		if err != nil {
			return 0, err
		}
		if more || n < 1 || n > 8 {
			return 0, derr("%s: INTEGER of %d octets", path, n)
		}
		oct, err := r.getOctets(n)
		if err != nil {
			return 0, err
		}
		x := int64(int8(oct[0]))
		for _, b := range oct[1:] {
			x = x<<8 | int64(b)
		}
		return x, nil
	}
	if p.ValueExt {
		e, err := r.getBits(1)
		if err != nil {
			return 0, err
		}
		if e == 1 {
			return unconstrained()
		}
	}
	switch {
	case hasLB && hasUB:
		return r.constrainedWholeNumber(*p.ValueLB, *p.ValueUB)
	case hasLB:
		n, more, err := r.generalLength()
		if err != nil {
			return 0, err
		}
		if more || n < 1 || n > 8 {
			return 0, derr("%s: semi-constrained INTEGER of %d octets", path, n)
		}
		off, err := r.getBits(n * 8)
		if err != nil {
			return 0, err
		}
		return *p.ValueLB + int64(off), nil
	}
	return unconstrained()
}

func sizeRoot(p Params) (constrained bool, lb, ub int64) {
	lb, ub = 0, -1
	if p.SizeLB != nil {
		lb = *p.SizeLB
	}
	if p.SizeUB != nil {
		ub = *p.SizeUB
	}
	return ub >= 0 && ub < 65536, lb, ub
}

func decOctets(r *bitReader, p Params, path string) ([]byte, error) {
	constrained, lb, ub := sizeRoot(p)
	frag := func() ([]byte, error) {
		var out []byte
		err := r.readFragmented(func(n int) error {
			r.align()
			b, err := r.getOctets(n)
			out = append(out, b...)
			return err
		})
		if out == nil {
			out = []byte{}
		}
		return out, err
	}
	if p.SizeExt {
		e, err := r.getBits(1)
		if err != nil {
			return nil, err
		}
		if e == 1 {
			return frag()
		}
	}
	if constrained && lb == ub {
		if ub > 2 {
			r.align()
		}
		return r.getOctets(int(ub))
	}
	if constrained {
		n, err := r.constrainedWholeNumber(lb, ub)
		if err != nil {
			return nil, err
		}
		if n > 0 {
			r.align()
		}
		return r.getOctets(int(n))
	}
	return frag()
}

func decBitString(r *bitReader, p Params, path string) ([]byte, int, error) {
	constrained, lb, ub := sizeRoot(p)
	frag := func() ([]byte, int, error) {
		var out []byte
		total := 0
		err := r.readFragmented(func(n int) error {
			r.align()
			b, err := r.getBitField(n)
			out = append(out, b...) // every non-final fragment is a multiple of 16K bits
			total += n
			return err
		})
		if out == nil {
			out = []byte{}
		}
		return out, total, err
	}
	if p.SizeExt {
		e, err := r.getBits(1)
		if err != nil {
			return nil, 0, err
		}
		if e == 1 {
			return frag()
		}
	}
	if constrained && lb == ub {
		if ub > 16 {
			r.align()
		}
		b, err := r.getBitField(int(ub))
		return b, int(ub), err
	}
	if constrained {
		n, err := r.constrainedWholeNumber(lb, ub)
		if err != nil {
			return nil, 0, err
		}
		if n > 0 {
			r.align()
		}
		b, err := r.getBitField(int(n))
		return b, int(n), err
	}
	return frag()
}

func decSequenceOf(r *bitReader, v reflect.Value, p Params, path string) error {
	constrained, lb, ub := sizeRoot(p)
	ep := p
	ep.SizeExt, ep.SizeLB, ep.SizeUB, ep.Optional = false, nil, nil, false
	out := reflect.MakeSlice(v.Type(), 0, 0)
	readN := func(n int) error {
		if n > r.remaining()+1 && n > 1<<16 {
			return derr("%s: SEQUENCE OF count %d exceeds the input", path, n)
		}
		for i := 0; i < n; i++ {
			e := reflect.New(v.Type().Elem()).Elem()
			if err := decode(r, e, ep, fmt.Sprintf("%s[%d]", path, out.Len())); err != nil {
				return err
			}
			out = reflect.Append(out, e)
		}
		return nil
	}
	done := func(err error) error {
		if err == nil {
			v.Set(out)
		}
		return err
	}
	if p.SizeExt {
		e, err := r.getBits(1)
		if err != nil {
			return err
		}
		if e == 1 {
			return done(r.readFragmented(readN))
		}
	}
	if constrained {
		n, err := r.constrainedWholeNumber(lb, ub)
		if err != nil {
			return err
		}
		return done(readN(int(n)))
	}
	return done(r.readFragmented(readN))
}

func decChoice(r *bitReader, v reflect.Value, p Params, path string) error {
	t := v.Type()
	nAlt := t.NumField() - 1
	if nAlt == 0 {
		return derr("%s: CHOICE %s has no alternatives", path, t.Name())
	}
	if p.ValueUB == nil || int(*p.ValueUB)+1 != nAlt {
		return serr("%s: CHOICE %s: tag does not match %d alternatives", path, t.Name(), nAlt)
	}
	if p.ValueExt {
		e, err := r.getBits(1)
		if err != nil {
			return err
		}
		if e == 1 {
			return derr("%s: CHOICE extension addition is not expressible", path)
		}
	}
	idx, err := r.constrainedWholeNumber(0, int64(nAlt-1))
	if err != nil {
		return err
	}
	present := int(idx) + 1
	v.Field(0).SetInt(int64(present))
	fp, err := ParseTag(FieldTag(t, present))
	if err != nil {
		return &SchemaError{err.Error()}
	}
	return decode(r, v.Field(present), fp, path+"."+t.Field(present).Name)
}

func decSequence(r *bitReader, v reflect.Value, p Params, path string) error {
	t := v.Type()
	if p.ValueExt {
		e, err := r.getBits(1)
		if err != nil {
			return err
		}
		if e == 1 {
			return derr("%s: SEQUENCE extension additions are not expressible", path)
		}
	}
	n := t.NumField()
	fps := make([]Params, n)
	present := make([]bool, n)
	for i := 0; i < n; i++ {
		fp, err := ParseTag(FieldTag(t, i))
		if err != nil {
			return &SchemaError{err.Error()}
		}
		fps[i] = fp
		present[i] = true
		if fp.Optional {
			b, err := r.getBits(1)
			if err != nil {
				return err
			}
			present[i] = b == 1
		}
	}
	for i := 0; i < n; i++ {
		if !present[i] {
			continue
		}
		fp := fps[i]
		if fp.OpenType {
			idx := -1
			for j := 0; j < i; j++ {
				if t.Field(j).Name == fp.RefFieldName {
					idx = j
				}
			}
			if idx < 0 {
				return serr("%s.%s: open type refers to unknown component", path, t.Field(i).Name)
			}
			ref, err := referenceValue(v.Field(idx))
			if err != nil {
				return serr("%s.%s: %v", path, t.Field(i).Name, err)
			}
			fp.RefFieldValue = &ref
		}
		if err := decode(r, v.Field(i), fp, path+"."+t.Field(i).Name); err != nil {
			return err
		}
	}
	return nil
}

// UnknownOpenType is returned when the identifier selects no alternative known to the Go type.
type UnknownOpenType struct {
	Path string
	ID   int64
}

func (e *UnknownOpenType) Error() string {
	return fmt.Sprintf("per decode: %s: identifier %d has no alternative in the schema", e.Path, e.ID)
}

func decOpenType(r *bitReader, v reflect.Value, p Params, path string) error {
	t := v.Type()
	if p.RefFieldValue == nil {
		return serr("%s: open type without reference value", path)
	}
	var body []byte
	if err := r.readFragmented(func(n int) error {
		r.align()
		b, err := r.getOctets(n)
		body = append(body, b...)
		return err
	}); err != nil {
		return err
	}
	for i := 1; i < t.NumField(); i++ {
		fp, err := ParseTag(FieldTag(t, i))
		if err != nil {
			return &SchemaError{err.Error()}
		}
		if fp.RefFieldValue != nil && *fp.RefFieldValue == *p.RefFieldValue {
			v.Field(0).SetInt(int64(i))
			fp.RefFieldValue = nil
			inner := &bitReader{buf: body}
			if err := decode(inner, v.Field(i), fp, path+"."+t.Field(i).Name); err != nil {
				return err
			}
			if inner.remaining() >= 8 {
				return derr("%s.%s: %d unread octets inside the open type", path, t.Field(i).Name, inner.remaining()/8)
			}
			return nil
		}
	}
	return &UnknownOpenType{Path: path, ID: *p.RefFieldValue}
}
