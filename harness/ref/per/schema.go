package per

import (
	_ "embed"
	"encoding/json"
	"reflect"
	"sort"
	"strings"
	"sync"
)

// The constraint metadata of the NGAP types lives in struct tags of the code under test. The library's encoder and
// decoder read them, and a reference that read them too would follow every change of a tag: a constraint altered in
// ngapType (INTEGER (0..255) turned into (0..256), an OPTIONAL dropped) would change library and reference alike.
// The reference therefore works from a SNAPSHOT of the tags (ngap_schema_snapshot.json), taken from the pinned tree
// after the tag defects found by C03 / C04 had been repaired and the emulator-path types had been compared with
// TS 38.413 by hand (checks/c03.go schemaTable). Types that are not in the snapshot fall back to their live tag.
//
//go:embed ngap_schema_snapshot.json
var snapshotJSON []byte

var (
	snapOnce sync.Once
	snap     map[string]string
)

func loadSnap() {
	snapOnce.Do(func() {
		snap = map[string]string{}
		if len(snapshotJSON) > 2 {
			json.Unmarshal(snapshotJSON, &snap)
		}
	})
}

func snapKey(t reflect.Type, i int) (string, bool) {
	if t.Name() == "" || !strings.HasSuffix(t.PkgPath(), "ngap/ngapType") {
		return "", false
	}
	return t.Name() + "." + t.Field(i).Name, true
}

// LiveTag is the aper tag as the code under test declares it now.
func LiveTag(t reflect.Type, i int) string { return t.Field(i).Tag.Get("aper") }

// FieldTag is the aper tag the REFERENCE uses for field i of struct type t: the snapshot's, if it has one.
func FieldTag(t reflect.Type, i int) string {
	loadSnap()
	if k, ok := snapKey(t, i); ok {
		if s, ok := snap[k]; ok {
			return s
		}
	}
	return LiveTag(t, i)
}

// SnapshotSize reports how many fields the snapshot describes.
func SnapshotSize() int { loadSnap(); return len(snap) }

// SchemaDrift lists the fields (reachable from the given root types) whose live tag differs from the snapshot, as
// "Type.Field: snapshot <a> live <b>", compared after normalisation of the tag text.
func SchemaDrift(roots ...reflect.Type) []string {
	loadSnap()
	seen := map[reflect.Type]bool{}
	var out []string
	var walk func(t reflect.Type)
	walk = func(t reflect.Type) {
		for t.Kind() == reflect.Ptr || t.Kind() == reflect.Slice {
			t = t.Elem()
		}
		if t.Kind() != reflect.Struct || seen[t] {
			return
		}
		seen[t] = true
		for i := 0; i < t.NumField(); i++ {
			if k, ok := snapKey(t, i); ok {
				if s, ok := snap[k]; ok && canonTag(s) != canonTag(LiveTag(t, i)) {
					out = append(out, k+": snapshot \""+s+"\" live \""+LiveTag(t, i)+"\"")
				}
			}
			walk(t.Field(i).Type)
		}
	}
	for _, r := range roots {
		walk(r)
	}
	sort.Strings(out)
	return out
}

// DumpSchema returns the live tags of every field reachable from the roots (what the snapshot file is made from).
func DumpSchema(roots ...reflect.Type) map[string]string {
	seen := map[reflect.Type]bool{}
	out := map[string]string{}
	var walk func(t reflect.Type)
	walk = func(t reflect.Type) {
		for t.Kind() == reflect.Ptr || t.Kind() == reflect.Slice {
			t = t.Elem()
		}
		if t.Kind() != reflect.Struct || seen[t] {
			return
		}
		seen[t] = true
		for i := 0; i < t.NumField(); i++ {
			if k, ok := snapKey(t, i); ok {
				out[k] = LiveTag(t, i)
			}
			walk(t.Field(i).Type)
		}
	}
	for _, r := range roots {
		walk(r)
	}
	return out
}

func canonTag(s string) string {
	parts := strings.Split(s, ",")
	for i := range parts {
		parts[i] = strings.TrimSpace(parts[i])
	}
	sort.Strings(parts)
	return strings.Join(parts, ",")
}
