// Package aper holds stand-ins for the three named ASN.1 carrier types, used only by the
// self-test of vh/ref/per (the reference recognises these types by name, not by import).
package aper

type BitString struct {
	Bytes     []byte
	BitLength uint64
}
type OctetString []byte
type Enumerated uint64
