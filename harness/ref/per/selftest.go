package per

import (
	"bytes"
	"encoding/hex"
	"fmt"
	"reflect"
	"strings"

	"vh/ref/per/aper"
)

// Local replica of the part of the NGAP schema needed for one NGSetupRequest, with the constraints of
// TS 38.413 9.4 typed in by hand. The expected encoding below was derived by hand from X.691.
type stPDU struct {
	Present           int
	InitiatingMessage *stInit
	SuccessfulOutcome *stInit
	Unsuccessful      *stInit
}
type stInit struct {
	ProcedureCode stInt255
	Criticality   stCrit
	Value         stInitValue `aper:"openType,referenceFieldName:ProcedureCode"`
}
type stInt255 struct {
	Value int64 `aper:"valueLB:0,valueUB:255"`
}
type stCrit struct {
	Value aper.Enumerated `aper:"valueLB:0,valueUB:2"`
}
type stInitValue struct {
	Present        int
	NGSetupRequest *stNGSetupRequest `aper:"valueExt,referenceFieldValue:21"`
}
type stNGSetupRequest struct {
	ProtocolIEs stIEContainer
}
type stIEContainer struct {
	List []stIE `aper:"sizeLB:0,sizeUB:65535"`
}
type stIE struct {
	Id          stInt65535
	Criticality stCrit
	Value       stIEValue `aper:"openType,referenceFieldName:Id"`
}
type stInt65535 struct {
	Value int64 `aper:"valueLB:0,valueUB:65535"`
}
type stIEValue struct {
	Present         int
	GlobalRANNodeID *stGlobalRANNodeID `aper:"referenceFieldValue:27,valueLB:0,valueUB:3"`
	RANNodeName     *stName            `aper:"referenceFieldValue:82"`
	SupportedTAList *stTAList          `aper:"referenceFieldValue:102"`
	PagingDRX       *stDRX             `aper:"referenceFieldValue:21"`
	AMFUENGAPID     *stAMFID           `aper:"referenceFieldValue:10"`
	BitRate         *stBitRate         `aper:"referenceFieldValue:110"`
	RepPeriod       *stRep             `aper:"referenceFieldValue:87"`
	TLA             *stTLA             `aper:"referenceFieldValue:200"`
}
type stGlobalRANNodeID struct {
	Present     int
	GlobalGNBID *stGlobalGNBID `aper:"valueExt"`
	NgENB       *stGlobalGNBID `aper:"valueExt"`
	N3IWF       *stGlobalGNBID `aper:"valueExt"`
	ChoiceExt   *stIE
}
type stGlobalGNBID struct {
	PLMNIdentity stOct3
	GNBID        stGNBID        `aper:"valueLB:0,valueUB:1"`
	IEExtensions *stIEContainer `aper:"optional"`
}
type stOct3 struct {
	Value aper.OctetString `aper:"sizeLB:3,sizeUB:3"`
}
type stGNBID struct {
	Present   int
	GNBID     *aper.BitString `aper:"sizeLB:22,sizeUB:32"`
	ChoiceExt *stIE
}
type stName struct {
	Value string `aper:"sizeExt,sizeLB:1,sizeUB:150"`
}
type stTAList struct {
	List []stTAItem `aper:"valueExt,sizeLB:1,sizeUB:256"`
}
type stTAItem struct {
	TAC               stOct3
	BroadcastPLMNList stBPList
	IEExtensions      *stIEContainer `aper:"optional"`
}
type stBPList struct {
	List []stBPItem `aper:"valueExt,sizeLB:1,sizeUB:12"`
}
type stBPItem struct {
	PLMNIdentity        stOct3
	TAISliceSupportList stSliceList
	IEExtensions        *stIEContainer `aper:"optional"`
}
type stSliceList struct {
	List []stSliceItem `aper:"valueExt,sizeLB:1,sizeUB:1024"`
}
type stSliceItem struct {
	SNSSAI       stSNSSAI       `aper:"valueExt"`
	IEExtensions *stIEContainer `aper:"optional"`
}
type stSNSSAI struct {
	SST          stOct1
	SD           *stOct3        `aper:"optional"`
	IEExtensions *stIEContainer `aper:"optional"`
}
type stOct1 struct {
	Value aper.OctetString `aper:"sizeLB:1,sizeUB:1"`
}
type stDRX struct {
	Value aper.Enumerated `aper:"valueExt,valueLB:0,valueUB:3"`
}
type stAMFID struct {
	Value int64 `aper:"valueLB:0,valueUB:1099511627775"`
}
type stBitRate struct {
	Value int64 `aper:"valueExt,valueLB:0,valueUB:4000000000000"`
}
type stRep struct {
	Value int64 `aper:"valueLB:0,valueUB:131071"`
}
type stTLA struct {
	Value aper.BitString `aper:"sizeExt,sizeLB:1,sizeUB:160"`
}

const stTop = "valueExt,valueLB:0,valueUB:2"

func stSetup() stPDU {
	ie := func(id int64, crit uint64, v stIEValue) stIE {
		return stIE{Id: stInt65535{id}, Criticality: stCrit{aper.Enumerated(crit)}, Value: v}
	}
	plmn := stOct3{aper.OctetString{0x02, 0xf8, 0x39}}
	return stPDU{Present: 1, InitiatingMessage: &stInit{
		ProcedureCode: stInt255{21}, Criticality: stCrit{0},
		Value: stInitValue{Present: 1, NGSetupRequest: &stNGSetupRequest{stIEContainer{[]stIE{
			ie(27, 0, stIEValue{Present: 1, GlobalRANNodeID: &stGlobalRANNodeID{Present: 1, GlobalGNBID: &stGlobalGNBID{
				PLMNIdentity: plmn, GNBID: stGNBID{Present: 1, GNBID: &aper.BitString{Bytes: []byte{0, 1, 2}, BitLength: 24}}}}}),
			ie(82, 1, stIEValue{Present: 2, RANNodeName: &stName{"free5gc"}}),
			ie(102, 0, stIEValue{Present: 3, SupportedTAList: &stTAList{[]stTAItem{{
				TAC: stOct3{aper.OctetString{0, 0, 1}},
				BroadcastPLMNList: stBPList{[]stBPItem{{PLMNIdentity: plmn, TAISliceSupportList: stSliceList{[]stSliceItem{{
					SNSSAI: stSNSSAI{SST: stOct1{aper.OctetString{1}}, SD: &stOct3{aper.OctetString{1, 2, 3}}}}}}}}}}}}}),
			ie(21, 1, stIEValue{Present: 4, PagingDRX: &stDRX{2}}),
		}}}}}}
}

// one-IE message wrapper for primitive vectors: InitiatingMessage(proc 21) with a single IE
func stOne(id int64, v stIEValue) stPDU {
	return stPDU{Present: 1, InitiatingMessage: &stInit{ProcedureCode: stInt255{21}, Criticality: stCrit{0},
		Value: stInitValue{Present: 1, NGSetupRequest: &stNGSetupRequest{stIEContainer{[]stIE{
			{Id: stInt65535{id}, Criticality: stCrit{0}, Value: v}}}}}}}
}

func unhex(s string) []byte {
	b, err := hex.DecodeString(strings.ReplaceAll(s, " ", ""))
	if err != nil {
		panic(err)
	}
	return b
}

// SelfTest checks the reference against encodings derived by hand from X.691 and against its own decoder.
func SelfTest() error {
	type vec struct {
		name string
		v    stPDU
		want string
	}
	hdr := func(ieLen, id int, body string) string { // 00 15 00 <len> 00 0001 <id> 00 <ielen> body
		return fmt.Sprintf("001500%02x000001%04x00%02x%s", ieLen+7, id, ieLen, body)
	}
	vecs := []vec{
		{"NGSetupRequest (free5GC test message), hand-derived", stSetup(),
			"00150035000004001b00080002f83910000102005240090300667265653567630066001000000000010002f839000010080102030015400140"},
		// AMF-UE-NGAP-ID (0..2^40-1): length 1..5 in 3 bits, then aligned octets (10.5.7.4)
		{"AMF-UE-NGAP-ID 0", stOne(10, stIEValue{Present: 5, AMFUENGAPID: &stAMFID{0}}), hdr(2, 10, "0000")},
		{"AMF-UE-NGAP-ID 255", stOne(10, stIEValue{Present: 5, AMFUENGAPID: &stAMFID{255}}), hdr(2, 10, "00ff")},
		{"AMF-UE-NGAP-ID 256", stOne(10, stIEValue{Present: 5, AMFUENGAPID: &stAMFID{256}}), hdr(3, 10, "200100")},
		{"AMF-UE-NGAP-ID 2^32", stOne(10, stIEValue{Present: 5, AMFUENGAPID: &stAMFID{1 << 32}}), hdr(6, 10, "800100000000")},
		{"AMF-UE-NGAP-ID 2^40-1", stOne(10, stIEValue{Present: 5, AMFUENGAPID: &stAMFID{1<<40 - 1}}), hdr(6, 10, "80ffffffffff")},
		// BitRate (0..4*10^12, ...): ext bit, length 1..6 in 3 bits
		{"BitRate 0", stOne(110, stIEValue{Present: 6, BitRate: &stBitRate{0}}), hdr(2, 110, "0000")},
		{"BitRate 10^9", stOne(110, stIEValue{Present: 6, BitRate: &stBitRate{1000000000}}), hdr(5, 110, "303b9aca00")},
		{"BitRate 4*10^12", stOne(110, stIEValue{Present: 6, BitRate: &stBitRate{4000000000000}}), hdr(7, 110, "5003a352944000")},
		// outside the root: ext bit 1, unconstrained: length octet + 2's complement (12.1, 10.8): 4*10^12+1 = 03 a3 52 94 40 01
		{"BitRate 4*10^12+1 (extension)", stOne(110, stIEValue{Present: 6, BitRate: &stBitRate{4000000000001}}), hdr(8, 110, "800603a352944001")},
		// RepetitionPeriod (0..131071): range needs 3 octets -> length in 2 bits
		{"RepetitionPeriod 0", stOne(87, stIEValue{Present: 7, RepPeriod: &stRep{0}}), hdr(2, 87, "0000")},
		{"RepetitionPeriod 256", stOne(87, stIEValue{Present: 7, RepPeriod: &stRep{256}}), hdr(3, 87, "400100")},
		{"RepetitionPeriod 65535", stOne(87, stIEValue{Present: 7, RepPeriod: &stRep{65535}}), hdr(3, 87, "40ffff")},
		{"RepetitionPeriod 131071", stOne(87, stIEValue{Present: 7, RepPeriod: &stRep{131071}}), hdr(4, 87, "8001ffff")},
		// TransportLayerAddress BIT STRING (SIZE(1..160,...)): ext bit, length-1 in 8 bits, aligned bits
		{"TLA IPv4", stOne(200, stIEValue{Present: 8, TLA: &stTLA{aper.BitString{Bytes: []byte{10, 0, 0, 1}, BitLength: 32}}}), hdr(6, 200, "0f800a000001")},
		{"TLA 1 bit", stOne(200, stIEValue{Present: 8, TLA: &stTLA{aper.BitString{Bytes: []byte{0xff}, BitLength: 1}}}), hdr(3, 200, "000080")},
	}
	for _, c := range vecs {
		got, err := Marshal(c.v, stTop)
		if err != nil {
			return fmt.Errorf("per self-test %q: %v", c.name, err)
		}
		if !bytes.Equal(got, unhex(c.want)) {
			return fmt.Errorf("per self-test %q:\n got  %x\n want %s", c.name, got, c.want)
		}
		var back stPDU
		if err := Unmarshal(got, &back, stTop); err != nil {
			return fmt.Errorf("per self-test %q: decode of own encoding: %v", c.name, err)
		}
		again, err := Marshal(back, stTop)
		if err != nil || !bytes.Equal(again, got) {
			return fmt.Errorf("per self-test %q: re-encode differs: %x (%v)", c.name, again, err)
		}
		if c.name[:3] != "TLA" && !reflect.DeepEqual(back, c.v) {
			return fmt.Errorf("per self-test %q: decoded value differs", c.name)
		}
	}
	// constraint violations must be refused
	bad := []stPDU{
		stOne(10, stIEValue{Present: 5, AMFUENGAPID: &stAMFID{1 << 40}}),
		stOne(10, stIEValue{Present: 5, AMFUENGAPID: &stAMFID{-1}}),
		stOne(87, stIEValue{Present: 7, RepPeriod: &stRep{131072}}),
		stOne(82, stIEValue{Present: 2, RANNodeName: &stName{""}}), // extensible size, but 0 < lb is still encodable only via extension: allowed? no: (1..150,...) admits any size by extension
		stOne(11, stIEValue{Present: 5, AMFUENGAPID: &stAMFID{1}}), // id does not match the alternative
		stOne(10, stIEValue{Present: 0}),
	}
	for i, b := range bad {
		_, err := Marshal(b, stTop)
		if i == 3 {
			continue // see comment: size extension makes it encodable
		}
		if _, ok := err.(*ConstraintError); !ok {
			return fmt.Errorf("per self-test: bad value %d not refused with a constraint error (err=%v)", i, err)
		}
	}
	// general length determinant boundaries on an unconstrained OCTET STRING
	type nas struct {
		Value aper.OctetString
	}
	for _, n := range []int{0, 1, 127, 128, 16383, 16384, 16385, 32768, 65536, 65537, 81920} {
		b, err := Marshal(nas{make([]byte, n)}, "")
		if err != nil {
			return err
		}
		var want int
		switch {
		case n == 0:
			want = 1
		case n <= 127:
			want = 1 + n
		case n < 16384:
			want = 2 + n
		default: // fragments of up to 64K, then a final length (1 or 2 octets)
			full := n / 65536
			rest := n % 65536
			want = full*(1+65536) + 0
			if m := rest / 16384; m > 0 {
				want += 1 + m*16384
				rest -= m * 16384
			}
			if rest <= 127 {
				want += 1 + rest
			} else {
				want += 2 + rest
			}
		}
		if len(b) != want {
			return fmt.Errorf("per self-test: OCTET STRING of %d octets encodes to %d octets, want %d", n, len(b), want)
		}
		var back nas
		if err := Unmarshal(b, &back, ""); err != nil || len(back.Value) != n {
			return fmt.Errorf("per self-test: OCTET STRING of %d octets does not round-trip (%v, %d)", n, err, len(back.Value))
		}
	}
	return nil
}
