// Package per is an independent implementation of the ALIGNED variant of the
// Packed Encoding Rules (ITU-T X.691, 2002/2008) written from the Recommendation.
// It shares no code with the library under test. The *schema* (which ASN.1 type a Go
// value stands for and under which constraints) is read by reflection from the Go
// type and its `aper:"..."` struct tags with this package's own tag parser:
//
//	struct whose first field is `Present int`        CHOICE (index = Present-1) or, under an openType tag, the set of open-type alternatives
//	any other struct                                 SEQUENCE (fields tagged `optional` are OPTIONAL, pointer fields)
//	slice (not []byte)                               SEQUENCE OF
//	int / int32 / int64                              INTEGER
//	named uint64 type "Enumerated"                   ENUMERATED (index)
//	named []byte type "OctetString"                  OCTET STRING
//	struct "BitString"{Bytes []byte; BitLength uint64} BIT STRING
//	string                                           PrintableString (known-multiplier, 8 bits per character in ALIGNED PER)
//	bool                                             BOOLEAN
//
// Clause numbers in comments refer to X.691 (07/2002).
package per

import (
	"fmt"
	"reflect"
	"strconv"
	"strings"
)

// Params is the parsed form of an `aper` struct tag.
type Params struct {
	Optional      bool
	SizeExt       bool
	ValueExt      bool
	SizeLB        *int64
	SizeUB        *int64
	ValueLB       *int64
	ValueUB       *int64
	OpenType      bool
	RefFieldName  string
	RefFieldValue *int64
}

// ParseTag parses a tag string. Unlike the library it reports malformed numbers.
func ParseTag(s string) (Params, error) {
	var p Params
	if s == "" {
		return p, nil
	}
	num := func(v string) (*int64, error) {
		n, err := strconv.ParseInt(v, 10, 64)
		if err != nil {
			return nil, fmt.Errorf("tag %q: bad number %q", s, v)
		}
		return &n, nil
	}
	for _, part := range strings.Split(s, ",") {
		var err error
		switch {
		case part == "optional":
			p.Optional = true
		case part == "sizeExt":
			p.SizeExt = true
		case part == "valueExt":
			p.ValueExt = true
		case part == "openType":
			p.OpenType = true
		case strings.HasPrefix(part, "sizeLB:"):
			p.SizeLB, err = num(part[7:])
		case strings.HasPrefix(part, "sizeUB:"):
			p.SizeUB, err = num(part[7:])
		case strings.HasPrefix(part, "valueLB:"):
			p.ValueLB, err = num(part[8:])
		case strings.HasPrefix(part, "valueUB:"):
			p.ValueUB, err = num(part[8:])
		case strings.HasPrefix(part, "referenceFieldName:"):
			p.RefFieldName = part[19:]
		case strings.HasPrefix(part, "referenceFieldValue:"):
			p.RefFieldValue, err = num(part[20:])
		case strings.HasPrefix(part, "default:"):
			// not used by NGAP types
		case part == "":
		default:
			return p, fmt.Errorf("tag %q: unknown part %q", s, part)
		}
		if err != nil {
			return p, err
		}
	}
	return p, nil
}

// ConstraintError: the value does not satisfy the constraints of its type (it has no PER encoding).
type ConstraintError struct {
	Path   string
	Reason string
}

func (e *ConstraintError) Error() string {
	return "constraint violation at " + e.Path + ": " + e.Reason
}

func cerr(path, format string, a ...any) error {
	return &ConstraintError{Path: path, Reason: fmt.Sprintf(format, a...)}
}

// SchemaError: the Go type / tags do not describe a type this package can encode.
type SchemaError struct{ Msg string }

func (e *SchemaError) Error() string { return "schema: " + e.Msg }

func serr(format string, a ...any) error { return &SchemaError{fmt.Sprintf(format, a...)} }

// ---------------------------------------------------------------- kinds

type kind int

const (
	kInvalid kind = iota
	kBool
	kInteger
	kEnumerated
	kBitString
	kOctetString
	kString
	kSequence
	kChoice
	kSequenceOf
)

func isAper(t reflect.Type, name string) bool {
	return t.Name() == name && (strings.HasSuffix(t.PkgPath(), "/aper") || t.PkgPath() == "aper")
}

func kindOf(t reflect.Type) kind {
	switch {
	case isAper(t, "BitString"):
		return kBitString
	case isAper(t, "OctetString"):
		return kOctetString
	case isAper(t, "Enumerated"):
		return kEnumerated
	}
	switch t.Kind() {
	case reflect.Bool:
		return kBool
	case reflect.Int, reflect.Int32, reflect.Int64:
		return kInteger
	case reflect.String:
		return kString
	case reflect.Slice:
		if t.Elem().Kind() == reflect.Uint8 {
			return kOctetString
		}
		return kSequenceOf
	case reflect.Struct:
		if t.NumField() > 0 && t.Field(0).Name == "Present" && t.Field(0).Type.Kind() == reflect.Int {
			return kChoice
		}
		return kSequence
	}
	return kInvalid
}

// ---------------------------------------------------------------- bit writer

type bitWriter struct {
	buf  []byte
	nbit uint // number of bits used in the last byte (0 = aligned)
}

func (w *bitWriter) putBit(b uint) {
	if w.nbit == 0 {
		w.buf = append(w.buf, 0)
	}
	if b != 0 {
		w.buf[len(w.buf)-1] |= 0x80 >> w.nbit
	}
	w.nbit = (w.nbit + 1) & 7
}

// putBits writes the low n bits of v, most significant first.
func (w *bitWriter) putBits(v uint64, n int) {
	for i := n - 1; i >= 0; i-- {
		w.putBit(uint(v>>uint(i)) & 1)
	}
}

func (w *bitWriter) align() { w.nbit = 0 }

func (w *bitWriter) putOctets(b []byte) {
	if w.nbit == 0 {
		w.buf = append(w.buf, b...)
		return
	}
	for _, x := range b {
		w.putBits(uint64(x), 8)
	}
}

// putBitField writes the first n bits of b.
func (w *bitWriter) putBitField(b []byte, n int) {
	full := n / 8
	w.putOctets(b[:full])
	if rem := n % 8; rem != 0 {
		w.putBits(uint64(b[full]>>(8-uint(rem))), rem)
	}
}

func bitsFor(rangeMinus1 uint64) int { // number of bits needed to hold values 0..rangeMinus1
	n := 0
	for rangeMinus1 > 0 {
		n++
		rangeMinus1 >>= 1
	}
	return n
}

func octetsFor(v uint64) int { // minimal number of octets of a non-negative-binary-integer (at least 1)
	n := 1
	for v > 0xff {
		n++
		v >>= 8
	}
	return n
}

// constrainedWholeNumber: 10.5 (ALIGNED variant). lb <= v <= ub guaranteed by the caller.
func (w *bitWriter) constrainedWholeNumber(v, lb, ub int64) {
	rng := uint64(ub-lb) + 1 // ub-lb < 2^63 for every NGAP type
	off := uint64(v - lb)
	switch {
	case rng == 1: // 10.5.4
	case rng <= 255: // 10.5.7.1 bit-field
		w.putBits(off, bitsFor(rng-1))
	case rng == 256: // 10.5.7.2 one octet, octet-aligned
		w.align()
		w.putBits(off, 8)
	case rng <= 65536: // 10.5.7.3 two octets, octet-aligned
		w.align()
		w.putBits(off, 16)
	default: // 10.5.7.4 indefinite length case
		maxLen := octetsFor(rng - 1)
		n := octetsFor(off)
		// 12.2.6 a): the length is a constrained whole number 1..maxLen (10.9.3.3 with lb=1)
		w.constrainedWholeNumber(int64(n), 1, int64(maxLen))
		w.align()
		w.putBits(off, 8*n)
	}
}

// lengthDeterminant for the unconstrained / semi-constrained case (10.9.3.5 - 10.9.3.8). Returns how many items
// the caller has to emit now; the caller loops while more is true.
func (w *bitWriter) generalLength(n int) (now int, more bool) {
	w.align()
	switch {
	case n <= 127:
		w.putBits(uint64(n), 8)
		return n, false
	case n < 16384:
		w.putBits(0x8000|uint64(n), 16)
		return n, false
	default:
		m := n / 16384
		if m > 4 {
			m = 4
		}
		w.putBits(0xC0|uint64(m), 8)
		return m * 16384, true
	}
}

func twosComplementOctets(v int64) []byte { // minimal 2's-complement-binary-integer (10.4)
	n := 1
	for ; n < 8; n++ {
		shifted := v >> (uint(n)*8 - 1)
		if shifted == 0 || shifted == -1 {
			break
		}
	}
	out := make([]byte, n)
	for i := 0; i < n; i++ {
		out[n-1-i] = byte(v >> (8 * uint(i)))
	}
	return out
}

// ---------------------------------------------------------------- encoder

// Marshal returns the complete ALIGNED PER encoding (10.1) of v described by its Go type and topTag.
func Marshal(v any, topTag string) ([]byte, error) {
	p, err := ParseTag(topTag)
	if err != nil {
		return nil, &SchemaError{err.Error()}
	}
	w := &bitWriter{}
	if err := encode(w, reflect.ValueOf(v), p, "$"); err != nil {
		return nil, err
	}
	if len(w.buf) == 0 {
		return []byte{0}, nil // 10.1.3
	}
	return w.buf, nil
}

func deref(v reflect.Value) (reflect.Value, bool) {
	for v.Kind() == reflect.Ptr || v.Kind() == reflect.Interface {
		if v.IsNil() {
			return v, false
		}
		v = v.Elem()
	}
	return v, true
}

func encode(w *bitWriter, v reflect.Value, p Params, path string) error {
	if !v.IsValid() {
		return cerr(path, "no value")
	}
	v, ok := deref(v)
	if !ok {
		return cerr(path, "nil value")
	}
	t := v.Type()
	switch kindOf(t) {
	case kBool:
		if v.Bool() {
			w.putBit(1)
		} else {
			w.putBit(0)
		}
		return nil
	case kInteger:
		return encInteger(w, v.Int(), p, path)
	case kEnumerated:
		return encEnumerated(w, v.Uint(), p, path)
	case kBitString:
		return encBitString(w, v.Field(0).Bytes(), v.Field(1).Uint(), p, path)
	case kOctetString:
		return encOctets(w, v.Bytes(), p, path, "OCTET STRING")
	case kString:
		s := v.String()
		for i := 0; i < len(s); i++ {
			if !printable(s[i]) {
				return cerr(path, "character %q is not in the PrintableString alphabet", s[i])
			}
		}
		return encOctets(w, []byte(s), p, path, "PrintableString")
	case kSequenceOf:
		return encSequenceOf(w, v, p, path)
	case kChoice:
		if p.OpenType {
			return encOpenTypeField(w, v, p, path)
		}
		return encChoice(w, v, p, path)
	case kSequence:
		return encSequence(w, v, p, path)
	}
	return serr("%s: unsupported Go type %s", path, t)
}

func printable(c byte) bool {
	switch {
	case c >= 'A' && c <= 'Z', c >= 'a' && c <= 'z', c >= '0' && c <= '9':
		return true
	}
	return strings.IndexByte(" '()+,-./:=?", c) >= 0
}

// 12: INTEGER
func encInteger(w *bitWriter, val int64, p Params, path string) error {
	hasLB, hasUB := p.ValueLB != nil, p.ValueUB != nil
	inRoot := (!hasLB || val >= *p.ValueLB) && (!hasUB || val <= *p.ValueUB)
	if p.ValueExt {
		if !hasLB && !hasUB {
			return serr("%s: extensible INTEGER without root constraint", path)
		}
		if inRoot {
			w.putBit(0)
		} else {
			w.putBit(1) // 12.1: outside the root -> unconstrained encoding
			oct := twosComplementOctets(val)
			w.generalLength(len(oct))
			w.putOctets(oct)
			return nil
		}
	} else if !inRoot {
		return cerr(path, "INTEGER %d outside %s", val, boundsText(p.ValueLB, p.ValueUB))
	}
	switch {
	case hasLB && hasUB:
		if *p.ValueLB > *p.ValueUB {
			return serr("%s: lb > ub", path)
		}
		w.constrainedWholeNumber(val, *p.ValueLB, *p.ValueUB)
	case hasLB: // 12.2.3 semi-constrained: 10.7
		off := uint64(val - *p.ValueLB)
		n := octetsFor(off)
		w.generalLength(n)
		w.putBits(off, 8*n)
	default: // 12.2.4 unconstrained (an upper bound alone does not constrain PER-visibly differently): 10.8
		oct := twosComplementOctets(val)
		w.generalLength(len(oct))
		w.putOctets(oct)
	}
	return nil
}

func boundsText(lb, ub *int64) string {
	l, u := "MIN", "MAX"
	if lb != nil {
		l = strconv.FormatInt(*lb, 10)
	}
	if ub != nil {
		u = strconv.FormatInt(*ub, 10)
	}
	return "(" + l + ".." + u + ")"
}

// 13: ENUMERATED (index into the root enumeration; extension additions are not expressible in the Go types)
func encEnumerated(w *bitWriter, idx uint64, p Params, path string) error {
	if p.ValueLB == nil || p.ValueUB == nil {
		return serr("%s: ENUMERATED without valueLB/valueUB", path)
	}
	lb, ub := *p.ValueLB, *p.ValueUB
	if int64(idx) < lb || int64(idx) > ub || idx > 1<<62 {
		return cerr(path, "ENUMERATED index %d outside %d..%d", idx, lb, ub)
	}
	if p.ValueExt {
		w.putBit(0)
	}
	w.constrainedWholeNumber(int64(idx), lb, ub)
	return nil
}

// sizeInfo evaluates an effective size constraint for n items (octets, bits, elements).
// Returns inRoot, constrained (lb..ub both known and ub < 64K), lb, ub.
func sizeInfo(n int, p Params, path, what string) (inRoot, constrained bool, lb, ub int64, err error) {
	lb, ub = 0, -1
	if p.SizeLB != nil {
		lb = *p.SizeLB
	}
	if p.SizeUB != nil {
		ub = *p.SizeUB
	}
	inRoot = int64(n) >= lb && (ub < 0 || int64(n) <= ub)
	if !inRoot && !p.SizeExt {
		return false, false, lb, ub, cerr(path, "%s size %d outside SIZE%s", what, n, boundsText(p.SizeLB, p.SizeUB))
	}
	if p.SizeExt && p.SizeLB == nil && p.SizeUB == nil {
		return false, false, lb, ub, serr("%s: extensible size without root", path)
	}
	constrained = ub >= 0 && ub < 65536
	return
}

// 16 OCTET STRING, 27 known-multiplier strings with 8-bit characters
func encOctets(w *bitWriter, b []byte, p Params, path, what string) error {
	n := len(b)
	inRoot, constrained, lb, ub, err := sizeInfo(n, p, path, what)
	if err != nil {
		return err
	}
	if p.SizeExt {
		if inRoot {
			w.putBit(0)
		} else {
			w.putBit(1) // 16.3 / 27.4: length as semi-constrained whole number from 0
			return emitFragmented(w, n, func(from, to int) { w.align(); w.putOctets(b[from:to]) })
		}
	}
	if constrained && lb == ub { // 16.5-16.7 fixed size
		switch {
		case ub == 0:
		case ub <= 2:
			w.putOctets(b) // not aligned
		default:
			w.align()
			w.putOctets(b)
		}
		return nil
	}
	if constrained { // 16.8 with constrained length (10.9.3.3)
		w.constrainedWholeNumber(int64(n), lb, ub)
		if n > 0 {
			w.align()
			w.putOctets(b)
		}
		return nil
	}
	// unconstrained or ub >= 64K: 10.9.3.5..8 (the lower bound does not offset the length)
	return emitFragmented(w, n, func(from, to int) { w.align(); w.putOctets(b[from:to]) })
}

// emitFragmented writes a general length determinant with 16K fragmentation and calls put for each fragment.
func emitFragmented(w *bitWriter, n int, put func(from, to int)) error {
	done := 0
	for {
		now, more := w.generalLength(n - done)
		if now > 0 {
			put(done, done+now)
		}
		done += now
		if !more {
			return nil
		}
	}
}

// 15 BIT STRING
func encBitString(w *bitWriter, b []byte, nbits uint64, p Params, path string) error {
	if nbits > uint64(len(b))*8 {
		return cerr(path, "BIT STRING of %d bits has only %d octets", nbits, len(b))
	}
	if nbits > 1<<30 {
		return cerr(path, "BIT STRING too long")
	}
	n := int(nbits)
	// a private masked copy: unused bits of the last octet are not part of the value
	bb := append([]byte(nil), b[:(n+7)/8]...)
	if r := n % 8; r != 0 {
		bb[len(bb)-1] &= 0xff << (8 - uint(r))
	}
	inRoot, constrained, lb, ub, err := sizeInfo(n, p, path, "BIT STRING")
	if err != nil {
		return err
	}
	putFrag := func(from, to int) { // from/to in bits, from is a multiple of 16K
		w.align()
		w.putBitField(bb[from/8:], to-from)
	}
	if p.SizeExt {
		if inRoot {
			w.putBit(0)
		} else {
			w.putBit(1)
			return emitFragmented(w, n, putFrag)
		}
	}
	if constrained && lb == ub { // 15.8-15.10
		switch {
		case ub == 0:
		case ub <= 16:
			w.putBitField(bb, n)
		default:
			w.align()
			w.putBitField(bb, n)
		}
		return nil
	}
	if constrained { // 15.11
		w.constrainedWholeNumber(int64(n), lb, ub)
		if n > 0 {
			w.align()
			w.putBitField(bb, n)
		}
		return nil
	}
	return emitFragmented(w, n, putFrag)
}

// 19 SEQUENCE OF
func encSequenceOf(w *bitWriter, v reflect.Value, p Params, path string) error {
	n := v.Len()
	inRoot, constrained, lb, ub, err := sizeInfo(n, p, path, "SEQUENCE OF")
	if err != nil {
		return err
	}
	ep := p // element parameters: everything but the size constraint
	ep.SizeExt, ep.SizeLB, ep.SizeUB = false, nil, nil
	ep.Optional = false
	emit := func(from, to int) error {
		for i := from; i < to; i++ {
			if err := encode(w, v.Index(i), ep, fmt.Sprintf("%s[%d]", path, i)); err != nil {
				return err
			}
		}
		return nil
	}
	var ierr error
	frag := func(from, to int) {
		if ierr == nil {
			ierr = emit(from, to)
		}
	}
	if p.SizeExt {
		if inRoot {
			w.putBit(0)
		} else {
			w.putBit(1)
			if err := emitFragmented(w, n, frag); err != nil {
				return err
			}
			return ierr
		}
	}
	if constrained {
		w.constrainedWholeNumber(int64(n), lb, ub) // nothing when lb == ub
		return emit(0, n)
	}
	if err := emitFragmented(w, n, frag); err != nil {
		return err
	}
	return ierr
}

// 22 CHOICE
func encChoice(w *bitWriter, v reflect.Value, p Params, path string) error {
	t := v.Type()
	nAlt := t.NumField() - 1
	present := int(v.Field(0).Int())
	if nAlt == 0 {
		return cerr(path, "CHOICE %s has no alternatives", t.Name())
	}
	if p.ValueUB == nil {
		return serr("%s: CHOICE %s without valueUB", path, t.Name())
	}
	if int(*p.ValueUB)+1 != nAlt {
		return serr("%s: CHOICE %s has %d alternatives but the tag says valueUB:%d", path, t.Name(), nAlt, *p.ValueUB)
	}
	if present < 1 || present > nAlt {
		return cerr(path, "CHOICE %s: Present=%d selects no alternative", t.Name(), present)
	}
	f := v.Field(present)
	if (f.Kind() == reflect.Ptr || f.Kind() == reflect.Interface) && f.IsNil() {
		return cerr(path, "CHOICE %s: selected alternative %s is nil", t.Name(), t.Field(present).Name)
	}
	if p.ValueExt {
		w.putBit(0) // 22.5: alternative of the root
	}
	w.constrainedWholeNumber(int64(present-1), 0, int64(nAlt-1)) // 22.6 (nothing for a single alternative, 22.4)
	fp, err := ParseTag(FieldTag(t, present))
	if err != nil {
		return &SchemaError{err.Error()}
	}
	return encode(w, f, fp, path+"."+t.Field(present).Name)
}

// 18 SEQUENCE
func encSequence(w *bitWriter, v reflect.Value, p Params, path string) error {
	t := v.Type()
	if p.ValueExt {
		w.putBit(0) // 18.1: no extension additions are expressible
	}
	n := t.NumField()
	fps := make([]Params, n)
	for i := 0; i < n; i++ {
		if t.Field(i).PkgPath != "" {
			return serr("%s: unexported field %s", path, t.Field(i).Name)
		}
		fp, err := ParseTag(FieldTag(t, i))
		if err != nil {
			return &SchemaError{err.Error()}
		}
		fps[i] = fp
		f := v.Field(i)
		nilable := f.Kind() == reflect.Ptr || f.Kind() == reflect.Interface
		if fp.Optional {
			if !nilable {
				return serr("%s.%s: OPTIONAL component is not a pointer", path, t.Field(i).Name)
			}
			if f.IsNil() {
				w.putBit(0) // 18.2 preamble bit
			} else {
				w.putBit(1)
			}
		} else if nilable && f.IsNil() {
			return cerr(path+"."+t.Field(i).Name, "mandatory component absent")
		}
	}
	for i := 0; i < n; i++ {
		f := v.Field(i)
		if fps[i].Optional && f.IsNil() {
			continue
		}
		fp := fps[i]
		if fp.OpenType {
			// the value of the referenced component selects the open type's actual type
			idx := -1
			for j := 0; j < i; j++ {
				if t.Field(j).Name == fp.RefFieldName {
					idx = j
				}
			}
			if idx < 0 {
				return serr("%s.%s: open type refers to unknown component %q", path, t.Field(i).Name, fp.RefFieldName)
			}
			ref, err := referenceValue(v.Field(idx))
			if err != nil {
				return serr("%s.%s: %v", path, t.Field(i).Name, err)
			}
			fp.RefFieldValue = &ref
		}
		if err := encode(w, f, fp, path+"."+t.Field(i).Name); err != nil {
			return err
		}
	}
	return nil
}

func referenceValue(v reflect.Value) (int64, error) {
	v, ok := deref(v)
	if !ok {
		return 0, fmt.Errorf("nil reference component")
	}
	if v.Kind() == reflect.Struct && v.NumField() == 1 {
		v = v.Field(0)
	}
	switch v.Kind() {
	case reflect.Int, reflect.Int32, reflect.Int64:
		return v.Int(), nil
	case reflect.Uint64:
		return int64(v.Uint()), nil
	}
	return 0, fmt.Errorf("reference component of kind %s", v.Kind())
}

// open type component (10.2): v is the alternatives struct {Present; alt1 `referenceFieldValue:x`; ...}
func encOpenTypeField(w *bitWriter, v reflect.Value, p Params, path string) error {
	t := v.Type()
	if p.RefFieldValue == nil {
		return serr("%s: open type without reference value", path)
	}
	present := int(v.Field(0).Int())
	if present < 1 || present >= t.NumField() {
		return cerr(path, "open type %s: Present=%d selects no alternative", t.Name(), present)
	}
	fp, err := ParseTag(FieldTag(t, present))
	if err != nil {
		return &SchemaError{err.Error()}
	}
	if fp.RefFieldValue == nil {
		return serr("%s: alternative %s has no referenceFieldValue", path, t.Field(present).Name)
	}
	if *fp.RefFieldValue != *p.RefFieldValue {
		return cerr(path, "open type alternative %s (id %d) does not match the identifier %d", t.Field(present).Name, *fp.RefFieldValue, *p.RefFieldValue)
	}
	f := v.Field(present)
	if (f.Kind() == reflect.Ptr || f.Kind() == reflect.Interface) && f.IsNil() {
		return cerr(path, "open type alternative %s is nil", t.Field(present).Name)
	}
	inner := &bitWriter{}
	fp.RefFieldValue = nil
	if err := encode(inner, f, fp, path+"."+t.Field(present).Name); err != nil {
		return err
	}
	body := inner.buf
	if len(body) == 0 {
		body = []byte{0} // 10.1.3 complete encoding of an empty bit string
	}
	return emitFragmented(w, len(body), func(from, to int) { w.align(); w.putOctets(body[from:to]) })
}
