// hx links the code under test (/repo, rebuilt from its working tree by bin/vcheck)
// with the monitors of /verif/harness/checks.
//
//	hx run <ID> <quick|thorough>        parent: schedules cases, watches children, writes evidence
//	hx child <ID> <tier> <seed> <from> <to> <outprefix>
//	hx replay <file>
//	hx list
package main

import (
	"fmt"
	"os"
	"path/filepath"
	"strconv"

	"vh/checks"
	"vh/fw"
)

func main() {
	if len(os.Args) < 2 {
		fmt.Println("usage: hx run|child|replay|list ...")
		os.Exit(2)
	}
	switch os.Args[1] {
	case "schema-dump": // the live aper tags of every NGAP type, as JSON (source of harness/ref/per/ngap_schema_snapshot.json)
		os.Stdout.Write(checks.SchemaDumpJSON())
	case "list":
		for _, id := range fw.IDs() {
			fmt.Println(id)
		}
	case "run":
		if len(os.Args) < 4 {
			fmt.Println("usage: hx run <ID> <tier>")
			os.Exit(2)
		}
		ck := fw.Lookup(os.Args[2])
		if ck == nil {
			fmt.Println("unknown check", os.Args[2])
			os.Exit(2)
		}
		tier := os.Args[3]
		if tier != "quick" && tier != "thorough" {
			fmt.Println("tier must be quick or thorough")
			os.Exit(2)
		}
		seed := int64(1)
		if v := os.Getenv("VERIF_SEED"); v != "" {
			if s, err := strconv.ParseInt(v, 10, 64); err == nil {
				seed = s
			}
		}
		verif := os.Getenv("VERIF_DIR")
		if verif == "" {
			verif = "/verif"
		}
		work := os.Getenv("VERIF_W")
		if work == "" {
			fmt.Println("VERIF_W not set (run through bin/vcheck)")
			os.Exit(2)
		}
		exe, _ := os.Executable()
		exe, _ = filepath.Abs(exe)
		os.Exit(fw.ParentMain(ck, tier, seed, verif, work, exe))
	case "child":
		fw.ExitWithParent()
		if len(os.Args) < 8 {
			os.Exit(2)
		}
		ck := fw.Lookup(os.Args[2])
		if ck == nil {
			os.Exit(2)
		}
		seed, _ := strconv.ParseInt(os.Args[4], 10, 64)
		from, _ := strconv.Atoi(os.Args[5])
		to, _ := strconv.Atoi(os.Args[6])
		os.Exit(fw.ChildMain(ck, os.Args[3], seed, from, to, os.Args[7]))
	case "conf":
		fw.ExitWithParent()
		os.Exit(checks.ConfChildMain())
	case "proc":
		fw.ExitWithParent()
		os.Exit(checks.ProcChildMain())
	case "replay":
		if len(os.Args) < 3 {
			os.Exit(2)
		}
		os.Exit(fw.Replay(os.Args[2]))
	default:
		fmt.Println("unknown command", os.Args[1])
		os.Exit(2)
	}
}
