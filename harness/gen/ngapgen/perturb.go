package ngapgen

import (
	"fmt"
	"math/rand"
	"reflect"
	"sort"
	"strings"

	"vh/ref/per"
)

type site struct {
	desc  string
	kind  string // the description without its numbers: sites are drawn kind first, so rare kinds are not crowded out
	apply func()
}

// Perturb modifies exactly one component of the (addressable) value so that it violates its ASN.1 constraint:
// integer / enumerated out of range, string or list of illegal size, unset CHOICE, open type not matching its identifier.
// Returns a description of what was done, or "" when the value offers no such site.
func Perturb(root reflect.Value, top per.Params, r *rand.Rand) string {
	var sites []site
	collect(root, top, "$", r, &sites)
	if len(sites) == 0 {
		return ""
	}
	if r.Intn(3) != 0 { // two draws in three: pick the KIND of violation uniformly first, then a site of that kind
		byKind := map[string][]site{}
		var kinds []string
		for _, s := range sites {
			if _, ok := byKind[s.kind]; !ok {
				kinds = append(kinds, s.kind)
			}
			byKind[s.kind] = append(byKind[s.kind], s)
		}
		sort.Strings(kinds)
		sites = byKind[kinds[r.Intn(len(kinds))]]
	}
	s := sites[r.Intn(len(sites))]
	s.apply()
	return s.desc
}

func collect(v reflect.Value, p per.Params, path string, r *rand.Rand, out *[]site) {
	for v.Kind() == reflect.Ptr {
		if v.IsNil() {
			return
		}
		v = v.Elem()
	}
	t := v.Type()
	add := func(desc string, f func()) {
		*out = append(*out, site{path + ": " + desc, strings.Map(func(c rune) rune {
			if c >= '0' && c <= '9' {
				return -1
			}
			return c
		}, desc), f})
	}
	switch {
	case isAper(t, "BitString"):
		if p.SizeUB != nil && !p.SizeExt {
			ub, lb := *p.SizeUB, bound(p.SizeLB, 0)
			add(fmt.Sprintf("BIT STRING longer than SIZE ub %d", ub), func() {
				n := ub + 1 + int64(r.Intn(9))
				v.Field(0).SetBytes(make([]byte, (n+7)/8))
				v.Field(1).SetUint(uint64(n))
			})
			if lb > 0 {
				add(fmt.Sprintf("BIT STRING shorter than SIZE lb %d", lb), func() {
					n := lb - 1
					v.Field(0).SetBytes(make([]byte, (n+7)/8))
					v.Field(1).SetUint(uint64(n))
				})
			}
		}
		return
	case isAper(t, "OctetString") || t.Kind() == reflect.String || (t.Kind() == reflect.Slice && t.Elem().Kind() == reflect.Uint8):
		if p.SizeUB != nil && !p.SizeExt {
			ub, lb := *p.SizeUB, bound(p.SizeLB, 0)
			set := func(n int64) {
				b := make([]byte, n)
				for i := range b {
					b[i] = 'A'
				}
				if t.Kind() == reflect.String {
					v.SetString(string(b))
				} else {
					v.SetBytes(b)
				}
			}
			if ub < 70000 {
				add(fmt.Sprintf("string longer than SIZE ub %d", ub), func() { set(ub + 1 + int64(r.Intn(3))) })
			}
			if lb > 0 {
				add(fmt.Sprintf("string shorter than SIZE lb %d", lb), func() { set(lb - 1) })
			}
		}
		return
	case isAper(t, "Enumerated"):
		if p.ValueUB != nil {
			ub := *p.ValueUB
			add(fmt.Sprintf("ENUMERATED index above %d", ub), func() { v.SetUint(uint64(ub + 1 + int64(r.Intn(4)))) })
		}
		return
	}
	switch t.Kind() {
	case reflect.Int, reflect.Int32, reflect.Int64:
		if p.ValueLB != nil && p.ValueUB != nil && !p.ValueExt {
			lb, ub := *p.ValueLB, *p.ValueUB
			add(fmt.Sprintf("INTEGER above ub %d", ub), func() {
				v.SetInt(ub + 1 + int64(r.Intn(3))*int64(r.Intn(1000)))
			})
			add(fmt.Sprintf("INTEGER below lb %d", lb), func() { v.SetInt(lb - 1 - int64(r.Intn(3))) })
		} else if p.ValueLB != nil && p.ValueUB != nil && p.ValueExt {
			lb := *p.ValueLB
			_ = lb // outside the root is legal for an extensible INTEGER
		}
	case reflect.Slice:
		n := v.Len()
		if p.SizeUB != nil && !p.SizeExt && *p.SizeUB < 300 && n > 0 {
			ub := int(*p.SizeUB)
			add(fmt.Sprintf("SEQUENCE OF longer than SIZE ub %d", ub), func() {
				s := v
				for s.Len() <= ub {
					s = reflect.Append(s, s.Index(0))
				}
				v.Set(s)
			})
		}
		if p.SizeLB != nil && *p.SizeLB > 0 {
			lb := int(*p.SizeLB)
			add(fmt.Sprintf("SEQUENCE OF shorter than SIZE lb %d", lb), func() { v.Set(v.Slice(0, lb-1)) })
		}
		ep := elemParams(p)
		for i := 0; i < n; i++ {
			collect(v.Index(i), ep, fmt.Sprintf("%s[%d]", path, i), r, out)
		}
	case reflect.Struct:
		if isChoice(t) {
			present := int(v.Field(0).Int())
			if p.OpenType {
				return // handled by the enclosing SEQUENCE
			}
			add("CHOICE with Present=0", func() { v.Field(0).SetInt(0) })
			add("CHOICE with Present beyond the alternatives", func() { v.Field(0).SetInt(int64(t.NumField() + r.Intn(3))) })
			if present >= 1 && present < t.NumField() {
				if f := v.Field(present); f.Kind() == reflect.Ptr && !f.IsNil() {
					add("CHOICE whose selected alternative is nil", func() { f.Set(reflect.Zero(f.Type())) })
				}
				fp, _ := per.ParseTag(per.FieldTag(t, present))
				collect(v.Field(present), fp, path+"."+t.Field(present).Name, r, out)
			}
			return
		}
		for i := 0; i < t.NumField(); i++ {
			fp, _ := per.ParseTag(per.FieldTag(t, i))
			f := v.Field(i)
			name := path + "." + t.Field(i).Name
			if f.Kind() == reflect.Ptr && f.IsNil() {
				continue
			}
			if fp.OpenType {
				val := f
				for val.Kind() == reflect.Ptr {
					val = val.Elem()
				}
				vt := val.Type()
				present := int(val.Field(0).Int())
				// identifier that matches no alternative / another alternative
				for j := 0; j < i; j++ {
					if t.Field(j).Name == fp.RefFieldName {
						idf := v.Field(j)
						cur := int64(0)
						if present >= 1 && present < vt.NumField() {
							ap, _ := per.ParseTag(per.FieldTag(vt, present))
							cur = bound(ap.RefFieldValue, 0)
						}
						*out = append(*out, site{name + ": open type whose identifier does not match the value", "open type whose identifier does not match the value", func() {
							x := cur + 1 + int64(r.Intn(5))
							if x > 255 && t.Field(j).Type.Name() == "ProcedureCode" {
								x = cur - 1
							}
							setRef(idf, x)
						}})
					}
				}
				*out = append(*out, site{name + ": open type with Present=0", "open type with Present=", func() { val.Field(0).SetInt(0) }})
				if present >= 1 && present < vt.NumField() {
					ap, _ := per.ParseTag(per.FieldTag(vt, present))
					ap.RefFieldValue = nil
					collect(val.Field(present), ap, name+"."+vt.Field(present).Name, r, out)
				}
				continue
			}
			if !fp.Optional && f.Kind() == reflect.Ptr {
				ff := f
				*out = append(*out, site{name + ": mandatory component set to nil", "mandatory component set to nil", func() { ff.Set(reflect.Zero(ff.Type())) }})
			}
			collect(f, fp, name, r, out)
		}
	}
}
