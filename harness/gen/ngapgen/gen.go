// Package ngapgen generates constraint-satisfying (and, on request, constraint-violating)
// values of the NGAP Go types by reflection over the types and their aper tags.
package ngapgen

import (
	"fmt"
	"math/rand"
	"reflect"
	"strings"
	"sync"

	"vh/ref/per"
)

// Gen holds the state of one generation.
type Gen struct {
	R      *rand.Rand
	Budget int  // remaining node budget; when exhausted everything is generated minimally
	Big    bool // allow sizes in the 16K region (thorough tier)
	NoExt  bool // never leave the root of an extensible constraint
	ExtBig bool // sizes in the extension range are frequent and reach the 16K fragmentation step (hostile-but-legal seeds)
	// Stats
	OpenAlts []string // names of the open-type alternatives chosen (type.field)
	Features map[string]int
}

func New(r *rand.Rand, budget int) *Gen {
	return &Gen{R: r, Budget: budget, Features: map[string]int{}}
}

func (g *Gen) feat(s string) { g.Features[s]++ }

var (
	canMemo = map[reflect.Type]bool{}
	canMu   sync.Mutex // C20 generates values in several goroutines
)

func isAper(t reflect.Type, name string) bool {
	return t.Name() == name && strings.HasSuffix(t.PkgPath(), "aper")
}

func isChoice(t reflect.Type) bool {
	return t.Kind() == reflect.Struct && t.NumField() > 0 && t.Field(0).Name == "Present" && t.Field(0).Type.Kind() == reflect.Int
}

// Can reports whether a value of t can be generated at all (CHOICEs / open types without alternatives cannot).
func Can(t reflect.Type) bool {
	canMu.Lock()
	defer canMu.Unlock()
	return can(t)
}

func can(t reflect.Type) bool {
	if v, ok := canMemo[t]; ok {
		return v
	}
	canMemo[t] = false // cut cycles
	res := func() bool {
		if isAper(t, "BitString") || isAper(t, "OctetString") || isAper(t, "Enumerated") {
			return true
		}
		switch t.Kind() {
		case reflect.Ptr:
			return can(t.Elem())
		case reflect.Slice:
			if t.Elem().Kind() == reflect.Uint8 {
				return true
			}
			return can(t.Elem())
		case reflect.Struct:
			if t.NumField() == 0 {
				return false // placeholder for a choice-Extensions container no IE is defined for
			}
			if isChoice(t) {
				for i := 1; i < t.NumField(); i++ {
					if can(t.Field(i).Type) {
						return true
					}
				}
				return false
			}
			for i := 0; i < t.NumField(); i++ {
				p, _ := per.ParseTag(per.FieldTag(t, i))
				if p.Optional {
					continue
				}
				ft := t.Field(i).Type
				if ft.Kind() == reflect.Slice && ft.Elem().Kind() != reflect.Uint8 && (p.SizeLB == nil || *p.SizeLB == 0) {
					continue
				}
				if !can(ft) {
					return false
				}
			}
			return true
		}
		return true
	}()
	canMemo[t] = res
	return res
}

// Value generates a value of type t under params p.
func (g *Gen) Value(t reflect.Type, p per.Params) reflect.Value {
	g.Budget--
	switch {
	case isAper(t, "BitString"):
		return g.bitString(t, p)
	case isAper(t, "OctetString"):
		v := reflect.New(t).Elem()
		v.SetBytes(g.octets(p, false))
		return v
	case isAper(t, "Enumerated"):
		v := reflect.New(t).Elem()
		lb, ub := bound(p.ValueLB, 0), bound(p.ValueUB, 0)
		v.SetUint(uint64(lb + g.R.Int63n(ub-lb+1)))
		return v
	}
	switch t.Kind() {
	case reflect.Ptr:
		pv := reflect.New(t.Elem())
		pv.Elem().Set(g.Value(t.Elem(), p))
		return pv
	case reflect.Bool:
		v := reflect.New(t).Elem()
		v.SetBool(g.R.Intn(2) == 0)
		return v
	case reflect.Int, reflect.Int32, reflect.Int64:
		v := reflect.New(t).Elem()
		v.SetInt(g.integer(p))
		return v
	case reflect.String:
		v := reflect.New(t).Elem()
		v.SetString(string(g.octets(p, true)))
		return v
	case reflect.Slice:
		if t.Elem().Kind() == reflect.Uint8 {
			v := reflect.New(t).Elem()
			v.SetBytes(g.octets(p, false))
			return v
		}
		return g.sequenceOf(t, p)
	case reflect.Struct:
		if isChoice(t) {
			return g.choice(t, p)
		}
		return g.sequence(t, p)
	}
	panic("ngapgen: unsupported type " + t.String())
}

func bound(p *int64, def int64) int64 {
	if p == nil {
		return def
	}
	return *p
}

// interesting integers inside [lb,ub]
func (g *Gen) integerIn(lb, ub int64) int64 {
	r := g.R
	span := uint64(ub - lb)
	switch r.Intn(10) {
	case 0:
		return lb
	case 1:
		return ub
	case 2:
		if span >= 1 {
			return lb + 1
		}
	case 3:
		if span >= 1 {
			return ub - 1
		}
	case 4, 5: // around a power of two / octet boundary of the offset
		k := uint(r.Intn(48))
		x := int64(1) << k
		x += int64(r.Intn(3)) - 1
		if x >= 0 && uint64(x) <= span {
			return lb + x
		}
	}
	if span == ^uint64(0)>>1 {
		return lb + r.Int63()
	}
	return lb + r.Int63n(int64(span)+1)
}

func (g *Gen) integer(p per.Params) int64 {
	r := g.R
	hasLB, hasUB := p.ValueLB != nil, p.ValueUB != nil
	if hasLB && hasUB {
		lb, ub := *p.ValueLB, *p.ValueUB
		if p.ValueExt && !g.NoExt && r.Intn(6) == 0 { // outside the extension root
			g.feat("int-extension")
			switch r.Intn(5) {
			case 0:
				return ub + 1
			case 1:
				return ub + 1 + r.Int63n(1<<20)
			case 2, 3: // the 2's-complement octet count changes at 2^(8k-1) and the unsigned one at 2^(8k): both sides of each
				for try := 0; try < 8; try++ {
					v := int64(1)<<uint(8*r.Intn(6)+7+r.Intn(2)) + int64(r.Intn(3)) - 1
					if v > ub {
						return v
					}
				}
			}
			return ub + 1 + r.Int63n(1<<40)
		}
		if uint64(ub-lb) >= 65536 {
			g.feat("int-large-range")
		}
		return g.integerIn(lb, ub)
	}
	if hasLB {
		g.feat("int-semi")
		return g.integerIn(*p.ValueLB, *p.ValueLB+(1<<40))
	}
	g.feat("int-unconstrained")
	x := g.integerIn(0, 1<<40)
	if r.Intn(2) == 0 {
		x = -x
	}
	return x
}

// size chooses a size under a size constraint; root reports whether it is within the root.
func (g *Gen) size(p per.Params, unit string) int {
	r := g.R
	lb := bound(p.SizeLB, 0)
	ub := bound(p.SizeUB, -1)
	capTo := int64(64)
	if unit == "elem" {
		capTo = 3
		if g.Budget < 0 {
			capTo = 0
		}
	} else if g.Budget < 0 {
		capTo = 4
	}
	if ub >= 0 {
		if p.SizeExt && !g.NoExt && g.ExtBig && unit != "elem" && r.Intn(2) == 0 {
			g.feat("size-extension-big-" + unit)
			if unit == "bit" {
				return pick(r, int(ub)+1, int(ub)+8, 1000, 16383, 16384, 16385, 16392, 20000, 32768)
			}
			return pick(r, int(ub)+1, int(ub)+2, 255, 256, 257, 1000, 2000, 3500)
		}
		if p.SizeExt && !g.NoExt && r.Intn(6) == 0 && unit != "elem" {
			g.feat("size-extension-" + unit)
			// only sizes above the root: a size below the root's lower bound is not a value any later protocol
			// version is likely to add, and the property's claim is about values inside the constraints
			return int(ub + 1 + r.Int63n(20))
		}
		if lb == ub {
			return int(lb)
		}
		switch r.Intn(6) {
		case 0:
			return int(lb)
		case 1:
			if ub-lb <= 400 && unit != "elem" || unit == "elem" && ub-lb <= 3 && g.Budget > 200 {
				return int(ub)
			}
		case 2:
			if lb+1 <= ub {
				return int(lb + 1)
			}
		}
		hi := ub
		if hi-lb > capTo {
			hi = lb + capTo
		}
		if unit != "elem" && r.Intn(8) == 0 { // larger strings: around the 127/128 and 255/256 edges
			for _, c := range []int64{126, 127, 128, 129, 254, 255, 256, 257} {
				if c >= lb && c <= ub && r.Intn(4) == 0 {
					return int(c)
				}
			}
		}
		return int(lb + r.Int63n(hi-lb+1))
	}
	// unbounded above
	if unit == "elem" {
		return int(lb + r.Int63n(capTo+1))
	}
	switch r.Intn(12) {
	case 0:
		return int(lb)
	case 1:
		return int(lb) + pick(r, 126, 127, 128, 129)
	case 2:
		return int(lb) + pick(r, 254, 255, 256, 257)
	case 3:
		if g.Big {
			g.feat("size-16k-" + unit)
			return pick(r, 16382, 16383)
		}
	}
	return int(lb + r.Int63n(capTo+1))
}

func pick(r *rand.Rand, xs ...int) int { return xs[r.Intn(len(xs))] }

const printableAlphabet = "ABCDEFGHIJKLMNOPQRSTUVWXYZabcdefghijklmnopqrstuvwxyz0123456789 '()+,-./:=?"

func (g *Gen) octets(p per.Params, printable bool) []byte {
	n := g.size(p, "octet")
	if n == 0 && !printable && g.R.Intn(2) == 0 {
		return nil // the zero value of the Go type: an OCTET STRING of size 0 all the same
	}
	b := make([]byte, n)
	if printable {
		for i := range b {
			b[i] = printableAlphabet[g.R.Intn(len(printableAlphabet))]
		}
		return b
	}
	switch g.R.Intn(6) {
	case 0: // zeros
	case 1:
		for i := range b {
			b[i] = 0xff
		}
	default:
		g.R.Read(b)
	}
	return b
}

func (g *Gen) bitString(t reflect.Type, p per.Params) reflect.Value {
	n := g.size(p, "bit")
	b := make([]byte, (n+7)/8)
	g.R.Read(b)
	if g.R.Intn(5) == 0 {
		for i := range b {
			b[i] = 0xff
		}
	}
	if rem := n % 8; rem != 0 { // canonical: unused bits zero
		b[len(b)-1] &= 0xff << (8 - uint(rem))
	}
	v := reflect.New(t).Elem()
	v.Field(0).SetBytes(b)
	v.Field(1).SetUint(uint64(n))
	g.feat(fmt.Sprintf("bitlen-mod8=%d", n%8))
	return v
}

func elemParams(p per.Params) per.Params {
	p.SizeExt, p.SizeLB, p.SizeUB, p.Optional = false, nil, nil, false
	return p
}

func (g *Gen) sequenceOf(t reflect.Type, p per.Params) reflect.Value {
	et := t.Elem()
	lb := int(bound(p.SizeLB, 0))
	n := lb
	if Can(et) {
		n = g.size(p, "elem")
	}
	if isIEList(et) {
		return g.ieList(t, p, lb)
	}
	out := reflect.MakeSlice(t, 0, n)
	ep := elemParams(p)
	for i := 0; i < n; i++ {
		out = reflect.Append(out, g.Value(et, ep))
	}
	return out
}

// isIEList: elements are {Id, Criticality, Value openType} triples of a ProtocolIE container.
func isIEList(et reflect.Type) bool {
	if et.Kind() != reflect.Struct || et.NumField() != 3 {
		return false
	}
	p, _ := per.ParseTag(per.FieldTag(et, 2))
	return p.OpenType
}

// ieList fills a ProtocolIE container with a random selection of its alternatives (each at most once, in declaration
// order most of the time, sometimes shuffled or repeated: PER does not care).
func (g *Gen) ieList(t reflect.Type, p per.Params, lb int) reflect.Value {
	et := t.Elem()
	vt := et.Field(2).Type
	var alts []int
	for i := 1; i < vt.NumField(); i++ {
		if Can(vt.Field(i).Type) {
			alts = append(alts, i)
		}
	}
	out := reflect.MakeSlice(t, 0, len(alts))
	if len(alts) == 0 {
		return out
	}
	var chosen []int
	switch g.R.Intn(5) {
	case 0: // all
		chosen = alts
	case 1: // exactly one
		chosen = []int{alts[g.R.Intn(len(alts))]}
	default:
		for _, a := range alts {
			if g.R.Intn(2) == 0 {
				chosen = append(chosen, a)
			}
		}
	}
	if len(chosen) < lb {
		chosen = alts[:minInt(len(alts), maxInt(lb, 1))]
	}
	if g.Budget < 0 && len(chosen) > 1 {
		chosen = chosen[:1]
	}
	if g.R.Intn(6) == 0 {
		g.R.Shuffle(len(chosen), func(i, j int) { chosen[i], chosen[j] = chosen[j], chosen[i] })
	}
	for _, a := range chosen {
		out = reflect.Append(out, g.ieWith(et, a))
	}
	return out
}

func minInt(a, b int) int {
	if a < b {
		return a
	}
	return b
}
func maxInt(a, b int) int {
	if a > b {
		return a
	}
	return b
}

// ieWith builds the SEQUENCE {Id, Criticality, Value} with alternative alt of the open type.
func (g *Gen) ieWith(et reflect.Type, alt int) reflect.Value {
	v := reflect.New(et).Elem()
	vt := et.Field(2).Type
	ap, _ := per.ParseTag(per.FieldTag(vt, alt))
	// identifier
	setRef(v.Field(0), bound(ap.RefFieldValue, 0))
	// criticality
	cp, _ := per.ParseTag(per.FieldTag(et.Field(1).Type, 0))
	v.Field(1).Field(0).SetUint(uint64(g.R.Int63n(bound(cp.ValueUB, 2) + 1)))
	val := v.Field(2)
	val.Field(0).SetInt(int64(alt))
	ap2 := ap
	ap2.RefFieldValue = nil
	val.Field(alt).Set(g.Value(vt.Field(alt).Type, ap2))
	g.OpenAlts = append(g.OpenAlts, vt.Name()+"."+vt.Field(alt).Name)
	return v
}

func setRef(f reflect.Value, x int64) {
	if f.Kind() == reflect.Struct && f.NumField() == 1 {
		f = f.Field(0)
	}
	switch f.Kind() {
	case reflect.Int, reflect.Int32, reflect.Int64:
		f.SetInt(x)
	case reflect.Uint64:
		f.SetUint(uint64(x))
	}
}

func (g *Gen) choice(t reflect.Type, p per.Params) reflect.Value {
	v := reflect.New(t).Elem()
	var alts []int
	for i := 1; i < t.NumField(); i++ {
		if Can(t.Field(i).Type) {
			alts = append(alts, i)
		}
	}
	if len(alts) == 0 {
		return v // Present = 0: ungeneratable, callers avoid this through Can
	}
	a := alts[g.R.Intn(len(alts))]
	if g.Budget < 0 {
		a = alts[0]
	}
	v.Field(0).SetInt(int64(a))
	fp, _ := per.ParseTag(per.FieldTag(t, a))
	v.Field(a).Set(g.Value(t.Field(a).Type, fp))
	g.feat("choice")
	return v
}

func (g *Gen) sequence(t reflect.Type, p per.Params) reflect.Value {
	v := reflect.New(t).Elem()
	n := t.NumField()
	for i := 0; i < n; i++ {
		fp, _ := per.ParseTag(per.FieldTag(t, i))
		ft := t.Field(i).Type
		if fp.Optional {
			if !Can(ft) || g.Budget < 0 || g.R.Intn(2) == 0 {
				g.feat("optional-absent")
				continue
			}
			g.feat("optional-present")
		}
		if fp.OpenType {
			// Value of an {Id, Criticality, Value} triple outside an IE list (e.g. the message value of InitiatingMessage, SingleContainer)
			vt := ft
			var alts []int
			for a := 1; a < vt.NumField(); a++ {
				if Can(vt.Field(a).Type) {
					alts = append(alts, a)
				}
			}
			if len(alts) == 0 {
				continue
			}
			a := alts[g.R.Intn(len(alts))]
			ap, _ := per.ParseTag(per.FieldTag(vt, a))
			for j := 0; j < i; j++ {
				if t.Field(j).Name == fp.RefFieldName {
					setRef(v.Field(j), bound(ap.RefFieldValue, 0))
				}
			}
			v.Field(i).Field(0).SetInt(int64(a))
			ap.RefFieldValue = nil
			v.Field(i).Field(a).Set(g.Value(vt.Field(a).Type, ap))
			g.OpenAlts = append(g.OpenAlts, vt.Name()+"."+vt.Field(a).Name)
			continue
		}
		v.Field(i).Set(g.Value(ft, fp))
	}
	return v
}
