// Package nasdesc describes the NAS message structs of the library under test: structure by reflection over
// nas.GmmMessage / nas.GsmMessage, the IEI and message-type constants (which reflection cannot see) by parsing the
// working tree's source with go/ast. The generator therefore follows the tree it is testing.
package nasdesc

import (
	"fmt"
	"go/ast"
	"go/parser"
	"go/token"
	"os"
	"path/filepath"
	"reflect"
	"strconv"
	"strings"
	"sync"

	"free5gclib/nas"
)

type Member struct {
	Name     string
	Index    int
	Optional bool
	IEI      uint8 // optional members: the <Message><Member>Type constant
	HasIEI   bool
	Type     reflect.Type // struct type (pointer stripped)
}

type Msg struct {
	Name    string
	Typ     reflect.Type
	Gsm     bool
	MsgType uint8
	Members []Member // all members in struct order (header members included)
	// HeaderLen is the number of leading members that form the message header (EPD, SHT|PSI, [PTI], message type).
	HeaderLen int
}

func (m *Msg) Optionals() []Member {
	var out []Member
	for _, x := range m.Members {
		if x.Optional {
			out = append(out, x)
		}
	}
	return out
}

var (
	once   sync.Once
	msgs   []Msg
	loadEr error
)

func repoRoot() string {
	if v := os.Getenv("VERIF_REPO"); v != "" {
		return v
	}
	return "/repo"
}

// constants parses `const ( Name type = value )` declarations of all non-test files of a directory.
func constants(dir string) (map[string]uint64, error) {
	out := map[string]uint64{}
	fset := token.NewFileSet()
	files, err := filepath.Glob(filepath.Join(dir, "*.go"))
	if err != nil {
		return nil, err
	}
	for _, f := range files {
		if strings.HasSuffix(f, "_test.go") {
			continue
		}
		af, err := parser.ParseFile(fset, f, nil, 0)
		if err != nil {
			return nil, err
		}
		for _, d := range af.Decls {
			gd, ok := d.(*ast.GenDecl)
			if !ok || gd.Tok != token.CONST {
				continue
			}
			for _, s := range gd.Specs {
				vs := s.(*ast.ValueSpec)
				for i, n := range vs.Names {
					if i >= len(vs.Values) {
						continue
					}
					if bl, ok := vs.Values[i].(*ast.BasicLit); ok && bl.Kind == token.INT {
						if v, err := strconv.ParseUint(bl.Value, 0, 64); err == nil {
							out[n.Name] = v
						}
					}
				}
			}
		}
	}
	return out, nil
}

// Load returns the descriptors of all message types reachable from nas.Message.
func Load() ([]Msg, error) {
	once.Do(func() {
		root := repoRoot()
		mc, err := constants(filepath.Join(root, "src/free5gclib/nas/nasMessage"))
		if err != nil {
			loadEr = err
			return
		}
		nc, err := constants(filepath.Join(root, "src/free5gclib/nas"))
		if err != nil {
			loadEr = err
			return
		}
		for gi, holder := range []reflect.Type{reflect.TypeOf(nas.GmmMessage{}), reflect.TypeOf(nas.GsmMessage{})} {
			for i := 1; i < holder.NumField(); i++ {
				f := holder.Field(i)
				if f.Type.Kind() != reflect.Ptr {
					continue
				}
				t := f.Type.Elem()
				m := Msg{Name: t.Name(), Typ: t, Gsm: gi == 1}
				if v, ok := nc["MsgType"+t.Name()]; ok {
					m.MsgType = uint8(v)
				} else if t.Name() != "SecurityProtected5GSNASMessage" {
					loadEr = fmt.Errorf("no MsgType constant for %s", t.Name())
					return
				}
				m.HeaderLen = 3
				if m.Gsm {
					m.HeaderLen = 4
				}
				for j := 0; j < t.NumField(); j++ {
					mf := t.Field(j)
					mem := Member{Name: mf.Name, Index: j, Type: mf.Type}
					if mf.Type.Kind() == reflect.Ptr {
						mem.Optional = true
						mem.Type = mf.Type.Elem()
						if v, ok := mc[t.Name()+mf.Name+"Type"]; ok {
							mem.IEI, mem.HasIEI = uint8(v), true
						}
					}
					m.Members = append(m.Members, mem)
				}
				msgs = append(msgs, m)
			}
		}
	})
	return msgs, loadEr
}
