// Package checks holds one monitor per property (C01..C20). Each file registers a fw.Check.
package checks

import (
	"bytes"
	"encoding/hex"
	"fmt"
	"math/rand"
	"strings"
)

func digits(r *rand.Rand, n int) string {
	b := make([]byte, n)
	for i := range b {
		b[i] = byte('0' + r.Intn(10))
	}
	return string(b)
}

func rbytes(r *rand.Rand, n int) []byte {
	b := make([]byte, n)
	r.Read(b)
	return b
}

func hexs(b []byte) string { return hex.EncodeToString(b) }

// cornerBytes returns n bytes that are, by turns, random, all-zero, all-FF or single-bit.
func cornerBytes(r *rand.Rand, n int) []byte {
	b := make([]byte, n)
	switch r.Intn(10) {
	case 0:
	case 1:
		for i := range b {
			b[i] = 0xff
		}
	case 2:
		b[r.Intn(n)] = 1 << uint(r.Intn(8))
	case 3:
		return blockyBytes(r, n)
	case 4: // leading zero octets (values that lose octets when they pass through an integer or a trimmed string)
		r.Read(b)
		for i, z := 0, 1+r.Intn(3); i < z && i < n; i++ {
			b[i] = 0
		}
	default:
		r.Read(b)
	}
	return b
}

// blockyBytes returns n bytes made of runs: starting at a random phase, each aligned block of 4, 8 or 16 octets is
// all-zero, all-ones, a repetition of one octet, or random. Word-oriented code (GF(2^64) MAC evaluation, keystream
// words, CMAC blocks) treats all-zero and all-ones words specially more often than any other value, and random octets
// produce such a word with probability 2^-32 .. 2^-128.
func blockyBytes(r *rand.Rand, n int) []byte {
	b := make([]byte, n)
	r.Read(b)
	blk := []int{4, 8, 16}[r.Intn(3)]
	for i := -r.Intn(blk); i < n; i += blk {
		var fill int
		switch r.Intn(5) {
		case 0, 1:
			fill = 0x00
		case 2:
			fill = 0xff
		case 3:
			fill = r.Intn(256)
		default:
			continue // leave random
		}
		for j := i; j < i+blk && j < n; j++ {
			if j >= 0 {
				b[j] = byte(fill)
			}
		}
	}
	return b
}

func pick[T any](r *rand.Rand, xs ...T) T { return xs[r.Intn(len(xs))] }

func kv(pairs ...any) string {
	var sb strings.Builder
	for i := 0; i+1 < len(pairs); i += 2 {
		if i > 0 {
			sb.WriteByte(' ')
		}
		fmt.Fprintf(&sb, "%v=%v", pairs[i], pairs[i+1])
	}
	return sb.String()
}

func minInt(a, b int) int {
	if a < b {
		return a
	}
	return b
}

func maxInt(a, b int) int {
	if a > b {
		return a
	}
	return b
}

// retention oracle: a result handed out by the code under test must not change when the code is called again
// (results that alias a pooled / package-level buffer pass every call-by-call comparison). Each check keeps the
// previous result of a family together with a private copy and compares them at the next call in the same process.
type retained struct {
	got, want []byte
	desc      string
}

var retainedBy = map[string]*retained{}

// retainCheck returns a description of the earlier result that has changed, or "". Then it remembers (got, desc).
func retainCheck(family string, got []byte, desc string) string {
	msg := ""
	if r := retainedBy[family]; r != nil && !bytes.Equal(r.got, r.want) {
		msg = fmt.Sprintf("an earlier result (%s) was %x when it was returned and reads %x after a later call (%s)", r.desc, clip(r.want, 48), clip(r.got, 48), desc)
	}
	if got == nil {
		delete(retainedBy, family)
	} else {
		retainedBy[family] = &retained{got: got, want: append([]byte(nil), got...), desc: desc}
	}
	return msg
}
