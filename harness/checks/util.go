// Package checks holds one monitor per property (C01..C20). Each file registers a fw.Check.
package checks

import (
	"bytes"
	"encoding/hex"
	"fmt"
	"math/rand"
	"net"
	"strings"
)

func digits(r *rand.Rand, n int) string {
	b := make([]byte, n)
	for i := range b {
		b[i] = byte('0' + r.Intn(10))
	}
	return string(b)
}

func rbytes(r *rand.Rand, n int) []byte {
	b := make([]byte, n)
	r.Read(b)
	return b
}

func hexs(b []byte) string { return hex.EncodeToString(b) }

// cornerBytes returns n bytes that are, by turns, random, all-zero, all-FF or single-bit.
func cornerBytes(r *rand.Rand, n int) []byte {
	b := make([]byte, n)
	switch r.Intn(10) {
	case 0:
	case 1:
		for i := range b {
			b[i] = 0xff
		}
	case 2:
		b[r.Intn(n)] = 1 << uint(r.Intn(8))
	case 3:
		return blockyBytes(r, n)
	case 4: // leading zero octets (values that lose octets when they pass through an integer or a trimmed string)
		r.Read(b)
		for i, z := 0, 1+r.Intn(3); i < z && i < n; i++ {
			b[i] = 0
		}
	default:
		r.Read(b)
	}
	return b
}

// blockyBytes returns n bytes made of runs: starting at a random phase, each aligned block of 4, 8 or 16 octets is
// all-zero, all-ones, a repetition of one octet, or random. Word-oriented code (GF(2^64) MAC evaluation, keystream
// words, CMAC blocks) treats all-zero and all-ones words specially more often than any other value, and random octets
// produce such a word with probability 2^-32 .. 2^-128.
func blockyBytes(r *rand.Rand, n int) []byte {
	b := make([]byte, n)
	r.Read(b)
	blk := []int{4, 8, 16}[r.Intn(3)]
	for i := -r.Intn(blk); i < n; i += blk {
		var fill int
		switch r.Intn(5) {
		case 0, 1:
			fill = 0x00
		case 2:
			fill = 0xff
		case 3:
			fill = r.Intn(256)
		default:
			continue // leave random
		}
		for j := i; j < i+blk && j < n; j++ {
			if j >= 0 {
				b[j] = byte(fill)
			}
		}
	}
	return b
}

// ipv4Class returns an address from one of the special-purpose IPv4 blocks (RFC 6890) or a plain random one: predicates
// of the standard library (IsLinkLocalUnicast, IsLoopback, IsMulticast, IsPrivate, IsUnspecified ...) and home-made
// validity checks single these blocks out, and a uniformly random address hits most of them with probability < 2^-16.
// To the emulator an address is four octets.
func ipv4Class(r *rand.Rand) net.IP {
	x, y, z := byte(r.Intn(256)), byte(r.Intn(256)), byte(r.Intn(256))
	switch r.Intn(16) {
	case 0:
		return net.IPv4(169, 254, y, z) // link local
	case 1:
		return net.IPv4(127, x, y, z) // loopback
	case 2:
		return net.IPv4(224+x%16, x, y, z) // multicast
	case 3:
		return net.IPv4(240+x%16, x, y, z) // reserved / broadcast neighbourhood
	case 4:
		return net.IPv4(0, x, y, z) // "this network"
	case 5:
		return net.IPv4(100, 64+x%64, y, z) // shared address space
	case 6:
		return net.IPv4(192, 0, pick(r, byte(0), 2), z) // protocol assignments / documentation
	case 7:
		return net.IPv4(198, 18+x%2, y, z) // benchmarking
	case 8:
		return net.IPv4(192, 88, 99, z) // 6to4 relay
	case 9:
		return net.IPv4(pick(r, byte(10), 172, 192), pick(r, byte(16), 168, 31, x), y, z) // private
	case 10:
		return net.IPv4(255, 255, 255, 255)
	case 11:
		return net.IPv4(0, 0, 0, 0)
	case 12:
		return net.IPv4(x, y, z, pick(r, byte(0), 255)) // network / broadcast looking host part
	}
	return net.IPv4(x, y, z, byte(r.Intn(256)))
}

// ipv6Class: the same for IPv6 (link local, multicast, unique local, loopback, unspecified, documentation, mapped, NAT64).
func ipv6Class(r *rand.Rand) net.IP {
	ip := net.IP(rbytes(r, 16))
	switch r.Intn(12) {
	case 0:
		copy(ip, []byte{0xfe, 0x80, 0, 0, 0, 0, 0, 0})
	case 1:
		ip[0], ip[1] = 0xff, byte(r.Intn(16))
	case 2:
		ip[0] = 0xfc + byte(r.Intn(2))
	case 3:
		ip = net.ParseIP("::1")
	case 4:
		ip = net.ParseIP("::")
	case 5:
		copy(ip, []byte{0x20, 0x01, 0x0d, 0xb8})
	case 6:
		copy(ip, []byte{0, 0, 0, 0, 0, 0, 0, 0, 0, 0, 0xff, 0xff})
	case 7:
		copy(ip, []byte{0, 0x64, 0xff, 0x9b, 0, 0, 0, 0, 0, 0, 0, 0})
	case 8:
		copy(ip, []byte{0xfe, 0xc0}) // deprecated site local
	}
	return ip
}

// sdString: a slice differentiator as configuration files and APIs spell it - six hex digits in lower, upper or mixed
// case (TS 29.571 allows all three), with the reserved value ffffff and letter-free values among them.
// mixCase: each letter of a hexadecimal text in upper or lower case on its own.
func mixCase(r *rand.Rand, s string) string {
	b := []byte(s)
	for i := range b {
		if b[i] >= 'a' && b[i] <= 'f' && r.Intn(2) == 0 {
			b[i] -= 'a' - 'A'
		}
	}
	return string(b)
}

func sdString(r *rand.Rand) string {
	s := hexs(rbytes(r, 3))
	switch r.Intn(8) {
	case 0:
		return strings.ToUpper(s)
	case 1: // mixed case
		b := []byte(s)
		for i := range b {
			if r.Intn(2) == 0 {
				b[i] = byte(strings.ToUpper(string(b[i]))[0])
			}
		}
		return string(b)
	case 2:
		return pick(r, "ffffff", "FFFFFF", "000000", "0A0B0C", "abcdef", "ABCDEF", "00000a", "00000A")
	}
	return s
}

// guarded places a copy of b inside a larger record (canary octets on both sides, the capacity of the returned view
// reaching to the end of the record - what a sub-slice of a caller's buffer looks like) and returns the view and a
// function that tells whether the callee wrote outside the view (or, when mayWriteView is false, anywhere at all).
func guarded(r *rand.Rand, b []byte) (view []byte, damaged func(mayWriteView bool) string) {
	pre, post := 8+r.Intn(9), 24+r.Intn(9)
	rec := bytes.Repeat([]byte{0xa5}, pre+len(b)+post)
	copy(rec[pre:], b)
	was := append([]byte(nil), rec...)
	view = rec[pre : pre+len(b)]
	return view, func(mayWriteView bool) string {
		for i := range rec {
			if rec[i] != was[i] && !(mayWriteView && i >= pre && i < pre+len(b)) {
				where := "behind"
				switch {
				case i < pre:
					where = "in front of"
				case i < pre+len(b):
					where = "inside"
				}
				return fmt.Sprintf("the callee changed the caller's memory %s the argument (octet %d of a record of %d, argument at %d..%d): %02x -> %02x", where, i, len(rec), pre, pre+len(b)-1, was[i], rec[i])
			}
		}
		return ""
	}
}

func pick[T any](r *rand.Rand, xs ...T) T { return xs[r.Intn(len(xs))] }

func kv(pairs ...any) string {
	var sb strings.Builder
	for i := 0; i+1 < len(pairs); i += 2 {
		if i > 0 {
			sb.WriteByte(' ')
		}
		fmt.Fprintf(&sb, "%v=%v", pairs[i], pairs[i+1])
	}
	return sb.String()
}

func minInt(a, b int) int {
	if a < b {
		return a
	}
	return b
}

func maxInt(a, b int) int {
	if a > b {
		return a
	}
	return b
}

// retention oracle: a result handed out by the code under test must not change when the code is called again
// (results that alias a pooled / package-level buffer pass every call-by-call comparison). Each check keeps the
// previous result of a family together with a private copy and compares them at the next call in the same process.
type retained struct {
	got, want []byte
	desc      string
	call      int
}

var retainedBy = map[string]*retained{}

// retainCheck returns a description of an earlier result that has changed, or "". Then it remembers (got, desc). Two
// horizons: the result of the PREVIOUS call of the family is looked at on every call; results from long ago - the 1st,
// 2nd, 4th, 8th ... call of the process and every 4096th - stay remembered for the life of the process (at most 48 of
// them, up to 64 KiB each) and are all looked at every 256 calls: storage that is handed out again only after many
// calls or many megabytes (a ring, a pool with a long queue) shows there and nowhere else.
func retainCheck(family string, got []byte, desc string) string {
	msg := ""
	if r := retainedBy[family]; r != nil && !bytes.Equal(r.got, r.want) {
		msg = fmt.Sprintf("an earlier result (%s) was %x when it was returned and reads %x after a later call (%s)", r.desc, clip(r.want, 48), clip(r.got, 48), desc)
	}
	lt := longTerm[family]
	if lt == nil {
		lt = &longRetained{}
		longTerm[family] = lt
	}
	lt.calls++
	if msg == "" && lt.calls%256 == 0 {
		for _, r := range lt.kept {
			if !bytes.Equal(r.got, r.want) {
				msg = fmt.Sprintf("a result returned long ago (%s; call %d of this process, now at call %d) was %x when it was returned and reads %x now (%s)", r.desc, r.call, lt.calls, clip(r.want, 48), clip(r.got, 48), desc)
				break
			}
		}
	}
	if got == nil {
		delete(retainedBy, family)
	} else {
		retainedBy[family] = &retained{got: got, want: append([]byte(nil), got...), desc: desc}
		if n := lt.calls; (n&(n-1) == 0 || n%4096 == 0) && len(lt.kept) < 48 && len(got) > 0 && len(got) <= 1<<16 {
			lt.kept = append(lt.kept, &retained{got: got, want: append([]byte(nil), got...), desc: desc, call: n})
		}
	}
	return msg
}

type longRetained struct {
	calls int
	kept  []*retained
}

var longTerm = map[string]*longRetained{}
