package checks

import (
	"bytes"
	"encoding/hex"
	"fmt"
	"math/rand"
	"reflect"
	"runtime/debug"

	"free5gclib/nas"
	"free5gclib/ngap/ngapType"
	"tglib"

	"vh/fw"
	"vh/ref/sec"
)

// C10 — downlink NAS messages protected by a conformant AMF (ref/sec.ProtectNAS with the AMF's own COUNT) are
// recovered exactly by tglib.NASDecode / GetNasPdu, and the UE's downlink COUNT estimate equals the AMF's COUNT.
func init() {
	fw.Register(&fw.Check{
		ID:    "C10",
		Level: "exploration",
		Rule: "case = one downlink history on one UE context: pair (NIA1|NIA2)x(NEA0|NEA1|NEA2) by index, random keys, up to 300 (quick) / 700 (thorough) messages; the AMF side sends plain messages, integrity-only messages in clear " +
			"(types 1,3) and ciphered ones (types 2,4); its COUNT advances by 1 or by random skips 1..40 (lost messages), wraps the 8-bit SQN several times, and new-context messages reset it to 0. " +
			"After each message: decoded message == library decode of the plain bytes, DLCount == AMF COUNT. One message in four goes through GetNasPdu inside a DownlinkNASTransport. " +
			"Cases 0..2 are pre-computed vectors: NAS-MAC 00000000; a MAC that also verifies under the stale overflow value at the 255->0 wrap; the same after skipped sequence numbers (COUNT 8 -> 0x107). distinct = hash(keys, history); non-trivial = >= 2 protected messages",
		Assumptions: []string{
			"BEARER = 1, DIRECTION = 1 (downlink); skips stay below 128 so the COUNT estimate is unambiguous",
			"MAC verification failures are not part of this property (the library only prints them)",
			"plain downlink messages are hand-assembled well-formed 5GMM messages (Authentication Request, Security Mode Command, Registration Accept, DL NAS Transport, Configuration Update Command, Service Accept, Deregistration Accept)",
		},
		N: func(t string) int {
			if t == "thorough" {
				return 4800
			}
			return 480
		},
		Batch: 8,
		Init:  sec.SelfTest,
		Run:   runC10,
	})
}

// plainDownlink hand-assembles a well-formed plain downlink 5GMM message.
func plainDownlink(r *rand.Rand) ([]byte, string) {
	switch r.Intn(8) {
	case 0: // AUTHENTICATION REQUEST: ngKSI, ABBA(LV), RAND(TV 21), AUTN(TLV 20)
		b := []byte{0x7e, 0x00, 0x56, byte(r.Intn(7)), 0x02, 0x00, 0x00, 0x21}
		b = append(b, rbytes(r, 16)...)
		b = append(b, 0x20, 0x10)
		return append(b, rbytes(r, 16)...), "AuthenticationRequest"
	case 1: // SECURITY MODE COMMAND: selected algs, ngKSI, replayed UE security capabilities (LV 2..8), optional IMEISV request (E-), additional 5G security information (36 TLV)
		b := []byte{0x7e, 0x00, 0x5d, byte(r.Intn(3))<<4 | byte(1+r.Intn(2)), byte(r.Intn(7))}
		n := 2 + r.Intn(3)*2
		b = append(b, byte(n))
		b = append(b, rbytes(r, n)...)
		if r.Intn(2) == 0 {
			b = append(b, 0xe1)
		}
		if r.Intn(2) == 0 {
			b = append(b, 0x36, 0x01, byte(r.Intn(4)))
		}
		return b, "SecurityModeCommand"
	case 2: // REGISTRATION ACCEPT: 5GS registration result (LV 1), 5G-GUTI (77 TLV-E 11)
		b := []byte{0x7e, 0x00, 0x42, 0x01, byte(1 + r.Intn(3))}
		if r.Intn(4) != 0 {
			b = append(b, 0x77, 0x00, 0x0b, 0xf2)
			b = append(b, rbytes(r, 10)...)
		}
		if r.Intn(2) == 0 { // T3512 value (5E TLV 1)
			b = append(b, 0x5e, 0x01, byte(r.Intn(256)))
		}
		return b, "RegistrationAccept"
	case 3, 4: // DL NAS TRANSPORT: payload container type 1, container LV-E of any length, optional PDU session id (12 TV)
		n := 1 + r.Intn(200)
		if r.Intn(12) == 0 { // a payload container is an LV-E of up to 65535 octets: lengths around the buffer sizes implementations like
			n = pick(r, 255, 256, 2030+r.Intn(30), 2047, 2048, 2049, 4095, 4096, 4097, 8191, 8192, 16383, 16384, 32768, 65535, 300+r.Intn(65000))
		}
		b := []byte{0x7e, 0x00, 0x68, 0x01, byte(n >> 8), byte(n)}
		if r.Intn(2) == 0 {
			b = append(b, blockyBytes(r, n)...)
		} else {
			b = append(b, rbytes(r, n)...)
		}
		if r.Intn(2) == 0 {
			b = append(b, 0x12, byte(r.Intn(256)))
		}
		return b, "DLNASTransport"
	case 5: // CONFIGURATION UPDATE COMMAND with optional full network name (43 TLV)
		b := []byte{0x7e, 0x00, 0x54}
		if r.Intn(2) == 0 {
			n := 1 + r.Intn(30)
			b = append(b, 0x43, byte(n))
			b = append(b, rbytes(r, n)...)
		}
		return b, "ConfigurationUpdateCommand"
	case 6:
		return []byte{0x7e, 0x00, 0x4e}, "ServiceAccept"
	default:
		return []byte{0x7e, 0x00, 0x46}, "DeregistrationAccept"
	}
}

// c10SpecialMAC: a MAC is 32 pseudo-random bits; 00000000 is as legitimate a value as any other, and no random history
// will ever show it (2^-32 per message). One pre-computed vector (128-NIA2 / 128-NEA2, found by search once) is part of
// every run: a protected AUTHENTICATION REQUEST at COUNT 3 whose NAS-MAC is 00000000, inside a short history.
func c10SpecialMAC() (o fw.Outcome) {
	kInt, kEnc := unhex("5a0f1c3e7b2d4968a1b0c9d8e7f60514"), unhex("c3a5e1f2079b8d6412fe34ab56cd7890")
	autn, rnd := unhex("6d1f3a92c7e48000b4a15c0e9d27f386"), unhex("330045c483089c1c91e2d3c4b5a69788")
	authReq := append(append(append([]byte{0x7e, 0x00, 0x56, 0x00, 0x02, 0x00, 0x00, 0x21}, rnd...), 0x20, 0x10), autn...)
	o.Input = fmt.Sprintf("NIA2/NEA2 kint=%x kenc=%x: CONFIGURATION UPDATE COMMAND (COUNT 1, 2), AUTHENTICATION REQUEST with RAND %x (COUNT 3, NAS-MAC 00000000), CONFIGURATION UPDATE COMMAND (COUNT 4)", kInt, kEnc, rnd)
	o.Digest, o.Nontrivial = fw.HashS("special-mac"), true
	o.Tag("special-mac-value")
	ue := tglib.NewRanUeContext("imsi-208930000000003", 1, 2, 2)
	copy(ue.KnasInt[:], kInt)
	copy(ue.KnasEnc[:], kEnc)
	for count, plain := range [][]byte{nil, {0x7e, 0x00, 0x54}, {0x7e, 0x00, 0x54}, authReq, {0x7e, 0x00, 0x54}} {
		if count == 0 {
			continue
		}
		wire, err := sec.ProtectNAS(2, 2, kInt, kEnc, uint32(count), 1, 1, 2, true, plain)
		if err != nil {
			o.Inconcl("reference protect: %v", err)
			return
		}
		if count == 3 && !bytes.Equal(wire[2:6], []byte{0, 0, 0, 0}) {
			o.Inconcl("the stored vector no longer yields NAS-MAC 00000000 under the reference (got %x)", wire[2:6])
			return
		}
		got, err := tglib.NASDecode(ue, 2, append([]byte(nil), wire...))
		if err != nil || got == nil {
			o.Fail("not-recovered", "message at COUNT %d (NAS-MAC %x) is not recovered: %v", count, wire[2:6], err)
			return
		}
		back, err := got.PlainNasEncode()
		if err != nil || !bytes.Equal(back, plain) {
			o.Fail("not-recovered", "message at COUNT %d (NAS-MAC %x) is recovered as %x, the AMF protected %x", count, wire[2:6], back, plain)
			return
		}
		if ue.DLCount.Get() != uint32(count) {
			o.Fail("dl-count", "after the message at COUNT %d the UE's downlink COUNT is %#x", count, ue.DLCount.Get())
			return
		}
		o.Count("messages", 1)
	}
	o.Count("special_mac_vectors", 1)
	return
}

// c10CoincidingMAC: the second pre-computed vector (found by one search over 2^32 values of a 5G-TMSI). The message a
// conformant AMF protects with COUNT 0x000100 - the first one after the 8-bit sequence number wrapped - carries a NAS-MAC
// that ALSO verifies under COUNT 0x000000. A receiver that lets a trial integrity check decide whether the overflow
// counter moves keeps the old value here; the wrap rule (sequence number went backwards) does not.
func c10CoincidingMAC(variant int) (o fw.Outcome) {
	kInt, kEnc := unhex("5a0f1c3e7b2d4968a1b0c9d8e7f60514"), unhex("c3a5e1f2079b8d6412fe34ab56cd7890")
	// variant 0: every COUNT 1..0x103 is sent, the coincidence sits on 0x100 (the sequence number falls from 255 to 0);
	// variant 1: COUNT 1..8, then - sequence numbers skipped, as the property allows - 0x107 (the sequence number falls
	// from 8 to 7, ONE below its predecessor: inside any "reordering window" a receiver might apply), then 0x108, 0x109
	tmsi, special := "5700d286", 0x100
	var counts []int
	for c := 1; c <= 0x103; c++ {
		counts = append(counts, c)
	}
	if variant == 1 {
		tmsi, special = "674c13b8", 0x107
		counts = []int{1, 2, 3, 4, 5, 6, 7, 8, 0x107, 0x108, 0x109}
	}
	cuc := append([]byte{0x7e, 0x00, 0x54, 0x77, 0x00, 0x0b, 0xf2, 0x02, 0xf8, 0x39, 0xca, 0xfe, 0x00}, unhex(tmsi)...)
	o.Input = fmt.Sprintf("NIA2/NEA2 kint=%x kenc=%x: CONFIGURATION UPDATE COMMANDs at COUNT %d..%d, then one assigning 5G-TMSI %s at COUNT %#x (its NAS-MAC verifies under COUNT %#x as well), then %d more", kInt, kEnc, counts[0], counts[len(counts)-4], tmsi, special, special-0x100, 3)
	o.Digest, o.Nontrivial = fw.HashS("coinciding-mac", tmsi), true
	o.Tag("mac-coincides-under-stale-overflow")
	ue := tglib.NewRanUeContext("imsi-208930000000003", 1, 2, 2)
	copy(ue.KnasInt[:], kInt)
	copy(ue.KnasEnc[:], kEnc)
	for _, count := range counts {
		plain := []byte{0x7e, 0x00, 0x54}
		if count == special {
			plain = cuc
		}
		wire, err := sec.ProtectNAS(2, 2, kInt, kEnc, uint32(count), 1, 1, 2, true, plain)
		if err != nil {
			o.Inconcl("reference protect: %v", err)
			return
		}
		if count == special {
			mac, merr := sec.NIA(2, kInt, uint32(special-0x100), 1, 1, wire[6:]) // the same sequence number and ciphertext under the stale COUNT
			if merr != nil || !bytes.Equal(mac, wire[2:6]) {
				o.Inconcl("the stored vector no longer coincides under the reference (COUNT %#x: %x, COUNT %#x: %x, %v)", special, wire[2:6], special-0x100, mac, merr)
				return
			}
		}
		got, err := tglib.NASDecode(ue, 2, append([]byte(nil), wire...))
		if err != nil || got == nil {
			o.Fail("not-recovered", "message at COUNT %#x (NAS-MAC %x) is not recovered: %v", count, wire[2:6], err)
			return
		}
		back, err := got.PlainNasEncode()
		if err != nil || !bytes.Equal(back, plain) {
			o.Fail("not-recovered", "message at COUNT %#x (NAS-MAC %x) is recovered as %x, the AMF protected %x", count, wire[2:6], back, plain)
			return
		}
		if ue.DLCount.Get() != uint32(count) {
			o.Fail("dl-count", "after the message at COUNT %#x the UE's downlink COUNT is %#x", count, ue.DLCount.Get())
			return
		}
		o.Count("messages", 1)
	}
	o.Count("special_mac_vectors", 1)
	return
}

func unhex(s string) []byte { b, _ := hex.DecodeString(s); return b }

func runC10(c *fw.Case) (o fw.Outcome) {
	if c.Idx == 0 {
		return c10SpecialMAC()
	}
	if c.Idx == 1 || c.Idx == 2 {
		return c10CoincidingMAC(c.Idx - 1)
	}
	r := c.R
	iAlg := uint8(1 + c.Idx%2)
	cAlg := uint8((c.Idx / 2) % 3)
	ue := tglib.NewRanUeContext("imsi-"+digits(r, 15), int64(r.Intn(1000)), cAlg, iAlg)
	copy(ue.KnasEnc[:], rbytes(r, 16))
	copy(ue.KnasInt[:], rbytes(r, 16))
	steps := 300
	if c.Thorough() {
		steps = 700
	}
	if c.Idx%2 == 1 { // the uplink counter of the same UE is somewhere else: the downlink estimate must not depend on it
		ue.ULCount.Set(uint16(r.Intn(1<<16)), uint8(r.Intn(256)))
	}
	profile := (c.Idx / 6) % 3
	// aimed keystream (one ciphering history in four): K_NASenc is searched so that at one downlink COUNT the keystream
	// makes the CIPHERTEXT begin like a plain or already-unprotected message (7e 00, 7e 02, 2e 01 ...). What a message
	// looks like after ciphering is chance; a receiver that inspects the ciphertext to decide whether to decipher is
	// wrong for 1 message in 65536, and no random history shows that.
	aimCount, aimed := uint32(0), false
	if cAlg != 0 && (c.Idx/6)%4 == 1 {
		aimCount = uint32(2 + r.Intn(40))
		target := pick(r, [2]byte{0x7e, 0x00}, [2]byte{0x7e, 0x00}, [2]byte{0x7e, 0x02}, [2]byte{0x7e, 0x01}, [2]byte{0x2e, 0x01})
		want := [2]byte{0x7e ^ target[0], 0x00 ^ target[1]}
		key := make([]byte, 16)
		for try := 0; try < 1<<20; try++ {
			r.Read(key)
			ks, _ := sec.NEA(cAlg, key, aimCount, 1, 1, []byte{0, 0})
			if ks[0] == want[0] && ks[1] == want[1] {
				copy(ue.KnasEnc[:], key)
				aimed = true
				o.Tag(fmt.Sprintf("aimed-ciphertext-prefix=%02x%02x", target[0], target[1]))
				break
			}
		}
	}
	o.Tag(fmt.Sprintf("NIA%d/NEA%d", iAlg, cAlg), fmt.Sprintf("reset-profile=%d", profile))
	hist := fw.Hash(ue.KnasEnc[:], ue.KnasInt[:], []byte{cAlg, iAlg})
	var trace []string
	protected := 0
	amfCount := uint32(0)
	defer func() {
		if rec := recover(); rec != nil {
			st := string(debug.Stack())
			o.Verdict = fw.Held
			o.Fail("panic:"+fw.TopRepoFrame(st), "panic at message %d of the history: %v\n%s", len(trace), rec, clipS(st, 1200))
		}
		o.Digest = hist
		o.Nontrivial = protected >= 2
		n := len(trace)
		if n > 12 {
			trace = append(trace[:6], append([]string{fmt.Sprintf("... %d more ...", n-12)}, trace[n-6:]...)...)
		}
		o.Input = fmt.Sprintf("NIA%d/NEA%d kint=%x kenc=%x history(%d msgs): %v", iAlg, cAlg, ue.KnasInt, ue.KnasEnc, n, trace)
	}()
	for s := 0; s < steps; s++ {
		// uplink traffic of the same UE in between (one history in two): sending under the current context (no new
		// context taken into use) leaves the downlink estimate alone
		if c.Idx%4 >= 2 && s > 0 && r.Intn(6) == 0 {
			before := ue.DLCount.Get()
			up, ukind := plainUplink(r)
			func() {
				defer func() { recover() }() // what the encoder produces is C06's business
				tglib.EncodeNasPduWithSecurity(ue, up, uint8(1+r.Intn(2)), true, false)
			}()
			o.Count("uplink_messages_interleaved", 1)
			trace = append(trace, "->"+ukind)
			if ue.DLCount.Get() != before {
				o.Fail("dl-count-changed-by-uplink", "message %d: sending an uplink %s under the current context moved the downlink COUNT estimate from %#x to %#x", s, ukind, before, ue.DLCount.Get())
				return
			}
		}
		// somebody else's message that the library REFUSES in between (one history in three): another UE context whose
		// algorithm is not implemented (128-NIA3 / 128-NEA3 / reserved), or a message too short to hold a MAC. Whatever that
		// call returns, this context's next message is recovered as before.
		if c.Idx%3 == 2 && s > 0 && r.Intn(6) == 0 {
			other := tglib.NewRanUeContext("imsi-"+digits(r, 15), int64(r.Intn(1000)), uint8(pick(r, 3, 3, 5, 7, 1, 2)), uint8(pick(r, 3, 3, 4, 7, 1, 2)))
			copy(other.KnasEnc[:], rbytes(r, 16))
			copy(other.KnasInt[:], rbytes(r, 16))
			junk := append([]byte{0x7e, 0x02}, rbytes(r, pick(r, 0, 1, 3, 5, 6, 30))...)
			func() {
				defer func() { recover() }()
				tglib.NASDecode(other, uint8(pick(r, 1, 2, 2, 3, 4)), junk)
			}()
			o.Count("foreign_refused_messages", 1)
			trace = append(trace, fmt.Sprintf("(other UE NIA%d/NEA%d)", other.IntegrityAlg, other.CipheringAlg))
		}
		plain, kind := plainDownlink(r)
		// history profile (by case index): how often the AMF takes a new context into use. Rare resets let the SQN wrap
		// (overflow > 0) before the next Security Mode Command arrives.
		sht := uint8(pick(r, 0, 1, 2, 2, 2, 2, 2, 2))
		switch profile {
		case 0:
			if r.Intn(4) == 0 {
				sht = uint8(3 + r.Intn(2))
			}
		case 1:
			if r.Intn(60) == 0 {
				sht = uint8(3 + r.Intn(2))
			}
		default: // a new context exactly when the old one has wrapped at least once (and rarely otherwise)
			if (amfCount > 0x100 && r.Intn(20) == 0) || r.Intn(400) == 0 {
				sht = uint8(3 + r.Intn(2))
			}
		}
		if s == 0 {
			sht = 3 // the context is taken into use by a Security Mode Command-like message
		}
		if aimed && amfCount == aimCount && s > 0 {
			sht = 2 // the aimed COUNT carries a ciphered message
			o.Count("aimed_ciphertexts_sent", 1)
		}
		// what a decode of the plain bytes gives (reference for equality, keeps plain-codec issues out)
		want := new(nas.Message)
		pl := append([]byte(nil), plain...)
		if err := want.PlainNasDecode(&pl); err != nil {
			o.Inconcl("hand-assembled %s not accepted by the plain decoder: %v", kind, err)
			return
		}
		var wire []byte
		if sht == 0 {
			wire = plain
		} else {
			if sht >= 3 {
				if amfCount > 0xff {
					o.Count("context_resets_after_sqn_wrap", 1)
				}
				amfCount = 0
				o.Count("context_resets", 1)
			}
			var err error
			wire, err = sec.ProtectNAS(iAlg, cAlg, ue.KnasInt[:], ue.KnasEnc[:], amfCount, 1, 1, sht, sht == 2 || sht == 4, plain)
			if err != nil {
				o.Inconcl("reference protect: %v", err)
				return
			}
		}
		hist = fw.Hash([]byte{byte(hist), byte(hist >> 8), byte(hist >> 16), byte(hist >> 24), sht, byte(amfCount), byte(amfCount >> 8)}, plain)
		trace = append(trace, fmt.Sprintf("%s/%d sht=%d count=%#x", kind, len(plain), sht, amfCount))
		var got *nas.Message
		var err error
		via := "NASDecode"
		if r.Intn(4) == 0 {
			via = "GetNasPdu"
			dl := &ngapType.DownlinkNASTransport{}
			add := func(id int64, f func(v *ngapType.DownlinkNASTransportIEsValue)) {
				ie := ngapType.DownlinkNASTransportIEs{}
				ie.Id.Value = id
				f(&ie.Value)
				dl.ProtocolIEs.List = append(dl.ProtocolIEs.List, ie)
			}
			add(10, func(v *ngapType.DownlinkNASTransportIEsValue) {
				v.Present = ngapType.DownlinkNASTransportIEsPresentAMFUENGAPID
				v.AMFUENGAPID = &ngapType.AMFUENGAPID{Value: r.Int63n(1 << 40)}
			})
			add(85, func(v *ngapType.DownlinkNASTransportIEsValue) {
				v.Present = ngapType.DownlinkNASTransportIEsPresentRANUENGAPID
				v.RANUENGAPID = &ngapType.RANUENGAPID{Value: ue.RanUeNgapId}
			})
			add(38, func(v *ngapType.DownlinkNASTransportIEsValue) {
				v.Present = ngapType.DownlinkNASTransportIEsPresentNASPDU
				v.NASPDU = &ngapType.NASPDU{Value: append([]byte(nil), wire...)}
			})
			got = tglib.GetNasPdu(ue, dl)
			if got == nil {
				err = fmt.Errorf("GetNasPdu returned nil")
			}
		} else {
			wview, wdmg := guarded(r, wire)
			got, err = tglib.NASDecode(ue, nas.GetSecurityHeaderType(wire), wview)
			if d := wdmg(true); d != "" { // deciphering in place inside the message is the library's business; beyond it is the caller's memory
				o.Fail("writes-outside-message", "NASDecode of message %d (%s, header type %d): %s", s, kind, sht, d)
				return
			}
		}
		o.Count("messages", 1)
		if err != nil {
			o.Fail("decode-error", "message %d (%s, header type %d, COUNT %#x, NEA%d) via %s: %v", s, kind, sht, amfCount, cAlg, via, err)
			return
		}
		if !reflect.DeepEqual(got.GmmMessage, want.GmmMessage) {
			key := "not-recovered"
			if sht == 1 || sht == 3 {
				key = "integrity-only-message-mangled"
			}
			o.Fail(key, "message %d (%s, header type %d, COUNT %#x, NIA%d/NEA%d) via %s is not recovered: the UE obtains another message than the AMF protected (plain %x)", s, kind, sht, amfCount, iAlg, cAlg, via, clip(plain, 40))
			return
		}
		if sht != 0 {
			protected++
			if ue.DLCount.Get() != amfCount {
				o.Fail("count-estimate", "message %d (header type %d): the UE's downlink COUNT estimate is %#x, the AMF used %#x", s, sht, ue.DLCount.Get(), amfCount)
				return
			}
			o.Count("protected_messages_verified", 1)
			o.Max("highest_count_seen", int64(amfCount))
			skip := uint32(1)
			if r.Intn(5) == 0 || (profile == 2 && r.Intn(2) == 0) {
				skip = 1 + uint32(r.Intn(40))
				o.Count("sqn_skips", 1)
			}
			if (amfCount&0xff)+skip > 0xff {
				o.Count("sqn_wraps", 1)
			}
			if aimed && amfCount < aimCount && amfCount+skip > aimCount {
				skip = aimCount - amfCount // do not jump over the aimed COUNT
			}
			amfCount = (amfCount + skip) & 0xffffff
		}
	}
	return
}
