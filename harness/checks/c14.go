package checks

import (
	"bytes"
	"fmt"
	"free5gclib/aper"
	"free5gclib/ngap/ngapType"
	"math/rand"
	"os"
	"os/exec"
	"path/filepath"
	"regexp"
	"runtime/debug"
	"runtime/metrics"
	"strconv"
	"strings"
	"syscall"
	"time"
	"vh/gen/ngapgen"

	"free5gclib/ngap"

	"vh/fw"
	"vh/ref/per"
)

// C14 — NGAP decoding is total: value or error, never a panic, a hang or an unbounded allocation.
// Monitors: recover() around every call (crash monitor; fatal errors kill the child and are attributed by the parent),
// allocation monitor (heap bytes allocated during the call), slow-call monitor (confirmed by a second run),
// and the framework's stall monitor (no progress for 30 s, confirmed alone for 60 s) for non-termination.
func init() {
	fw.Register(&fw.Check{
		ID:    "C14",
		Level: "exploration",
		Rule: "each case builds one canonical PDU (reference encoder, message = idx mod number of messages) and decodes it and M hostile variants with ngap.Decoder: " +
			"every prefix (stride), single-bit flips, byte overwrites with 00/7F/80/FF, length/count saturation (FFFF counts, 0xBFFF / 0xC1..C4 length determinants, extension bits set), " +
			"splices of two PDUs, uniformly random strings of 0..4096 octets, amplification (runs of 2..160 fragment markers / FF / BFFF / 80 octets inserted at every position and inside IE values with consistent enclosing lengths) and wide-integer saturation (length octet + value at the edges of 32- and 64-bit arithmetic at every position and behind each of the 256 first octets). distinct = hash of the input; non-trivial = input differs from the canonical encoding",
		Assumptions: []string{
			"allocation bound 64 MiB per call (the schema's own worst case is a few 65535-element list headers); inputs up to 4 KiB (fragmentation seeds up to 70 KiB in a separate family)",
			"a call that uses more than 3 s of PROCESSOR time (not wall time: load stretches that) is re-run; only a second such run counts",
		},
		N: func(t string) int {
			if t == "thorough" {
				return 60000
			}
			return 3000
		},
		Batch:  500,
		Init:   per.SelfTest,
		Run:    runC14,
		Stall:  90 * time.Second, // a case is thousands of decodes; on a loaded machine 30 s are not enough
		Finish: c14FuzzStage,
	})
}

var allocSample = []metrics.Sample{{Name: "/gc/heap/allocs:bytes"}}

func heapAllocs() uint64 {
	metrics.Read(allocSample)
	return allocSample[0].Value.Uint64()
}

const c14AllocBound = 64 << 20

// cpuTime: processor time this process has used (user + system). The slow-call monitor judges by it, not by the wall
// clock: a loaded machine stretches wall time many times over, processor time it does not.
func cpuTime() time.Duration {
	var ru syscall.Rusage
	if syscall.Getrusage(syscall.RUSAGE_SELF, &ru) != nil {
		return 0
	}
	return time.Duration(ru.Utime.Nano() + ru.Stime.Nano())
}

// decodeMonitored runs ngap.Decoder under the crash, allocation and slow-call monitors.
func decodeMonitored(o *fw.Outcome, in []byte, what string) (ok bool) {
	fw.Beat()
	run := func() (err error, alloc uint64, dur time.Duration, pan any, stack string) {
		buf := append([]byte(nil), in...)
		a0 := heapAllocs()
		t0 := cpuTime()
		func() {
			defer func() {
				if r := recover(); r != nil {
					pan = r
					stack = string(debug.Stack())
				}
			}()
			_, err = ngap.Decoder(buf)
		}()
		return err, heapAllocs() - a0, cpuTime() - t0, pan, stack
	}
	err, alloc, dur, pan, stack := run()
	o.Count("decodes", 1)
	if err != nil {
		o.Count("decode_errors", 1)
	} else {
		o.Count("decode_values", 1)
	}
	o.Max("max_alloc_bytes_per_call", int64(alloc))
	o.Max("max_call_microseconds", dur.Microseconds())
	if pan != nil {
		o.Fail("panic:"+fw.TopRepoFrame(stack), "ngap.Decoder panicked on %s (%d octets): %v\n input: %x\n%s", what, len(in), pan, clip(in, 400), clipS(stack, 1500))
		return false
	}
	if alloc > c14AllocBound {
		o.Fail("alloc", "ngap.Decoder allocated %d bytes for a %d-octet input (%s): %x", alloc, len(in), what, clip(in, 400))
		return false
	}
	if dur > 3*time.Second {
		_, _, dur2, _, _ := run()
		if dur2 > 3*time.Second {
			o.Fail("slow", "ngap.Decoder needed %v and %v of processor time for a %d-octet input (%s): %x", dur, dur2, len(in), what, clip(in, 400))
			return false
		}
	}
	return true
}

func mutateOnce(r *rand.Rand, base, other []byte) ([]byte, string) {
	b := append([]byte(nil), base...)
	if len(b) == 0 {
		return b, "empty"
	}
	switch r.Intn(12) {
	case 0, 1:
		i := r.Intn(len(b) * 8)
		b[i/8] ^= 0x80 >> uint(i%8)
		return b, "bitflip"
	case 2:
		b[r.Intn(len(b))] = []byte{0x00, 0x7f, 0x80, 0xff}[r.Intn(4)]
		return b, "byte-overwrite"
	case 3:
		return b[:r.Intn(len(b))], "truncate"
	case 4: // saturate a 2-octet field
		if len(b) >= 2 {
			i := r.Intn(len(b) - 1)
			b[i], b[i+1] = 0xff, 0xff
		}
		return b, "saturate-ffff"
	case 5: // plant a long-form or fragmented length determinant
		i := r.Intn(len(b))
		v := []byte{0xbf, 0xc1, 0xc2, 0xc3, 0xc4, 0xc5, 0xc0, 0x80, 0xff}[r.Intn(9)]
		b[i] = v
		if v == 0xbf && i+1 < len(b) {
			b[i+1] = 0xff
		}
		return b, "length-determinant"
	case 6: // several edits
		for k, n := 0, 2+r.Intn(6); k < n; k++ {
			b[r.Intn(len(b))] = byte(r.Intn(256))
		}
		return b, "multi-edit"
	case 7: // splice
		if len(other) > 0 {
			i, j := r.Intn(len(b)), r.Intn(len(other))
			return append(b[:i:i], other[j:]...), "splice"
		}
		return b, "none"
	case 8: // insert garbage
		i := r.Intn(len(b))
		g := make([]byte, 1+r.Intn(8))
		r.Read(g)
		return append(b[:i:i], append(g, b[i:]...)...), "insert"
	case 9: // delete a run
		i := r.Intn(len(b))
		j := i + 1 + r.Intn(4)
		if j > len(b) {
			j = len(b)
		}
		return append(b[:i:i], b[j:]...), "delete"
	case 10: // set the extension / preamble bits of a random octet
		b[r.Intn(len(b))] |= 0x80 | byte(r.Intn(128))
		return b, "set-high-bits"
	default: // zero a run
		i := r.Intn(len(b))
		for k, e := i, i+1+r.Intn(6); k < len(b) && k < e; k++ {
			b[k] = 0
		}
		return b, "zero-run"
	}
}

// ---- structure-aware edits: NGAP PDUs have a regular outer layout (3 header octets, open-type length, extension octet,
// 2-octet IE count, then per IE: 2-octet id, criticality octet, open-type length, value). An edit INSIDE an IE value that
// changes its size is only seen by the element parsers if the two enclosing length determinants are kept consistent.

type ieSpan struct{ lenPos, lenSize, valStart, valLen int }

func readLenDet(b []byte, at int) (n, size int, ok bool) {
	if at >= len(b) {
		return 0, 0, false
	}
	switch {
	case b[at] < 0x80:
		return int(b[at]), 1, true
	case b[at] < 0xc0 && at+1 < len(b):
		return int(b[at]&0x3f)<<8 | int(b[at+1]), 2, true
	}
	return 0, 0, false
}

func putLenDet(n int) []byte {
	if n < 128 {
		return []byte{byte(n)}
	}
	return []byte{0x80 | byte(n>>8), byte(n)}
}

// ngapIEs parses the outer layout of a canonical NGAP PDU; ok=false when the bytes do not have it.
func ngapIEs(b []byte) (l1Pos, l1Size int, ies []ieSpan, ok bool) {
	l1, sz, good := readLenDet(b, 3)
	if !good || 3+sz+l1 != len(b) || l1 < 3 {
		return
	}
	p := 3 + sz + 1
	if p+2 > len(b) {
		return
	}
	cnt := int(b[p])<<8 | int(b[p+1])
	p += 2
	for i := 0; i < cnt; i++ {
		if p+3 >= len(b) {
			return
		}
		n, lsz, good := readLenDet(b, p+3)
		if !good || p+3+lsz+n > len(b) {
			return
		}
		ies = append(ies, ieSpan{p + 3, lsz, p + 3 + lsz, n})
		p += 3 + lsz + n
	}
	return 3, sz, ies, p == len(b)
}

// insertConsistent inserts run at offset off inside the value of IE k and fixes the IE's and the PDU's length determinants.
func insertConsistent(b []byte, l1Size int, ie ieSpan, off int, run []byte, replace int) []byte {
	if off > ie.valLen {
		off = ie.valLen
	}
	if off+replace > ie.valLen {
		replace = ie.valLen - off
	}
	newVal := append(append(append([]byte(nil), b[ie.valStart:ie.valStart+off]...), run...), b[ie.valStart+off+replace:ie.valStart+ie.valLen]...)
	if len(newVal) >= 16384 {
		return nil
	}
	ieLen := putLenDet(len(newVal))
	body := append(append(append(append([]byte(nil), b[3+l1Size:ie.lenPos]...), ieLen...), newVal...), b[ie.valStart+ie.valLen:]...)
	if len(body) >= 16384 {
		return nil
	}
	return append(append(append([]byte(nil), b[:3]...), putLenDet(len(body))...), body...)
}

// c14SizeClassProbe: a decoder that copies an open-type value gets a buffer whose CAPACITY is the next allocator size
// class; reading one octet past a claimed length goes unnoticed in that slack unless the length IS a size class. The
// probe therefore builds a TRACE START whose last IE ends in an extensible BIT STRING of the extension range, long
// enough to be fragmented and not a whole number of octets, sized so that the IE value is one octet longer than a size
// class of the Go allocator between 2 and 4 KiB, and then claims one octet less (enclosing lengths consistent).
func c14SizeClassProbe(o *fw.Outcome, r *rand.Rand) bool {
	build := func(bits int) []byte {
		var pdu ngapType.NGAPPDU
		pdu.Present = 1
		pdu.InitiatingMessage = &ngapType.InitiatingMessage{}
		pdu.InitiatingMessage.ProcedureCode.Value = 39 // id-TraceStart
		pdu.InitiatingMessage.Criticality.Value = 1
		pdu.InitiatingMessage.Value.Present = ngapType.InitiatingMessagePresentTraceStart
		ts := &ngapType.TraceStart{}
		pdu.InitiatingMessage.Value.TraceStart = ts
		for _, id := range []int64{10, 85, 108} {
			ie := ngapType.TraceStartIEs{}
			ie.Id.Value = id
			switch id {
			case 10:
				ie.Value.Present, ie.Value.AMFUENGAPID = ngapType.TraceStartIEsPresentAMFUENGAPID, &ngapType.AMFUENGAPID{Value: 1}
			case 85:
				ie.Value.Present, ie.Value.RANUENGAPID = ngapType.TraceStartIEsPresentRANUENGAPID, &ngapType.RANUENGAPID{Value: 1}
			default:
				ta := &ngapType.TraceActivation{}
				ta.NGRANTraceID.Value = make([]byte, 8)
				ta.InterfacesToTrace.Value = aper.BitString{Bytes: []byte{0xff}, BitLength: 8}
				b := make([]byte, (bits+7)/8)
				r.Read(b)
				if rem := bits % 8; rem != 0 {
					b[len(b)-1] &= 0xff << (8 - uint(rem))
				}
				ta.TraceCollectionEntityIPAddress.Value = aper.BitString{Bytes: b, BitLength: uint64(bits)}
				ie.Value.Present, ie.Value.TraceActivation = ngapType.TraceStartIEsPresentTraceActivation, ta
			}
			ts.ProtocolIEs.List = append(ts.ProtocolIEs.List, ie)
		}
		enc, err := per.Marshal(pdu, pduTag)
		if err != nil {
			return nil
		}
		return enc
	}
	lastIE := func(b []byte) (l1Size int, ie ieSpan, ok bool) {
		_, l1Size, ies, good := ngapIEs(b)
		if !good || len(ies) == 0 {
			return 0, ieSpan{}, false
		}
		return l1Size, ies[len(ies)-1], true
	}
	for _, class := range []int{2304, 2688, 3072, 3200, 3456, 4096} {
		b0 := 16384 + 1 + r.Intn(7)
		enc0 := build(b0)
		_, ie0, ok := lastIE(enc0)
		if enc0 == nil || !ok {
			o.Inconcl("reference could not build the size-class probe")
			return false
		}
		enc := build(b0 + 8*(class+1-ie0.valLen))
		l1Size, ie, ok := lastIE(enc)
		if enc != nil && ok && ie.valLen != class+1 { // a length determinant grew on the way: one more step
			enc = build(b0 + 8*(class+1-ie0.valLen) + 8*(class+1-ie.valLen))
			l1Size, ie, ok = lastIE(enc)
		}
		if enc == nil || !ok || ie.valLen != class+1 || ie.valStart+ie.valLen != len(enc) {
			o.Count("size_class_probes_not_built", 1)
			continue
		}
		if !decodeMonitored(o, enc, fmt.Sprintf("TRACE START with an address of the extension range, IE value of %d octets", ie.valLen)) {
			return false
		}
		for cut := 1; cut <= 2; cut++ { // the claimed lengths say class (class-1) octets, the content is cut to match
			body := append(append(append([]byte(nil), enc[3+l1Size:ie.lenPos]...), putLenDet(ie.valLen-cut)...), enc[ie.valStart:ie.valStart+ie.valLen-cut]...)
			short := append(append(append([]byte(nil), enc[:3]...), putLenDet(len(body))...), body...)
			o.Count("size_class_probes", 1)
			if !decodeMonitored(o, short, fmt.Sprintf("TRACE START cut %d octet(s) short, IE value length %d = allocator size class", cut, ie.valLen-cut)) {
				return false
			}
		}
	}
	return true
}

func runC14(c *fw.Case) (o fw.Outcome) {
	r := c.R
	ms := ngapMessages()
	m := ms[c.Idx%len(ms)]
	pdu, _ := genPDU(r, m, 30+r.Intn(250), false)
	base, err := per.Marshal(pdu, pduTag)
	if err != nil {
		o.Inconcl("reference could not encode the seed PDU: %v", err)
		return
	}
	m2 := ms[r.Intn(len(ms))]
	pdu2, _ := genPDU(r, m2, 30+r.Intn(100), false)
	other, _ := per.Marshal(pdu2, pduTag)
	o.Tag("seed:" + m.Name)
	o.Input = fmt.Sprintf("seed %s (%d octets) %x", m.Name, len(base), clip(base, 120))
	o.Digest = fw.Hash(base)
	o.Nontrivial = true
	if len(base) > 4096 {
		base = base[:4096]
	}
	if !decodeMonitored(&o, base, "canonical "+m.Name) {
		return
	}
	family := c.Idx / len(ms) % 9
	switch family {
	case 8: // legal but unusual seeds: sizes in the EXTENSION range of extensible constraints, up to and across the 16K step
		// where a length determinant is fragmented (a BIT STRING of 16384 bits is 2 KiB: inside the 4 KiB the claim covers)
		g := ngapgen.New(r, 30+r.Intn(150))
		g.ExtBig = true
		seed, _ := genPDUWith(g, r, m)
		enc, err := per.Marshal(seed, pduTag)
		if err != nil {
			o.Inconcl("reference could not encode the extension-range seed: %v", err)
			return
		}
		for f, n := range g.Features {
			if strings.HasPrefix(f, "size-extension") {
				o.Count("seeds_with_"+f, int64(n))
			}
		}
		if len(enc) > 4096 {
			o.Count("extension_seeds_cut_to_4096", 1)
			enc = enc[:4096]
		}
		if !decodeMonitored(&o, enc, "extension-range seed of "+m.Name) {
			return
		}
		for k := 0; k < 120; k++ {
			b := append([]byte(nil), enc...)
			switch k % 3 {
			case 0:
				b = b[:r.Intn(len(b)+1)]
			case 1:
				i := r.Intn(len(b) * 8)
				b[i/8] ^= 0x80 >> uint(i%8)
			default:
				b, _ = mutateOnce(r, b, other)
				if len(b) > 4096 {
					b = b[:4096]
				}
			}
			if !decodeMonitored(&o, b, "mutated extension-range seed of "+m.Name) {
				return
			}
		}
		o.Tag("family:extension-range-seeds")
		if !c14SizeClassProbe(&o, r) {
			return
		}
	case 0: // prefixes
		stride := 1
		if len(base) > 200 {
			stride = len(base) / 200
		}
		for n := 0; n < len(base); n += stride {
			if !decodeMonitored(&o, base[:n], fmt.Sprintf("prefix %d of %s", n, m.Name)) {
				return
			}
		}
		o.Tag("family:prefixes")
	case 1: // every single-bit flip (capped)
		nb := len(base) * 8
		step := 1
		if nb > 1600 {
			step = nb / 1600
		}
		for i := r.Intn(step); i < nb; i += step {
			b := append([]byte(nil), base...)
			b[i/8] ^= 0x80 >> uint(i%8)
			if !decodeMonitored(&o, b, fmt.Sprintf("bit %d flipped in %s", i, m.Name)) {
				return
			}
		}
		o.Tag("family:bitflips")
	case 2, 3: // mutation chains
		for k := 0; k < 300; k++ {
			b, kind := mutateOnce(r, base, other)
			for d := r.Intn(3); d > 0; d-- {
				b, _ = mutateOnce(r, b, other)
			}
			if len(b) > 4096 {
				b = b[:4096]
			}
			if !decodeMonitored(&o, b, kind+" of "+m.Name) {
				return
			}
			o.Count("mut:"+kind, 1)
		}
		o.Tag("family:mutations")
	case 4: // uniformly random strings, and random strings behind a valid 3-octet header
		for k := 0; k < 300; k++ {
			n := r.Intn(4097)
			if k%3 == 0 {
				n = r.Intn(40)
			}
			b := make([]byte, n)
			r.Read(b)
			if k%2 == 0 && n >= 4 {
				copy(b, base[:minInt(4, len(base))])
			}
			if !decodeMonitored(&o, b, "random string") {
				return
			}
		}
		o.Tag("family:random")
	case 5: // every 2-octet window saturated, every octet replaced by a length-determinant pattern
		for i := 0; i+1 < len(base) && i < 600; i++ {
			b := append([]byte(nil), base...)
			b[i], b[i+1] = 0xff, 0xff
			if !decodeMonitored(&o, b, fmt.Sprintf("FFFF at %d in %s", i, m.Name)) {
				return
			}
			for _, v := range []byte{0x80, 0xbf, 0xc4, 0x00} {
				b2 := append([]byte(nil), base...)
				b2[i] = v
				if !decodeMonitored(&o, b2, fmt.Sprintf("%02x at %d in %s", v, i, m.Name)) {
					return
				}
			}
		}
		o.Tag("family:saturation")
	case 6: // amplification: runs of length-determinant octets INSERTED at every position (a count or length that is summed
		// over fragment markers, or re-read in a loop, grows with the run; one planted octet stays within a few MiB)
		stride := 1
		if len(base) > 120 {
			stride = len(base) / 120
		}
		for i := r.Intn(stride); i < len(base); i += stride {
			for _, pat := range [][]byte{{0xc4}, {0xc1}, {0xff}, {0xbf, 0xff}, {0x80}} {
				for _, n := range []int{2, 12, 48, 160} {
					run := bytes.Repeat(pat, n)
					b := append(append(append([]byte(nil), base[:i]...), run...), base[i:]...)
					if len(b) > 4096 {
						b = b[:4096]
					}
					if !decodeMonitored(&o, b, fmt.Sprintf("run of %d x %x inserted at %d in %s", n, pat, i, m.Name)) {
						return
					}
				}
			}
		}
		// the same runs planted INSIDE every IE value with the enclosing lengths kept consistent, inserted and overwriting
		if _, l1Size, ies, ok := ngapIEs(base); ok {
			o.Count("structure_aware_seeds", 1)
			planted := 0
			for _, ie := range ies { // IE values shortened at the end / in the middle, enclosing lengths consistent
				for cut := 1; cut <= 4 && cut <= ie.valLen; cut++ {
					for _, at := range []int{ie.valLen - cut, (ie.valLen - cut) / 2} {
						if b := insertConsistent(base, l1Size, ie, at, nil, cut); b != nil {
							if !decodeMonitored(&o, b, fmt.Sprintf("%d octets removed at offset %d of an IE value, enclosing lengths consistent, in %s", cut, at, m.Name)) {
								return
							}
							o.Count("structure_aware_inputs", 1)
						}
					}
				}
			}
			for _, ie := range ies {
				st := 1
				if ie.valLen > 12 {
					st = ie.valLen / 12
				}
				for off := r.Intn(st); off <= ie.valLen && planted < 1500; off += st {
					for _, pat := range [][]byte{{0xc4}, {0xc1}, {0xff}, {0xbf, 0xff}} {
						for _, n := range []int{1, 12, 160} {
							for _, repl := range []int{0, 1} {
								if repl == 1 && n != 1 {
									continue
								}
								planted++
								b := insertConsistent(base, l1Size, ie, off, bytes.Repeat(pat, n), repl)
								if b == nil || len(b) > 4096 {
									continue
								}
								if !decodeMonitored(&o, b, fmt.Sprintf("run of %d x %x at offset %d of an IE value (replacing %d), enclosing lengths consistent, in %s", n, pat, off, repl, m.Name)) {
									return
								}
								o.Count("structure_aware_inputs", 1)
							}
						}
					}
				}
			}
		}
		o.Tag("family:amplification")
	case 7: // wide-integer saturation: length octet + value at the edges of int32 / int64 / uint64 arithmetic, planted over and
		// inside every position, and behind every value of the first octet (PDU CHOICE index with and without extension bit)
		pats := [][]byte{
			{0x08, 0x7f, 0xff, 0xff, 0xff, 0xff, 0xff, 0xff, 0xff}, {0x08, 0x7f, 0xff, 0xff, 0xff, 0xff, 0xff, 0xff, 0xfc}, {0x08, 0x80, 0, 0, 0, 0, 0, 0, 0},
			{0x08, 0xff, 0xff, 0xff, 0xff, 0xff, 0xff, 0xff, 0xff}, {0x09, 0x00, 0xff, 0xff, 0xff, 0xff, 0xff, 0xff, 0xff, 0xff}, {0x09, 0x00, 0x80, 0, 0, 0, 0, 0, 0, 0},
			{0x04, 0x7f, 0xff, 0xff, 0xff}, {0x04, 0x80, 0, 0, 0}, {0x04, 0xff, 0xff, 0xff, 0xff}, {0x05, 0x00, 0xff, 0xff, 0xff, 0xff}, {0x05, 0x00, 0x80, 0, 0, 0},
			{0x10, 0x7f, 0xff, 0xff, 0xff, 0xff, 0xff, 0xff, 0xff, 0xff, 0xff, 0xff, 0xff, 0xff, 0xff, 0xff, 0xff},
		}
		for b0 := 0; b0 < 256; b0++ { // every first octet, then each pattern, then the rest of the message
			for _, p := range pats {
				b := append(append([]byte{byte(b0)}, p...), base[minInt(1, len(base)):]...)
				if !decodeMonitored(&o, b, fmt.Sprintf("first octet %02x followed by %x in %s", b0, p, m.Name)) {
					return
				}
			}
		}
		stride := 1
		if len(base) > 100 {
			stride = len(base) / 100
		}
		for i := r.Intn(stride); i < len(base); i += stride {
			for _, p := range pats {
				over := append([]byte(nil), base...)
				copy(over[i:], p)
				ins := append(append(append([]byte(nil), base[:i]...), p...), base[i:]...)
				for _, b := range [][]byte{over, ins} {
					if len(b) > 4096 {
						b = b[:4096]
					}
					if !decodeMonitored(&o, b, fmt.Sprintf("wide integer %x at %d in %s", p, i, m.Name)) {
						return
					}
				}
			}
		}
		if _, l1Size, ies, ok := ngapIEs(base); ok {
			for _, ie := range ies {
				for _, off := range []int{0, ie.valLen / 2, ie.valLen} {
					for _, p := range pats {
						for _, repl := range []int{0, len(p)} {
							if b := insertConsistent(base, l1Size, ie, off, p, repl); b != nil && len(b) <= 4096 {
								if !decodeMonitored(&o, b, fmt.Sprintf("wide integer %x at offset %d of an IE value, enclosing lengths consistent, in %s", p, off, m.Name)) {
									return
								}
							}
						}
					}
				}
			}
		}
		o.Tag("family:wide-integers")
	}
	return
}

// c14FuzzStage (thorough tier only): Go native coverage-guided fuzzing of ngap.Decoder as an additional workload source.
func c14FuzzStage(a *fw.Agg) {
	if a.Tier != "thorough" {
		return
	}
	verif := os.Getenv("VERIF_DIR")
	if verif == "" {
		verif = "/verif"
	}
	work := os.Getenv("VERIF_W")
	dur := os.Getenv("VERIF_FUZZTIME")
	if dur == "" {
		dur = "120s"
	}
	args := []string{"test"}
	if mf := os.Getenv("VERIF_MODFILE"); mf != "" {
		args = append(args, "-modfile="+mf)
	}
	args = append(args, "-tags", "verif", "-run", "^$", "-fuzz", "^FuzzNgapDecoder$", "-fuzztime", dur, "-parallel", "12",
		"./checks/", "-test.fuzzcachedir="+filepath.Join(work, "fuzzcache"))
	cmd := exec.Command("go", args...)
	cmd.Dir = filepath.Join(verif, "harness")
	cmd.Env = append(os.Environ(), "GOWORK=off", "GOFLAGS=-mod=mod", "GOPROXY=off", "GOSUMDB=off", "GOTOOLCHAIN=local")
	out, err := cmd.CombinedOutput()
	txt := string(out)
	execs := int64(0)
	for _, m := range regexp.MustCompile(`execs: (\d+)`).FindAllStringSubmatch(txt, -1) {
		if n, e := strconv.ParseInt(m[1], 10, 64); e == nil && n > execs {
			execs = n
		}
	}
	a.Extra["fuzz_executions"] = execs
	a.Extra["fuzz_duration"] = dur
	if m := regexp.MustCompile(`new interesting: (\d+)`).FindAllStringSubmatch(txt, -1); len(m) > 0 {
		a.Extra["fuzz_new_interesting_inputs"] = m[len(m)-1][1]
	}
	if err != nil {
		if m := regexp.MustCompile(`Failing input written to (\S+)`).FindStringSubmatch(txt); m != nil {
			src := filepath.Join(verif, "harness", "checks", m[1])
			crasher, _ := os.ReadFile(src)
			os.Remove(src)
			key := "fuzz-crash"
			if i := strings.Index(txt, "panicked"); i >= 0 {
				key = "fuzz-panic:" + fw.TopRepoFrame(txt[i:])
			}
			a.AddViolation(key, "coverage-guided fuzzing found a failing input:\n"+firstN(txt[strings.Index(txt, "--- FAIL"):], 2500), string(crasher))
			return
		}
		if strings.Contains(txt, "--- FAIL") {
			a.AddViolation("fuzz-crash", firstN(txt, 2500), "")
			return
		}
		a.Extra["fuzz_stage_error"] = firstN(txt, 600) // tooling problem: reported, not a verdict
	}
}

func firstN(s string, n int) string {
	if len(s) > n {
		return s[:n]
	}
	return s
}
