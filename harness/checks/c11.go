package checks

import (
	"bytes"
	"fmt"
	"reflect"
	"runtime/debug"
	"syscall"
	"time"

	"free5gclib/nas/nasConvert"
	"free5gclib/nas/nasMessage"
	"free5gclib/nas/nasTestpacket"
	"free5gclib/ngap/ngapType"
	"free5gclib/openapi/models"
	stgutg "stgutgp"
	"tglib"
	tp "tglib/ngapTestpacket"

	"github.com/ishidawataru/sctp"

	"vh/fw"
	"vh/ref/ident"
	refnas "vh/ref/nas"
	"vh/ref/per"
)

// C11 — SUCI and PLMN encodings. Independent decoders written from TS 24.501 9.11.3.4 (5GS mobile identity,
// SUCI with SUPI format IMSI, null scheme) and TS 24.501 9.11.3.4 / TS 38.413 9.3.3.5 (PLMN identity) live in this file.
func init() {
	fw.Register(&fw.Check{
		ID:    "C11",
		Level: "exploration",
		Rule: "case = one MCC (000..999): all 100 two-digit and all 1000 three-digit MNCs, each with a random MSIN of random legal length (odd and even); EncodeSuci is decoded by the independent SUCI decoder; " +
			"every 16th PLMN also goes through the Registration / Deregistration Request constructors (parsed by ref/nas) and every 40th through NG Setup + InitialUEMessage + UplinkNASTransport (decoded by ref/per), " +
			"where the PLMN octets must equal the independent PLMN encoding and nasConvert.PlmnIDToNas. thorough enumerates all 1000 MCCs (1.1M PLMNs, exhaustive); quick 150 MCCs spread by the seed. One IMSI in four is re-read with the OTHER MNC length right after; every tenth case runs NG Setup + registration + deregistration in the procedure driver (identity clauses of the reference AMF incl. suci-supi), with the PLMN digits repeated inside the MSIN in one of four. distinct = hash(MCC); all non-trivial",
		Assumptions: []string{"null-scheme SUCI, routing indicator and key identifier as the emulator fixes them (not part of the property)", "IMSI = MCC(3) MNC(2|3) MSIN(1..10), at most 15 digits"},
		N: func(t string) int {
			if t == "thorough" {
				return 1000
			}
			return 150
		},
		Batch:      8,
		Run:        runC11,
		Exhaustive: func(t string) bool { return t == "thorough" },
	})
}

func refPLMN(mcc, mnc string) []byte { return ident.PLMN(mcc, mnc) }

func decSUCI(v []byte) (mcc, mnc, msin string, scheme byte, err error) { return ident.DecodeSUCI(v) }

func runC11(c *fw.Case) (o fw.Outcome) {
	r := c.R
	if c.Idx%10 == 9 {
		return c11Procedures(c)
	}
	mccN := c.Idx
	if !c.Thorough() {
		mccN = (c.Idx*17 + int(c.Seed%17)) % 1000
	}
	mcc := fmt.Sprintf("%03d", mccN)
	o.Input = "MCC " + mcc + " x all MNCs (00..99, 000..999) with random MSINs"
	o.Digest, o.Nontrivial = fw.HashS("mcc", mcc), true
	defer func() {
		if rec := recover(); rec != nil {
			st := string(debug.Stack())
			o.Verdict = fw.Held
			o.Fail("panic:"+fw.TopRepoFrame(st), "panic: %v\n%s", rec, clipS(st, 1200))
		}
	}()
	n := 0
	for mncLen := 2; mncLen <= 3; mncLen++ {
		lim := 100
		if mncLen == 3 {
			lim = 1000
		}
		for m := 0; m < lim; m++ {
			mnc := fmt.Sprintf("%0*d", mncLen, m)
			msinLen := 1 + r.Intn(15-3-mncLen)
			if r.Intn(3) == 0 {
				msinLen = 15 - 3 - mncLen
			}
			msin := digits(r, msinLen)
			imsi := mcc + mnc + msin
			n++
			iview, idmg := guarded(r, []byte(imsi))
			suci := stgutg.EncodeSuci(iview, mncLen)
			if d := idmg(false); d != "" {
				o.Fail("imsi-buffer-written", "EncodeSuci(%s,%d): %s", imsi, mncLen, d)
				return
			}
			if suci == nil || int(suci.Len) != len(suci.Buffer) {
				o.Fail("suci-len", "EncodeSuci(%s,%d): Len %d but %d octets", imsi, mncLen, suci.Len, len(suci.Buffer))
				return
			}
			if m := retainCheck("suci", suci.Buffer, "EncodeSuci("+imsi+")"); m != "" {
				o.Fail("retained-identity-changed", "%s", m)
				return
			}
			gm, gn, gs, scheme, err := decSUCI(suci.Buffer)
			o.Count("sucis_decoded", 1)
			if err != nil {
				o.Fail("suci-malformed", "EncodeSuci(%s, mncLen %d) = %x: %v", imsi, mncLen, suci.Buffer, err)
				return
			}
			if scheme != 0 {
				o.Fail("suci-scheme", "EncodeSuci(%s): protection scheme %d, expected null scheme", imsi, scheme)
				return
			}
			if gm != mcc || gn != mnc {
				o.Fail(fmt.Sprintf("suci-plmn-mnc%d", mncLen), "EncodeSuci(%s, mncLen %d) = %x decodes to MCC %s MNC %s, configured MCC %s MNC %s", imsi, mncLen, suci.Buffer, gm, gn, mcc, mnc)
				return
			}
			if gs != msin {
				o.Fail("suci-msin", "EncodeSuci(%s, mncLen %d) = %x decodes to MSIN %s, configured %s (%d digits)", imsi, mncLen, suci.Buffer, gs, msin, len(msin))
				return
			}
			if other := 5 - mncLen; r.Intn(4) == 0 && len(imsi)-3-other >= 1 {
				// the SAME digits read with the other MNC length, right after: another subscriber of another network, whose
				// identity shares nothing with its predecessor's but the digit string
				s2 := stgutg.EncodeSuci([]byte(imsi), other)
				m2, n2, ms2, _, err2 := decSUCI(s2.Buffer)
				o.Count("same_digits_other_mnc_length", 1)
				if err2 != nil || m2 != mcc || n2 != imsi[3:3+other] || ms2 != imsi[3+other:] {
					o.Fail("suci-same-digits-other-mnc-length", "EncodeSuci(%s, mncLen %d) right after EncodeSuci(%s, mncLen %d) = %x: decodes to MCC %s MNC %s MSIN %s (%v), expected %s %s %s", imsi, other, imsi, mncLen, s2.Buffer, m2, n2, ms2, err2, mcc, imsi[3:3+other], imsi[3+other:])
					return
				}
			}
			want := refPLMN(mcc, mnc)
			if lib := nasConvert.PlmnIDToNas(models.PlmnId{Mcc: mcc, Mnc: mnc}); !bytes.Equal(lib, want) {
				o.Fail("plmnidtonas", "PlmnIDToNas(%s,%s) = %x, TS 24.501 gives %x", mcc, mnc, lib, want)
				return
			}
			if !bytes.Equal(suci.Buffer[1:4], want) {
				o.Fail(fmt.Sprintf("suci-plmn-mnc%d", mncLen), "PLMN octets inside the SUCI %x differ from the PLMN encoding %x of %s/%s", suci.Buffer[1:4], want, mcc, mnc)
				return
			}
			if n%16 == 0 {
				if msg := c11Nas(suci.Buffer, imsi, mncLen, r.Intn(2) == 0); msg != "" {
					o.Fail("nas-identity", "%s", msg)
					return
				}
				o.Count("nas_messages_parsed", 1)
			}
			if n%40 == 0 || c.Thorough() && n%4 == 0 {
				if msg := c11Ngap(imsi, mcc, mnc, want); msg != "" {
					o.Fail("ngap-plmn", "%s", msg)
					return
				}
				o.Count("ngap_sequences_decoded", 1)
				// PLMNs whose three octets are a WINDOW of what the builders hold right now - the PLMN just announced followed by
				// the tracking area code 000001 and the cell identity of the location information - announced next: where the new
				// value is compared with, searched in or copied over the stored one, only such neighbours tell the two apart
				if n%80 == 0 {
					ctx := append(append(append([]byte(nil), want...), 0x00, 0x00, 0x01), 0x00, 0x00, 0x00, 0x00, 0x10)
					for off := 1; off+3 <= len(ctx); off++ {
						wm, wn, ok := plmnDigits(ctx[off : off+3])
						if !ok {
							continue
						}
						wimsi := wm + wn + digits(r, 15-3-len(wn))
						if msg := c11Ngap(wimsi, wm, wn, refPLMN(wm, wn)); msg != "" {
							o.Fail("ngap-plmn", "announced right after %s/%s (octets %x): %s", mcc, mnc, want, msg)
							return
						}
						o.Count("window_plmns_announced", 1)
					}
				}
			}
		}
	}
	o.Count("plmns", int64(n))
	return
}

// c11Procedures: the emulator's own NG Setup, registration and deregistration procedures (procedure driver child, the
// reference AMF on the other end) for subscribers whose digits fall into the classes that string / number arithmetic
// on identities gets wrong: the AMF requires the SUCI of the Registration Request to identify the configured
// subscriber, the announced PLMN to be its PLMN and the Deregistration Request to carry the same identity.
func c11Procedures(c *fw.Case) (o fw.Outcome) {
	r := c.R
	cfg := genEmuConfig(r)
	k := c.Idx / 10
	mncs := []string{"00", "000", "01", "001", "010", "100", "09", "99", "999", "900", "08", "012"}
	cfg.MNC = mncs[k%len(mncs)]
	cfg.MCC = pick(r, "000", "001", "460", "999", "909", digits(r, 3))
	if k%3 == 2 {
		// PLMNs made of the digits of the builders' built-in default (208/93, octets 02 f8 39) shifted and re-split: every
		// procedure child is a fresh process, so this PLMN is the first one installed over the default
		d := [][2]string{{"020", "893"}, {"208", "093"}, {"208", "93"}, {"020", "89"}, {"002", "089"}, {"893", "020"}, {"082", "93"}}[(k/3)%7]
		cfg.MCC, cfg.MNC = d[0], d[1]
	}
	total := 15
	if r.Intn(5) == 0 {
		total = 14
	}
	msinLen := total - 3 - len(cfg.MNC)
	lead := []string{"0", "00", "9", "1", ""}[(k+k/len(mncs))%5] // by index: MNC 00 meets an MSIN with leading zeros in every run
	cfg.IMSI = cfg.MCC + cfg.MNC + lead + digits(r, msinLen-len(lead)-4) + fmt.Sprintf("%04d", 1+r.Intn(200))
	if k%4 == 1 && msinLen > len(cfg.MCC+cfg.MNC) { // the PLMN digits occur again inside the MSIN
		m := []byte(cfg.IMSI[len(cfg.MCC+cfg.MNC):])
		copy(m[r.Intn(len(m)-len(cfg.MCC+cfg.MNC)+1):], cfg.MCC+cfg.MNC)
		cfg.IMSI = cfg.MCC + cfg.MNC + string(m)
		o.Tag("plmn-digits-inside-msin")
	}
	cfg.Reg, cfg.Pdu, cfg.Dereg = 1, 0, 1
	sp := ProcSpec{Cfg: cfg, ChoiceSeed: r.Int63(), NUE: 1, Deregister: true, FaultAt: -1}
	o.Input = fmt.Sprintf("procedures NG Setup + registration + deregistration for subscriber %s (MCC %s MNC %s)", cfg.IMSI, cfg.MCC, cfg.MNC)
	o.Digest, o.Nontrivial = fw.HashS(o.Input), true
	o.Tag("procedures", "mnc="+cfg.MNC)
	pr, code, raw, timedOut := runProcChild(sp, 90*time.Second)
	if timedOut {
		o.Inconcl("procedure driver child exceeded its watchdog")
		return
	}
	if pr != nil && pr.Stuck {
		o.Fail("procedure-stuck", "the network answered every message and has been silent for 25 s, yet the procedure has not returned\n conversation:%s", pr.Conversation)
		return
	}
	if pr == nil {
		o.Fail("procedure-failed", "a procedure ended the process (exit %d) although the network behaved conformantly: %s", code, tail(raw, 600))
		return
	}
	for _, v := range pr.Violations {
		switch v.Key { // identity clauses of the trace specification; anything else is C01 / C02 business
		case "suci", "suci-plmn", "suci-supi", "dereg-identity", "ng-setup-plmn", "uli-plmn":
			o.Fail("procedure-identity:"+v.Key, "subscriber %s: %s\n conversation:%s", cfg.IMSI, v.Msg, pr.Conversation)
			return
		}
	}
	if len(pr.Violations) > 0 {
		o.Count("other_trace_violations_left_to_C01_C02", 1)
	}
	o.Count("procedure_runs", 1)
	return
}

// c11Nas: the identity placed in Registration / Deregistration Request, seen by the independent TS 24.501 parser.
func c11Nas(suciBuf []byte, imsi string, mncLen int, dereg bool) string {
	suci := stgutg.EncodeSuci([]byte(imsi), mncLen)
	var b []byte
	var which string
	if dereg {
		which = "Deregistration Request"
		b = nasTestpacket.GetDeregistrationRequest(nasMessage.AccessType3GPP, 0, 4, *suci)
	} else {
		which = "Registration Request"
		ue := tglib.NewRanUeContext("imsi-"+imsi, 1, 0, 2)
		b = nasTestpacket.GetRegistrationRequest(nasMessage.RegistrationType5GSInitialRegistration, *suci, nil, ue.GetUESecurityCapability(), nil, nil, nil)
	}
	p, err := refnas.Parse(b)
	if err != nil {
		return fmt.Sprintf("%s for %s does not parse per TS 24.501: %v (%x)", which, imsi, err, b)
	}
	id := p.MandByName("MobileIdentity5GS")
	if !bytes.Equal(id, suciBuf) {
		return fmt.Sprintf("%s for %s carries mobile identity %x, EncodeSuci gave %x", which, imsi, id, suciBuf)
	}
	return ""
}

// c11Ngap: the PLMN announced at NG Setup and repeated in user location IEs, as ManageNGSetup / RegisterUE produce it.
func c11Ngap(imsi, mcc, mnc string, want []byte) string {
	fw.Beat()
	plmn := stgutg.EncodeSuci([]byte(imsi), len(mnc)).Buffer[1:4]
	b, err := tglib.GetNGSetupRequest([]byte{0, 1, 2}, plmn, 24, "gnb")
	if err != nil {
		return "GetNGSetupRequest: " + err.Error()
	}
	check := func(what string, enc []byte) string {
		var pdu ngapType.NGAPPDU
		if err := per.Unmarshal(enc, &pdu, pduTag); err != nil {
			return what + ": " + err.Error()
		}
		var ps []reflect.Value
		collectByType(reflect.ValueOf(&pdu), "PLMNIdentity", &ps, 0)
		if len(ps) == 0 {
			return what + " carries no PLMN identity"
		}
		for _, p := range ps {
			if got := p.Field(0).Bytes(); !bytes.Equal(got, want) {
				return fmt.Sprintf("%s carries PLMN %x, the encoding of MCC %s MNC %s is %x", what, got, mcc, mnc, want)
			}
		}
		return ""
	}
	if m := check("NGSetupRequest", b); m != "" {
		return m
	}
	// the emulator's own NG Setup procedure over a socketpair (the peer answers with a decodable PDU): what it announces,
	// and what the builders repeat afterwards, is the same PLMN
	if fds, err := syscall.Socketpair(syscall.AF_UNIX, syscall.SOCK_SEQPACKET, 0); err == nil {
		reqCh := make(chan []byte, 1)
		go func() {
			buf := make([]byte, 4096)
			n, _ := syscall.Read(fds[0], buf)
			if n < 0 {
				n = 0
			}
			syscall.Write(fds[0], buf[:n])
			reqCh <- append([]byte(nil), buf[:n]...)
		}()
		conn := sctp.NewSCTPConn(fds[1], nil)
		stgutg.ManageNGSetup(conn, "\x00\x01\x02", "imsi-"+imsi, mnc, 24, "gnb")
		req := <-reqCh
		syscall.Close(fds[0])
		conn.Close()
		if m := check("NGSetupRequest sent by ManageNGSetup", req); m != "" {
			return m
		}
	}
	// other subscribers are handled after NG Setup (RegisterUE encodes each UE's SUCI): the announced PLMN must stay
	visitor := fmt.Sprintf("%03d%02d%010d", (atoiDigits(mcc)+317)%1000, (atoiDigits(mnc)+41)%100, 123456789)
	for i, other := range []struct {
		imsi string
		n    int
	}{{visitor, 2}, {visitor[:3] + "9" + visitor[3:], 3}, {imsi[:len(imsi)-1] + "9", len(mnc)}} {
		stgutg.EncodeSuci([]byte(other.imsi), other.n)
		b, err = tglib.GetInitialUEMessage(7, []byte{0x7e, 0, 0x41}, "")
		if err != nil {
			return "GetInitialUEMessage: " + err.Error()
		}
		if m := check(fmt.Sprintf("InitialUEMessage after that NG Setup and the SUCI of subscriber %s (step %d)", other.imsi, i), b); m != "" {
			return m
		}
	}
	b, err = tglib.GetUplinkNASTransport(1, 7, []byte{0x7e, 0, 0x43})
	if err != nil {
		return "GetUplinkNASTransport: " + err.Error()
	}
	_ = tp.TestPlmn
	return check("UplinkNASTransport after that NG Setup", b)
}

// plmnDigits reads three octets as a PLMN identity (TS 24.501 9.11.3.4 nibble layout); ok=false when a nibble is no digit.
func plmnDigits(b []byte) (mcc, mnc string, ok bool) {
	d := []byte{b[0] & 0xf, b[0] >> 4, b[1] & 0xf, b[2] & 0xf, b[2] >> 4, b[1] >> 4} // MCC1 MCC2 MCC3 MNC1 MNC2 MNC3
	for i, x := range d {
		if x > 9 && !(i == 5 && x == 0xf) {
			return "", "", false
		}
	}
	mcc = fmt.Sprintf("%d%d%d", d[0], d[1], d[2])
	mnc = fmt.Sprintf("%d%d", d[3], d[4])
	if d[5] != 0xf {
		mnc += fmt.Sprint(d[5])
	}
	return mcc, mnc, true
}

func atoiDigits(s string) int {
	n := 0
	for _, c := range s {
		n = n*10 + int(c-'0')
	}
	return n
}
