package checks

import (
	"fmt"
	"strings"
	"sync"
	"time"

	"vh/fw"
	"vh/procdrv"
	"vh/refamf"
)

// C19 — fail-stop on AMF loss or garbage. Fault enumeration: for a scenario a fault-free baseline run under strace
// measures M (downlink messages the AMF sent) and R (messages the emulator actually read); every index k < R of the
// downlink stream - except the message after Registration Complete, whose content the emulator deliberately ignores -
// is faulted once per fault kind: "close" (the AMF closes instead of sending message k) or one of eight "garbage"
// variants (message k replaced by bytes that are not a decodable NGAP PDU, the conversation then continues normally so
// that an emulator that swallowed the error would run on to its banner).
func init() {
	fw.Register(&fw.Check{
		ID:    "C19",
		Level: "fault_enumeration",
		Rule: "case = (scenario, fault kind); scenarios: count vectors (1,1,1,1,1) and (2,2,2,2,2) in quick, plus (3,3,3,3,3), (3,1,0,2,3), (2,2,0,0,2), two further AMF-choice variations and one LONG run (12,12,12,12,12; two fault kinds only) in thorough; fault kinds: close (instead of message k), abort (the association is ended with the request that message k would answer still UNREAD: the peer sees a reset, not end-of-file), close-after (right after sending message k, for every k < M after which the emulator still has to write) + 17 garbage variants (bytes framed as a PAGING message that break off; a PDU whose frame - alternative, procedure code, criticality, matching length - is intact around an undecodable interior; bytes laid out like an SCTP event notification; an undecodable answer that arrives 17 s late - after a UE's 15 / 16 s guard timers; the header of a DOWNLINK NAS TRANSPORT / of another message an AMF may send unsolicited, then noise; the first half of the message under the header of another procedure, one octet, 32 random octets, first half, truncated by one, wrong PDU alternative, length beyond the data, zeros, 2047 / 2048 / 8192 random octets). " +
			"Each case runs the baseline under strace and then one emulator process per fault index k in [0,R) (exhaustive over k). Verdict per faulted run: exit status must be non-zero, no completion banner, not blocked: " +
			"'blocked' = after the watchdog (nominal duration of the whole scenario + 20 s) two samples of /proc/<pid>/task/*/syscall three seconds apart both show recvmsg on the N2 descriptor while the AMF is quiescent. " +
			"One extra case per kind drives EstablishPDU through the procedure driver with the fault on its own reply. distinct = hash(scenario, kind); non-trivial = at least 2 faulted runs",
		Assumptions: []string{
			"faults are injected at message boundaries of the downlink stream on an AF_UNIX seqpacket socket; SCTP-specific events (association restart, partial delivery) cannot be produced",
			"R is measured (strace), not modelled; indices k >= R (the unread tail left by the fire-and-forget release) are outside the property and reported only",
		},
		N: func(t string) int {
			if t == "thorough" {
				return 8*len(c19Kinds) + len(c19Kinds)
			}
			return 2*len(c19Kinds) + len(c19Kinds)
		},
		InProcess:       true,
		Workers:         func(string) int { return 5 },
		Run:             runC19,
		Exhaustive:      func(string) bool { return true },
		MaxInconclusive: func(n int) int { return 1 },
	})
}

var c19Kinds = append([]string{"close", "close-after", "abort"}, refamf.GarbageKinds...)

var c19Scenarios = [][5]int{{1, 1, 1, 1, 1}, {2, 2, 2, 2, 2}, {3, 3, 3, 3, 3}, {3, 1, 0, 2, 3}, {2, 2, 0, 0, 2}, {1, 1, 1, 1, 1}, {1, 1, 1, 1, 1}, {12, 12, 12, 12, 12}}

func runC19(c *fw.Case) (o fw.Outcome) {
	nScen := 2
	if c.Thorough() {
		nScen = 8 // the eighth is a LONG run (12 UEs, every procedure: several hundred checks precede the late faults - what depends on how much happened before shows only there)
	}
	nk := len(c19Kinds)
	if c.Idx >= nScen*nk {
		return c19Proc(c, c19Kinds[c.Idx-nScen*nk])
	}
	scen := c.Idx / nk
	kind := c19Kinds[c.Idx%nk]
	v := c19Scenarios[scen]
	if scen == 7 && kind != "close" && kind != "garbage:truncated-half" {
		o.Tag("long-scenario-kind-not-run")
		o.Digest, o.Nontrivial = fw.HashS("c19-long-skip", kind), true
		o.Input = "the long scenario is faulted with two kinds only (close, first half of the message)"
		return
	}
	// the scenario (configuration + AMF choices) depends on the scenario number only, so that all kinds fault the same conversation
	r := fw.CaseRand("C19-scenario", c.Seed, c.Tier, scen)
	cfg := genEmuConfig(r)
	cfg.Reg, cfg.Pdu, cfg.Svc, cfg.Rel, cfg.Dereg = v[0], v[1], v[2], v[3], v[4]
	choiceSeed := r.Int63()
	mk := func() refamf.Choices {
		return genChoices(fw.CaseRand("C19-choices", choiceSeed, c.Tier, scen), cfg.Reg)
	}
	o.Tag(fmt.Sprintf("scenario=%v#%d", v, scen), "kind="+kind)
	o.Digest = fw.HashS("c19", fmt.Sprint(scen), kind)
	nominal := nominalDuration(cfg)
	base := procdrv.Run(workDir(), emuPath(), procdrv.Spec{Cfg: cfg, Choices: mk(), Fault: refamf.Fault{At: -1}, Args: []string{"-t"}, Watchdog: 30*time.Second + 6*nominal, Strace: true})
	if base.Err != nil || base.TimedOut || base.ExitCode != 0 || len(base.AMF.Violations) > 0 || base.Recvmsgs <= 0 {
		o.Inconcl("baseline run of scenario %v did not complete cleanly (err %v timeout %v exit %d violations %d reads %d): %s", v, base.Err, base.TimedOut, base.ExitCode, len(base.AMF.Violations), base.Recvmsgs, tail(base.Stdout, 300))
		return
	}
	M, R := base.AMF.DLSent, base.Recvmsgs
	if R > M {
		o.Inconcl("strace counted %d reads but the AMF sent only %d messages", R, M)
		return
	}
	tags := base.AMF.DLTags
	o.Input = fmt.Sprintf("scenario %v kind %s: baseline M=%d downlink messages, R=%d read by the emulator; stream=%v", v, kind, M, R, tags)
	o.Count("baseline_M", int64(M))
	o.Count("baseline_R", int64(R))
	o.Count("unread_tail_messages", int64(M-R))
	type verdict struct {
		k        int
		key, msg string
		inconcl  bool
	}
	var mu sync.Mutex
	var bad []verdict
	var wg sync.WaitGroup
	sem := make(chan struct{}, 8)
	nf := 0
	// "close-after": the AMF closes right after SENDING message k. In scope for every k < M after which the emulator
	// still has to write something (an uplink event follows it in the baseline history): its next write must fail.
	uplinkFollows := make([]bool, M)
	{
		di, seenUp := M, false
		for i := len(base.AMF.Events) - 1; i >= 0; i-- {
			e := base.AMF.Events[i]
			if e.Dir == "up" {
				seenUp = true
			} else if e.Dir == "down" {
				di--
				if di >= 0 && di < M {
					uplinkFollows[di] = seenUp
				}
			}
		}
	}
	// "abort": which uplink message triggers downlink message k (the one left unread when the association is reset)
	trigger := make([]int, M)
	{
		ups, di := 0, 0
		for _, e := range base.AMF.Events {
			if e.Dir == "up" {
				ups++
			} else if e.Dir == "down" && di < M {
				trigger[di] = ups - 1
				di++
			}
		}
	}
	limit := R
	if kind == "close-after" {
		limit = M
	}
	for k := 0; k < limit; k++ {
		if kind == "close-after" {
			if !uplinkFollows[k] {
				o.Count("skipped_nothing_left_to_write", 1)
				continue
			}
		} else if tags[k] == "after-registration-complete" {
			o.Count("skipped_ignored_message", 1)
			continue
		}
		nf++
		wg.Add(1)
		go func(k int) {
			defer wg.Done()
			sem <- struct{}{}
			defer func() { <-sem }()
			res := procdrv.Run(workDir(), emuPath(), procdrv.Spec{Cfg: cfg, Choices: mk(), Fault: refamf.Fault{At: k, Kind: kind, AtUplink: trigger[k]}, Args: []string{"-t"}, Watchdog: nominal + 20*time.Second + refamf.LateBy(kind)})
			where := fmt.Sprintf("fault %q at downlink message %d (%s) of scenario %v", kind, k, tags[k], v)
			var vd *verdict
			switch {
			case res.Err != nil:
				vd = &verdict{k, "", fmt.Sprintf("%s: run failed: %v", where, res.Err), true}
			case !res.AMF.FaultFired:
				vd = &verdict{k, "", fmt.Sprintf("%s: the fault index was never reached (conversation diverged from the baseline)", where), true}
			case res.TimedOut && strings.Contains(res.BlockedIn, "recvmsg") && !strings.HasPrefix(res.BlockedIn, "unstable"):
				vd = &verdict{k, "hang-after-fault", fmt.Sprintf("%s: the emulator neither exits nor progresses: blocked in %s %v after the fault, AMF quiescent [%s]\n stdout tail: %s", where, res.BlockedIn, res.Duration.Round(time.Second), res.Diag, tail(res.Stdout, 300)), false}
			case res.TimedOut:
				vd = &verdict{k, "", fmt.Sprintf("%s: watchdog fired, emulator in %q", where, res.BlockedIn), true}
			case strings.Contains(res.Stdout, ">> All tests finished"):
				vd = &verdict{k, "banner-after-fault", fmt.Sprintf("%s: the completion banner was printed (exit %d)\n stdout tail: %s", where, res.ExitCode, tail(res.Stdout, 300)), false}
			case res.ExitCode == 0 && !res.Signaled:
				vd = &verdict{k, "exit-zero-after-fault", fmt.Sprintf("%s: exit status 0\n stdout tail: %s", where, tail(res.Stdout, 300)), false}
			}
			mu.Lock()
			defer mu.Unlock()
			if vd != nil {
				bad = append(bad, *vd)
			}
			o.Count("faulted_runs", 1)
			o.Count(fmt.Sprintf("exit_status_%d", res.ExitCode), 1)
			o.Tag("fault-at:" + tags[k])
		}(k)
	}
	wg.Wait()
	o.Nontrivial = nf >= 2
	for _, b := range bad {
		if !b.inconcl {
			o.Fail(b.key+":"+tags[b.k], "%s", b.msg)
			return
		}
	}
	for _, b := range bad {
		o.Inconcl("%s", b.msg)
		return
	}
	return
}

// c19Proc: EstablishPDU must not return a (UE address, TEID, UPF) triple when the reply to its own request was lost or garbage.
func c19Proc(c *fw.Case, kind string) (o fw.Outcome) {
	r := c.R
	cfg := genEmuConfig(r)
	cfg.Reg, cfg.Pdu = 1, 1
	sp := ProcSpec{Cfg: cfg, ChoiceSeed: r.Int63(), NUE: 1, Establish: true, FaultAt: 5, FaultKind: kind, FaultAtUp: 6} // downlink 5 = the setup request, triggered by uplink 6 (the establishment request)
	o.Tag("procedure-driver", "kind="+kind)
	o.Input = fmt.Sprintf("procedure driver: fault %q on the PDUSessionResourceSetupRequest (downlink message 5) answering EstablishPDU", kind)
	o.Digest = fw.HashS("c19proc", kind)
	o.Nontrivial = true
	pr, code, raw, timedOut := runProcChild(sp, 150*time.Second+refamf.LateBy(kind))
	o.Count("procedure_driver_fault_runs", 1)
	if timedOut {
		o.Inconcl("procedure driver child exceeded its watchdog (fault %q)", kind)
		return
	}
	if pr != nil && pr.Stuck {
		o.Fail("establish-hangs-after-fault", "EstablishPDU neither returned nor ended the process: 25 s after fault %q had taken effect on its reply the network is silent and the procedure is asleep in its read\n conversation:%s", kind, pr.Conversation)
		return
	}
	if pr != nil && len(pr.UEs) == 1 && pr.UEs[0].Established {
		o.Fail("session-reported-after-fault", "EstablishPDU returned (%s, %#x, %s) although the reply to its request was %s", pr.UEs[0].GotIP, pr.UEs[0].GotTEID, pr.UEs[0].GotUPF, kind)
		return
	}
	if code == 0 {
		o.Fail("exit-zero-after-fault", "the procedure driver ended with status 0 after fault %q: %s", kind, tail(raw, 300))
	}
	return
}
