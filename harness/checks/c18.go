package checks

import (
	"bytes"
	"context"
	"encoding/json"
	"fmt"
	"net"
	"os"
	"os/exec"
	"strings"
	"sync"
	"time"

	stgutg "stgutgp"

	"vh/fw"
	"vh/procdrv"
	"vh/refamf"
)

// C18 — configuration file and command line reach the procedures unchanged.
//   - conf cases: a generated config.yaml is parsed by the real GetConfiguration in a child process with its own cwd and
//     all 24 fields are compared with the generator's values;
//   - wire cases: the real binary runs with that file; the verif hook's log shows the four values handed to
//     ConnectToAmf, the reference AMF sees every other value on the wire (IMSI/MCC/MNC in SUCI+PLMN, gNB id/bits/name,
//     K/OP/OPc through RES*, SST/SD, gnb_gtp_ip, the five repetition counts through the procedures it observes);
//   - argv cases: only [] selects traffic mode and ["-t"] test mode; anything else prints the usage line, starts no
//     procedure (hook log empty, nothing arrives at the AMF) and exits 0;
//   - interface cases: the interface names reach net.InterfaceByName (fail-fast messages name the right key);
//     where the sandbox allows XDP on the idle ifb0/ifb1, one traffic-mode run shows ue_number registrations.
func init() {
	fw.Register(&fw.Check{
		ID:    "C18",
		Level: "exploration",
		Rule: "idx%8: 0 = wire case (process run, vector from {(1,1,0,0,1),(2,1,1,1,0),(1,0,0,0,0)}); 1 = argv vector (all vectors of length 0..2 over an 8-word alphabet in turn, length 3 sampled); 2 = interface fail-fast / traffic-mode case; " +
			"3..7 = conf case (generated YAML: quoted / single-quoted / plain scalars, escapes in gnb_id, numeric extremes of the integer fields, comments, key order shuffled). Configuration placements (regular, symlink, symlink chain, absolute symlink, hard link, read-only), values that read as environment references (a variable of the children's own is set), host names as address values (by index in one wire case in three), TAB inside values, very long values. distinct = hash(file / vector); all non-trivial",
		Assumptions: []string{
			"the documented keys are the 24 keys of src/config.yaml (the README's src_iface/dst_iface spelling is older; recorded as an observation)",
			"interface values used: non-existent names and the idle ifb0/ifb1 only - never lo or eth0",
		},
		N: func(t string) int {
			if t == "thorough" {
				return 4800
			}
			return 192
		},
		InProcess: true,
		Workers:   func(string) int { return 24 },
		Run:       runC18,
	})
}

// ConfChildMain is `hx conf`: parse ./config.yaml with the real code and print the struct as JSON.
func ConfChildMain() int {
	var c stgutg.Conf
	c.GetConfiguration()
	b, _ := json.Marshal(c.Configuration)
	fmt.Println(string(b))
	return 0
}

var argvWords = []string{"-t", "-T", "t", "--t", "-t ", "", "-x", "--help", "-t\r", "-t\n", "-t\r\n", "-t\t", " -t", "-tt", "-t=", "\u2212t", "-t\v", "-test"}

var ifbMu sync.Mutex

func runC18(c *fw.Case) (o fw.Outcome) {
	o.Nontrivial = true
	switch c.Idx % 8 {
	case 0:
		return c18Wire(c)
	case 1:
		return c18Argv(c)
	case 2:
		return c18Iface(c)
	}
	return c18Conf(c)
}

func c18Conf(c *fw.Case) (o fw.Outcome) {
	r := c.R
	o.Nontrivial = true
	cfg := genEmuConfig(r)
	// numeric extremes
	cfg.AmfPort = pick(r, 0, 1, 38412, 65535, 1<<31-1, r.Intn(1<<20))
	cfg.StgPort = pick(r, 0, 9487, 65535, r.Intn(1<<16))
	cfg.GnbBits = pick(r, uint64(0), 22, 24, 32, 1<<63, ^uint64(0), uint64(r.Intn(64)))
	cfg.SST = pick(r, int32(0), 1, 255, 1<<31-1, -1, int32(r.Intn(256)))
	cfg.UeNumber = pick(r, 0, 1, 10, 10000, r.Intn(100))
	cfg.Reg, cfg.Pdu, cfg.Svc, cfg.Rel, cfg.Dereg = r.Intn(20), r.Intn(20), r.Intn(20), r.Intn(20), r.Intn(20)
	cfg.DLIface, cfg.ULIface = pick(r, "enp0s8", "eth1", "ifb0", "a.b_c"), pick(r, "enp0s9", "ens5", "ifb1")
	cfg.GnbID = rbytes(r, 3+r.Intn(2))
	for i := range cfg.GnbID {
		cfg.GnbID[i] &= 0x7f
	}
	if r.Intn(4) == 0 {
		cfg.GnbID = textOctets(r, len(cfg.GnbID))
		o.Tag("text-like-gnb-id")
	}
	if r.Intn(5) == 0 { // white space inside a scalar is content: a TAB in the middle of a value, escaped or literal
		cfg.LiteralTab = r.Intn(3) != 0
		cfg.GnbID[r.Intn(len(cfg.GnbID))] = 0x09
		cfg.GnbName = pick(r, "gNB\tUPM", "a\t", "\tb", "a \t b", "\t\t")
		o.Tag(fmt.Sprintf("tab-in-value:literal=%v", cfg.LiteralTab))
	}
	// strings made of characters that shells, environment expansion, printf-style formatting and YAML itself treat
	// specially: a configuration VALUE is data, whatever it looks like (the file is written with proper YAML quoting)
	if r.Intn(2) == 0 {
		toks := []string{"$A", "${HOME}", "${VERIF_SITE}", "$VERIF_SITE", "$1", "$$", "$HOME", "${}", "%s", "%d", "%%", "%!", "~", "#x", " #y", ": ", "{a}", "[b]", "*c", "&d", "!e", "|", ">", "@", "`id`", "\\n", "\\x41", "''", "\"", "<<", "?", "-", "null", "0x10", "1e3", "007", "gNB"}
		name := ""
		for i, n := 0, 1+r.Intn(4); i < n; i++ {
			name += toks[r.Intn(len(toks))]
		}
		cfg.GnbName = name
		o.Tag("metacharacters-in-name")
		if r.Intn(2) == 0 {
			cfg.GnbID = []byte(pick(r, "\x00$A", "$A1", "${X}", "%s\x01", "$$\x7f", "~\x00\x01", "#\x01\x02", "*a\x00"))
			o.Tag("metacharacters-in-gnb-id")
		}
		if r.Intn(3) == 0 {
			cfg.DLIface = pick(r, "eth$0", "if%d", "a#b", "x:y", "e{0}")
		}
		cfg.QuoteStyle = pick(r, 0, 1)
	}
	if r.Intn(12) == 0 { // one very long value (a name nobody could use at NG Setup is still the configured name)
		unit, n := pick(r, "gNB-", "x", "0"), pick(r, 1000, 4096, 65535, 65536, 70000, 300000)
		cfg.GnbName = strings.Repeat(unit, n/len(unit)+1)[:n]
		o.Tag("very-long-value")
	}
	y := cfg.YAML()
	// shuffle the key lines and sprinkle comments: YAML mappings are unordered
	lines := strings.Split(strings.TrimRight(y, "\n"), "\n")
	head, keys := lines[:5], lines[5:]
	// ONE key with a value its kind cannot hold (a quoted or spelled-out number, a value beyond the integer width, a
	// sequence where a scalar belongs): what that key becomes is not judged, every OTHER key still arrives as written
	illTyped := ""
	if r.Intn(7) == 0 {
		field := map[string]string{"amf_ngap_port": "AmfNgapPort", "stg_ngap_port": "StgNgapPort", "gnb_bitlength": "Gnb_bitlength", "sst": "SST", "ue_number": "UeNumber",
			"ue_registration": "Test_ue_registation", "ue_pdu": "Test_ue_pdu_establishment", "ue_service": "Test_ue_service", "ue_pdu_release": "Test_ue_pdu_release", "ue_deregistration": "Test_ue_deregistration"}
		names := []string{"amf_ngap_port", "stg_ngap_port", "gnb_bitlength", "sst", "ue_number", "ue_registration", "ue_pdu", "ue_service", "ue_pdu_release", "ue_deregistration"}
		key := names[r.Intn(len(names))]
		raw := pick(r, "\"38412\"", "three", "1.5", "99999999999999999999999", "-1.0e3", "[1]", "0x1G", "12abc")
		if key == "sst" {
			raw = pick(r, raw, "2147483648", "-2147483649")
		}
		if key == "gnb_bitlength" {
			raw = pick(r, raw, "-1", "18446744073709551616")
		}
		for i, l := range keys {
			if strings.HasPrefix(strings.TrimSpace(l), key+":") {
				keys[i] = "  " + key + ": " + raw
				illTyped = field[key]
			}
		}
		o.Tag("one-ill-typed-key")
	}
	r.Shuffle(len(keys), func(i, j int) { keys[i], keys[j] = keys[j], keys[i] })
	var sb strings.Builder
	for _, l := range head {
		sb.WriteString(l + "\n")
	}
	// a LARGE file: a block of comment lines somewhere between the keys, or one very long value - what lies behind the
	// first 4 KiB / 64 KiB / 1 MiB of the file is configuration like the rest
	bigAt, bigSize := -1, 0
	if r.Intn(8) == 0 {
		bigAt, bigSize = r.Intn(len(keys)), pick(r, 4096, 65536-200, 65536, 70000, 1<<20)
		o.Tag(fmt.Sprintf("file:comment-block-%d", bigSize))
	}
	for li, l := range keys {
		if li == bigAt {
			line := "  # " + strings.Repeat("-", 75) + "\n"
			for n := 0; n < bigSize; n += len(line) {
				sb.WriteString(line)
			}
		}
		if r.Intn(5) == 0 {
			sb.WriteString("  # a comment\n")
		}
		if r.Intn(6) == 0 && !strings.Contains(l, "\"") {
			l += " #trailing"
		}
		sb.WriteString(l + "\n")
	}
	y = sb.String()
	// file-level variants every YAML reader must treat alike: CRLF line endings, a UTF-8 byte order mark, a document
	// start marker, trailing blanks
	switch r.Intn(8) {
	case 0:
		y = strings.ReplaceAll(y, "\n", "\r\n")
		o.Tag("file:crlf")
	case 1:
		y = "\xef\xbb\xbf" + y
		o.Tag("file:bom")
	case 2:
		y = "---\n" + y
		o.Tag("file:document-start")
	case 3:
		y = strings.ReplaceAll(y, "\n", "   \n")
		o.Tag("file:trailing-blanks")
	}
	dir, err := os.MkdirTemp(workDir(), "conf")
	if err != nil {
		o.Inconcl("%v", err)
		return
	}
	defer os.RemoveAll(dir)
	placed, err := procdrv.PlaceConfig(dir, []byte(y), pick(r, 0, 0, 0, 1, 2, 3, 4, 5))
	if err != nil {
		o.Inconcl("%v", err)
		return
	}
	o.Tag("placed:" + placed)
	exe, _ := os.Executable()
	ctx, cancel := context.WithTimeout(context.Background(), 2*time.Minute)
	defer cancel()
	cmd := exec.CommandContext(ctx, exe, "conf")
	cmd.WaitDelay = 5 * time.Second
	cmd.Dir = dir
	cmd.Env = append(os.Environ(), "VERIF_SITE=madrid") // a variable that IS set, whatever the environment of the run: see toks
	var out bytes.Buffer
	cmd.Stdout = &out
	if err := cmd.Run(); err != nil {
		if ctx.Err() != nil {
			o.Inconcl("configuration child exceeded its two-minute watchdog")
			return
		}
		o.Fail("conf-crash", "GetConfiguration failed on a well-formed file: %v\n%s", err, y)
		return
	}
	o.Tag("conf")
	o.Input = "config.yaml:\n" + y
	o.Digest = fw.HashS(y)
	var got map[string]any
	lns := strings.Split(strings.TrimSpace(out.String()), "\n")
	dec := json.NewDecoder(strings.NewReader(lns[len(lns)-1]))
	dec.UseNumber()
	if err := dec.Decode(&got); err != nil {
		o.Inconcl("cannot read the child's answer: %v", err)
		return
	}
	want := map[string]any{
		"AmfNgapIP": cfg.AmfIP, "AmfNgapPort": cfg.AmfPort, "Gnb_gtp": cfg.GnbGTP, "StgNgapIP": cfg.StgIP, "StgNgapPort": cfg.StgPort,
		"Gnb_id": string(cfg.GnbID), "Gnb_bitlength": cfg.GnbBits, "Gnb_name": cfg.GnbName, "Initial_imsi": cfg.IMSI, "Mcc": cfg.MCC, "Mnc": cfg.MNC,
		"K": cfg.K, "OPC": cfg.OPC, "OP": cfg.OP, "SST": cfg.SST, "SD": cfg.SD, "DLIface": cfg.DLIface, "ULIface": cfg.ULIface, "UeNumber": cfg.UeNumber,
		"Test_ue_registation": cfg.Reg, "Test_ue_pdu_establishment": cfg.Pdu, "Test_ue_service": cfg.Svc, "Test_ue_pdu_release": cfg.Rel, "Test_ue_deregistration": cfg.Dereg,
	}
	if len(got) != 24 {
		o.Fail("conf-field-count", "the configuration struct has %d fields, the documented file has 24 keys", len(got))
		return
	}
	for k, w := range want {
		if k == illTyped {
			continue
		}
		g, ok := got[k]
		if !ok {
			o.Fail("conf-field:"+k, "field %s missing from the parsed configuration", k)
			return
		}
		if fmt.Sprint(g) != fmt.Sprint(w) {
			o.Fail("conf-field:"+k, "key for %s: the procedures receive %v, the file says %v\n%s", k, g, w, y)
			return
		}
		o.Count("fields_compared", 1)
	}
	return
}

func c18Wire(c *fw.Case) (o fw.Outcome) {
	r := c.R
	o.Nontrivial = true
	cfg := genEmuConfig(r)
	if (c.Idx/8)%3 == 1 { // by index: one wire case in three names a HOST where an address may stand; ConnectToAmf must get the name
		name := pick(r, "localhost", "LocalHost", "localhost", hostsName(r))
		if (c.Idx/24)%2 == 0 {
			cfg.AmfIP = name
		} else {
			cfg.StgIP = name
		}
		o.Tag("host-name-as-address")
	}
	v := pick(r, [5]int{1, 1, 0, 0, 1}, [5]int{2, 1, 1, 1, 0}, [5]int{1, 0, 0, 0, 0})
	cfg.Reg, cfg.Pdu, cfg.Svc, cfg.Rel, cfg.Dereg = v[0], v[1], v[2], v[3], v[4]
	ch := genChoices(r, cfg.Reg)
	res := procdrv.Run(workDir(), emuPath(), procdrv.Spec{Cfg: cfg, Choices: ch, Fault: refamf.Fault{At: -1}, Args: []string{"-t"}, Watchdog: 30*time.Second + 8*nominalDuration(cfg), ConfigPlacement: pick(r, 0, 0, 1, 2, 3)})
	o.Tag("wire")
	o.Input = fmt.Sprintf("wire case: config=%s connect=(%s:%d from %s:%d) vector=%v", cfgSummary(cfg), cfg.AmfIP, cfg.AmfPort, cfg.StgIP, cfg.StgPort, v)
	o.Digest = fw.HashS(o.Input)
	judgeRun(&o, res, true)
	if o.Failed() || o.Verdict == fw.Inconclusive {
		return
	}
	res.AMF.FinalChecks()
	if len(res.AMF.Violations) > 0 {
		o.Fail(res.AMF.Violations[0].Key, "%s", res.AMF.Violations[0].Msg)
		return
	}
	if !strings.Contains(res.Stdout, "TEST MODE") {
		o.Fail("banner", "argument -t did not print the TEST MODE banner: %s", tail(res.Stdout, 200))
		return
	}
	if len(res.Connects) != 1 {
		o.Fail("connect-count", "ConnectToAmf was called %d times", len(res.Connects))
		return
	}
	cn := res.Connects[0]
	if cn.AmfIP != cfg.AmfIP || cn.AmfPort != cfg.AmfPort || cn.StgIP != cfg.StgIP || cn.StgPort != cfg.StgPort {
		o.Fail("connect-args", "ConnectToAmf received (%s, %s, %d, %d), the file says amf_ngap_ip %s stg_ngap_ip %s amf_ngap_port %d stg_ngap_port %d", cn.AmfIP, cn.StgIP, cn.AmfPort, cn.StgPort, cfg.AmfIP, cfg.StgIP, cfg.AmfPort, cfg.StgPort)
		return
	}
	o.Count("wire_runs", 1)
	return
}

func c18Argv(c *fw.Case) (o fw.Outcome) {
	r := c.R
	o.Nontrivial = true
	// enumerate vectors of length 0, 1, 2 over the alphabet in turn; longer ones sampled
	j := c.Idx / 8
	n := len(argvWords)
	var args []string
	switch {
	case j == 0:
	case j <= n:
		args = []string{argvWords[j-1]}
	case j <= n+n*n:
		k := j - n - 1
		args = []string{argvWords[k/n], argvWords[k%n]}
	default:
		args = []string{argvWords[r.Intn(n)], argvWords[r.Intn(n)], argvWords[r.Intn(n)]}
	}
	cfg := genEmuConfig(r)
	cfg.Reg, cfg.Pdu, cfg.Svc, cfg.Rel, cfg.Dereg = 0, 0, 0, 0, 0
	ch := genChoices(r, 1)
	res := procdrv.Run(workDir(), emuPath(), procdrv.Spec{Cfg: cfg, Choices: ch, Fault: refamf.Fault{At: -1}, Args: args, Watchdog: 40 * time.Second})
	o.Tag("argv", fmt.Sprintf("argc=%d", len(args)))
	o.Input = fmt.Sprintf("argv=%q", args)
	o.Digest = fw.HashS(o.Input)
	if res.Err != nil || res.TimedOut {
		o.Inconcl("run failed: %v timeout=%v", res.Err, res.TimedOut)
		return
	}
	started := len(res.Connects) > 0 || res.AMF.ULRecv > 0
	switch {
	case len(args) == 0:
		if !strings.Contains(res.Stdout, "TRAFFIC MODE") || strings.Contains(res.Stdout, "TEST MODE") {
			o.Fail("argv-mode", "no argument must select traffic mode; stdout: %s", tail(res.Stdout, 200))
		} else if !strings.Contains(res.Stdout, "Error obtaining client-facing address information") || res.ExitCode != 1 {
			o.Fail("argv-traffic-path", "traffic mode with a non-existent downlink interface should stop at the interface lookup (exit %d): %s", res.ExitCode, tail(res.Stdout, 200))
		}
	case len(args) == 1 && args[0] == "-t":
		if !strings.Contains(res.Stdout, "TEST MODE") || strings.Contains(res.Stdout, "TRAFFIC MODE") {
			o.Fail("argv-mode", "-t must select test mode; stdout: %s", tail(res.Stdout, 200))
		} else if !started || res.ExitCode != 0 {
			o.Fail("argv-test-path", "test mode did not run (connects %d, exit %d): %s", len(res.Connects), res.ExitCode, tail(res.Stdout, 200))
		}
	default:
		if started {
			o.Fail("argv-started-procedure", "argument vector %q started a procedure (ConnectToAmf calls %d, %d messages at the AMF); only [] and [-t] may", args, len(res.Connects), res.AMF.ULRecv)
		} else if strings.Contains(res.Stdout, "TEST MODE") || strings.Contains(res.Stdout, "TRAFFIC MODE") {
			o.Fail("argv-mode", "argument vector %q selected a mode: %s", args, tail(res.Stdout, 200))
		} else if !strings.Contains(res.Stdout, "Usage") {
			o.Fail("argv-usage", "argument vector %q: no usage message: %s", args, tail(res.Stdout, 200))
		}
	}
	o.Count("argv_vectors", 1)
	return
}

func c18Iface(c *fw.Case) (o fw.Outcome) {
	r := c.R
	o.Nontrivial = true
	cfg := genEmuConfig(r)
	_, err0 := net.InterfaceByName("ifb0")
	_, err1 := net.InterfaceByName("ifb1")
	haveIfb := err0 == nil && err1 == nil
	mode := (c.Idx / 8) % 3
	if mode == 2 && (!haveIfb || c.Idx/8 != 2) {
		mode = r.Intn(2)
	}
	if mode == 1 && !haveIfb {
		mode = 0
	}
	switch mode {
	case 0: // downlink interface does not exist
		cfg.DLIface = "vfnone" + digits(r, 4)
		cfg.ULIface = "ifb1"
	case 1: // downlink exists, uplink does not
		cfg.DLIface = "ifb0"
		cfg.ULIface = "vfnone" + digits(r, 4)
	case 2:
		cfg.DLIface, cfg.ULIface = "ifb0", "ifb1"
		cfg.UeNumber = 3 + r.Intn(2) // three and more: state carried from one loop iteration to the next shows from the third UE on
	}
	cfg.Reg = cfg.UeNumber // the AMF's view of how many registrations to expect
	ch := genChoices(r, maxInt(cfg.UeNumber, 1))
	o.Tag("iface", fmt.Sprintf("iface-mode=%d", mode))
	o.Input = fmt.Sprintf("traffic mode downlink_iface=%s uplink_iface=%s ue_number=%d", cfg.DLIface, cfg.ULIface, cfg.UeNumber)
	o.Digest = fw.HashS(o.Input)
	sp := procdrv.Spec{Cfg: cfg, Choices: ch, Fault: refamf.Fault{At: -1}, Args: nil, Watchdog: 60 * time.Second}
	if mode == 2 {
		ifbMu.Lock()
		defer ifbMu.Unlock()
		want := cfg.UeNumber
		sp.KillWhen = func(a *refamf.AMF) bool { return len(a.Sessions) >= want && a.ULRecv >= 1+7*want }
	}
	res := procdrv.Run(workDir(), emuPath(), sp)
	if res.Err != nil {
		o.Inconcl("run failed: %v", res.Err)
		return
	}
	switch mode {
	case 0:
		if res.ExitCode != 1 || !strings.Contains(res.Stdout, "Error obtaining client-facing address information") || len(res.Connects) > 0 {
			o.Fail("iface-downlink", "downlink_iface %q does not exist: expected the client-facing lookup to fail first (exit %d): %s", cfg.DLIface, res.ExitCode, tail(res.Stdout, 300))
		}
	case 1:
		if res.ExitCode != 1 || !strings.Contains(res.Stdout, "Error obtaining UPF-facing address information") || len(res.Connects) > 0 {
			o.Fail("iface-uplink", "uplink_iface %q does not exist (downlink ifb0 does): expected the UPF-facing lookup to fail (exit %d): %s", cfg.ULIface, res.ExitCode, tail(res.Stdout, 300))
		}
	case 2:
		if !strings.Contains(res.Stdout, "Connecting to AMF") {
			o.Count("traffic_mode_unavailable", 1) // XDP attach not possible here: capability, not a verdict
			o.Tag("traffic-mode-unavailable")
			return
		}
		o.Count("traffic_mode_runs", 1)
		if len(res.AMF.Violations) > 0 {
			v := res.AMF.Violations[0]
			o.Fail(v.Key, "traffic mode: %s\n conversation:%s", v.Msg, conversationSummary(res.AMF, 40))
			return
		}
		if res.TimedOut && strings.HasPrefix(res.BlockedIn, "unstable") {
			o.Inconcl("traffic mode run: watchdog fired, emulator in %q", res.BlockedIn)
			return
		}
		if res.TimedOut || res.AMF.RegDone != cfg.UeNumber || len(res.AMF.Sessions) != cfg.UeNumber {
			o.Fail("ue-number", "traffic mode with ue_number %d: %d registrations and %d sessions seen by the network (timeout %v)\n stdout: %s", cfg.UeNumber, res.AMF.RegDone, len(res.AMF.Sessions), res.TimedOut, tail(res.Stdout, 300))
		}
	}
	return
}
