package checks

import (
	"bytes"
	"fmt"
	"math/rand"
	"net"
	"os"
	"reflect"
	"runtime/debug"
	"sort"
	"strings"

	"free5gclib/aper"
	"free5gclib/ngap"
	"free5gclib/ngap/ngapType"
	"tglib"
	tp "tglib/ngapTestpacket"

	"vh/fw"
	"vh/gen/ngapgen"
	"vh/ref/per"
)

// C13 — gNB-side builders: class / procedure code, the caller's identifiers, NAS-PDU, PDU session ids, gNB id and
// name, GTP address and announced PLMN are found in the encoding by an independent decoder (ref/per) and by the
// library decoder; out-of-range identifiers are refused; the emulator's own messages carry their mandatory IEs.
func init() {
	fw.Register(&fw.Check{
		ID:    "C13",
		Level: "exploration",
		Rule: "case = one builder (idx cycles over all tglib.Get* wrappers and ngapTestpacket.Build* functions except the two empty stubs) called after an NG Setup with a random PLMN, " +
			"with identifiers from the grid {0,1,2^8k-1,2^8k,max,random} (in range) or {max+1,-1,...} (out of range, one argument at a time), NAS-PDU lengths {0,1,127,128,255,256,2047,5000,random}, IPv4 corners. " +
			"PDU session lists of 255 / 256 items (257 refused), optional builder arguments, nil vs empty NAS-PDU; the FIRST builder call of every process uses an address that overlaps the octets in front of it. distinct = hash(builder, encoding); non-trivial = always (a builder call with checked arguments)",
		Assumptions: []string{
			"class/procedure and mandatory-IE tables are typed in from TS 38.413 9.2 / 9.4 by hand",
			"ref/per (independent X.691 decoder over the ngapType schema) and ngap.Decoder must both agree with the arguments",
		},
		N: func(t string) int {
			if t == "thorough" {
				return 600000
			}
			return 20000
		},
		Batch: 2000,
		Init:  c13Init,
		Run:   runC13,
	})
}

// c13Init: the oracle's self-test, then the FIRST builder call of this process. Its address argument is one whose four
// octets overlap the fixed octets that precede the address in the encoding (h0 h1 h2 | a b c d: the addresses h2.h2.h2.h2,
// h1.h2.h1.h2 and h0.h1.h2.h0 occur in the encoding one, two and three octets before their own position): whatever a
// builder keeps from its first call - a template, a position found by looking for the argument's octets - is kept from
// this call, and every later case of the process is judged as usual.
func c13Init() error {
	if err := per.SelfTest(); err != nil {
		return err
	}
	// the layout comes from the REFERENCE encoder: the library must not be called before the call this is about
	var t ngapType.PDUSessionResourceSetupResponseTransfer
	ti := &t.QosFlowPerTNLInformation
	ti.UPTransportLayerInformation.Present = ngapType.UPTransportLayerInformationPresentGTPTunnel
	ti.UPTransportLayerInformation.GTPTunnel = &ngapType.GTPTunnel{}
	ti.UPTransportLayerInformation.GTPTunnel.GTPTEID.Value = []byte{0, 0, 0, 1}
	ti.UPTransportLayerInformation.GTPTunnel.TransportLayerAddress.Value = aper.BitString{Bytes: []byte{10, 11, 12, 13}, BitLength: 32}
	ti.AssociatedQosFlowList.List = []ngapType.AssociatedQosFlowItem{{QosFlowIdentifier: ngapType.QosFlowIdentifier{Value: 1}}}
	probe, err := per.Marshal(t, "valueExt")
	if err != nil {
		return nil
	}
	at := bytes.Index(probe, []byte{10, 11, 12, 13})
	if at < 3 {
		return nil
	}
	h := probe[at-3 : at]
	first := [][4]byte{{h[2], h[2], h[2], h[2]}, {h[1], h[2], h[1], h[2]}, {h[0], h[1], h[2], h[0]}}[os.Getpid()%3]
	c13FirstAddress = net.IP(first[:]).String()
	c13FirstWant = append(append(append([]byte(nil), probe[:at]...), first[:]...), probe[at+4:]...)
	return nil
}

var (
	c13FirstAddress string
	c13FirstWant    []byte
	c13FirstDone    bool
)

type bArgs struct {
	amf, ran   int64
	nas        []byte
	psis       []int64
	psi        int64
	ipv4       string
	plmn       []byte
	gnbID      []byte
	gnbBits    uint64
	gnbName    string
	tgtGNB     []byte
	tgtCell    []byte
	tmsi       string
	r          *rand.Rand
	morePsis   []int64 // PDU session ids inside an optional list argument
	badArg     string  // which argument is out of range ("" = none)
	extName    bool    // the name is longer than the root of its extensible SIZE(1..150,...): carried exactly or refused
	srcAmfIsIE int64   // IE id that carries the amf argument (10, or 100 for PathSwitchRequest)
}

type bSpec struct {
	name  string
	class int
	proc  int64
	uses  string                                                 // amf ran nas psis psi ipv4 gnb handover
	build func(a *bArgs) (ngapType.NGAPPDU, []byte, error, bool) // pdu (if available), encoded bytes (wrappers), error, isWrapper
	own   bool                                                   // a message the emulator itself sends (mandatory IE table applies)
}

func viaEncoder(p ngapType.NGAPPDU) (ngapType.NGAPPDU, []byte, error, bool) {
	b, err := ngap.Encoder(p)
	return p, b, err, false
}
func viaWrapper(b []byte, err error) (ngapType.NGAPPDU, []byte, error, bool) {
	return ngapType.NGAPPDU{}, b, err, true
}

func genVal[T any](a *bArgs) T {
	var z T
	g := ngapgen.New(a.r, 40)
	g.NoExt = true
	v := g.Value(reflect.TypeOf(z), per.Params{})
	return v.Interface().(T)
}

// optVal: an optional argument, present in one call out of two.
func optVal[T any](a *bArgs) *T {
	if a.r.Intn(2) == 0 {
		return nil
	}
	v := genVal[T](a)
	return &v
}
func genList[T any](a *bArgs, n int) []T {
	out := make([]T, n)
	for i := range out {
		out[i] = genVal[T](a)
	}
	return out
}

var c13Specs = []bSpec{
	// ---- thin wrappers of tglib/packet.go
	{"Get.NGSetupRequest", 1, 21, "gnb", func(a *bArgs) (ngapType.NGAPPDU, []byte, error, bool) {
		return viaWrapper(tglib.GetNGSetupRequest(a.gnbID, a.plmn, a.gnbBits, a.gnbName))
	}, true},
	{"Get.InitialUEMessage", 1, 15, "ran nas uli", func(a *bArgs) (ngapType.NGAPPDU, []byte, error, bool) {
		return viaWrapper(tglib.GetInitialUEMessage(a.ran, a.nas, a.tmsi))
	}, true},
	{"Get.UplinkNASTransport", 1, 46, "amf ran nas uli", func(a *bArgs) (ngapType.NGAPPDU, []byte, error, bool) {
		return viaWrapper(tglib.GetUplinkNASTransport(a.amf, a.ran, a.nas))
	}, true},
	{"Get.InitialContextSetupResponse", 2, 14, "amf ran", func(a *bArgs) (ngapType.NGAPPDU, []byte, error, bool) {
		return viaWrapper(tglib.GetInitialContextSetupResponse(a.amf, a.ran))
	}, true},
	{"Get.InitialContextSetupResponseForServiceRequest", 2, 14, "amf ran psi ipv4", func(a *bArgs) (ngapType.NGAPPDU, []byte, error, bool) {
		return viaWrapper(tglib.GetInitialContextSetupResponseForServiceRequest(a.amf, a.ran, a.psi, a.ipv4))
	}, true},
	{"Get.PDUSessionResourceSetupResponse", 2, 29, "amf ran psi ipv4", func(a *bArgs) (ngapType.NGAPPDU, []byte, error, bool) {
		return viaWrapper(tglib.GetPDUSessionResourceSetupResponse(a.amf, a.ran, a.psi, a.ipv4))
	}, true},
	{"Get.UEContextReleaseComplete", 2, 41, "amf ran psis", func(a *bArgs) (ngapType.NGAPPDU, []byte, error, bool) {
		return viaWrapper(tglib.GetUEContextReleaseComplete(a.amf, a.ran, a.psis))
	}, true},
	{"Get.UEContextReleaseRequest", 1, 42, "amf ran psis", func(a *bArgs) (ngapType.NGAPPDU, []byte, error, bool) {
		return viaWrapper(tglib.GetUEContextReleaseRequest(a.amf, a.ran, a.psis))
	}, true},
	{"Get.PDUSessionResourceReleaseResponse", 2, 28, "amf ran psi", func(a *bArgs) (ngapType.NGAPPDU, []byte, error, bool) {
		return viaWrapper(tglib.GetPDUSessionResourceReleaseResponse(a.amf, a.ran, a.psi))
	}, true},
	{"Get.PathSwitchRequest", 1, 25, "srcamf ran", func(a *bArgs) (ngapType.NGAPPDU, []byte, error, bool) {
		return viaWrapper(tglib.GetPathSwitchRequest(a.amf, a.ran))
	}, false},
	{"Get.HandoverRequired", 1, 12, "amf ran hoplmn", func(a *bArgs) (ngapType.NGAPPDU, []byte, error, bool) {
		return viaWrapper(tglib.GetHandoverRequired(a.amf, a.ran, a.tgtGNB, a.tgtCell))
	}, false},
	{"Get.HandoverRequestAcknowledge", 2, 13, "amf ran", func(a *bArgs) (ngapType.NGAPPDU, []byte, error, bool) {
		return viaWrapper(tglib.GetHandoverRequestAcknowledge(a.amf, a.ran))
	}, false},
	{"Get.HandoverNotify", 1, 11, "amf ran uli", func(a *bArgs) (ngapType.NGAPPDU, []byte, error, bool) {
		return viaWrapper(tglib.GetHandoverNotify(a.amf, a.ran))
	}, false},
	{"Get.PDUSessionResourceSetupResponseForPaging", 2, 29, "amf ran ipv4", func(a *bArgs) (ngapType.NGAPPDU, []byte, error, bool) {
		return viaWrapper(tglib.GetPDUSessionResourceSetupResponseForPaging(a.amf, a.ran, a.ipv4))
	}, false},
	// ---- ngapTestpacket.Build*
	{"Build.NGSetupRequest", 1, 21, "", func(a *bArgs) (ngapType.NGAPPDU, []byte, error, bool) {
		return viaEncoder(tp.BuildNGSetupRequest(a.plmn))
	}, false},
	{"Build.NGReset", 1, 20, "", func(a *bArgs) (ngapType.NGAPPDU, []byte, error, bool) {
		if a.r.Intn(2) == 0 {
			return viaEncoder(tp.BuildNGReset(nil))
		}
		l := genVal[ngapType.UEAssociatedLogicalNGConnectionList](a)
		return viaEncoder(tp.BuildNGReset(&l))
	}, false},
	{"Build.NGResetAcknowledge", 2, 20, "", func(a *bArgs) (ngapType.NGAPPDU, []byte, error, bool) {
		return viaEncoder(tp.BuildNGResetAcknowledge())
	}, false},
	{"Build.InitialUEMessage", 1, 15, "ran nas uli", func(a *bArgs) (ngapType.NGAPPDU, []byte, error, bool) {
		return viaEncoder(tp.BuildInitialUEMessage(a.ran, a.nas, a.tmsi))
	}, false},
	{"Build.ErrorIndication", 1, 9, "", func(a *bArgs) (ngapType.NGAPPDU, []byte, error, bool) { return viaEncoder(tp.BuildErrorIndication()) }, false},
	{"Build.UEContextReleaseRequest", 1, 42, "amf ran psis", func(a *bArgs) (ngapType.NGAPPDU, []byte, error, bool) {
		return viaEncoder(tp.BuildUEContextReleaseRequest(a.amf, a.ran, a.psis))
	}, false},
	{"Build.UEContextReleaseComplete", 2, 41, "amf ran psis", func(a *bArgs) (ngapType.NGAPPDU, []byte, error, bool) {
		return viaEncoder(tp.BuildUEContextReleaseComplete(a.amf, a.ran, a.psis))
	}, false},
	{"Build.UEContextModificationResponse", 2, 40, "amf ran", func(a *bArgs) (ngapType.NGAPPDU, []byte, error, bool) {
		return viaEncoder(tp.BuildUEContextModificationResponse(a.amf, a.ran))
	}, false},
	{"Build.UplinkNasTransport", 1, 46, "amf ran nas uli", func(a *bArgs) (ngapType.NGAPPDU, []byte, error, bool) {
		return viaEncoder(tp.BuildUplinkNasTransport(a.amf, a.ran, a.nas))
	}, false},
	{"Build.InitialContextSetupResponse", 2, 14, "amf ran psi ipv4", func(a *bArgs) (ngapType.NGAPPDU, []byte, error, bool) {
		if a.r.Intn(2) == 0 { // the optional list of sessions that could not be set up
			l := genVal[ngapType.PDUSessionResourceFailedToSetupListCxtRes](a)
			for i := range l.List {
				a.morePsis = append(a.morePsis, l.List[i].PDUSessionID.Value)
				// the item's OCTET STRING holds an encoded transfer (from the independent encoder)
				t := genVal[ngapType.PDUSessionResourceSetupUnsuccessfulTransfer](a)
				if b, err := per.Marshal(t, "valueExt"); err == nil {
					l.List[i].PDUSessionResourceSetupUnsuccessfulTransfer = b
				}
			}
			return viaEncoder(tp.BuildInitialContextSetupResponse(a.amf, a.ran, a.psi, a.ipv4, &l))
		}
		return viaEncoder(tp.BuildInitialContextSetupResponse(a.amf, a.ran, a.psi, a.ipv4, nil))
	}, false},
	{"Build.InitialContextSetupFailure", 3, 14, "amf ran", func(a *bArgs) (ngapType.NGAPPDU, []byte, error, bool) {
		return viaEncoder(tp.BuildInitialContextSetupFailure(a.amf, a.ran))
	}, false},
	{"Build.PathSwitchRequest", 1, 25, "srcamf ran", func(a *bArgs) (ngapType.NGAPPDU, []byte, error, bool) {
		return viaEncoder(tp.BuildPathSwitchRequest(a.amf, a.ran))
	}, false},
	{"Build.HandoverRequestAcknowledge", 2, 13, "amf ran", func(a *bArgs) (ngapType.NGAPPDU, []byte, error, bool) {
		return viaEncoder(tp.BuildHandoverRequestAcknowledge(a.amf, a.ran))
	}, false},
	{"Build.HandoverFailure", 3, 13, "amf", func(a *bArgs) (ngapType.NGAPPDU, []byte, error, bool) {
		return viaEncoder(tp.BuildHandoverFailure(a.amf))
	}, false},
	{"Build.PDUSessionResourceReleaseResponse", 2, 28, "", func(a *bArgs) (ngapType.NGAPPDU, []byte, error, bool) {
		return viaEncoder(tp.BuildPDUSessionResourceReleaseResponse())
	}, false},
	{"Build.AMFConfigurationUpdateFailure", 3, 0, "", func(a *bArgs) (ngapType.NGAPPDU, []byte, error, bool) {
		return viaEncoder(tp.BuildAMFConfigurationUpdateFailure())
	}, false},
	{"Build.UERadioCapabilityCheckRequest", 1, 43, "amf ran", func(a *bArgs) (ngapType.NGAPPDU, []byte, error, bool) {
		return viaEncoder(tp.BuildUERadioCapabilityCheckRequest(a.amf, a.ran))
	}, false},
	{"Build.UERadioCapabilityCheckResponse", 2, 43, "", func(a *bArgs) (ngapType.NGAPPDU, []byte, error, bool) {
		return viaEncoder(tp.BuildUERadioCapabilityCheckResponse())
	}, false},
	{"Build.HandoverCancel", 1, 10, "", func(a *bArgs) (ngapType.NGAPPDU, []byte, error, bool) { return viaEncoder(tp.BuildHandoverCancel()) }, false},
	{"Build.LocationReportingFailureIndication", 1, 17, "", func(a *bArgs) (ngapType.NGAPPDU, []byte, error, bool) {
		return viaEncoder(tp.BuildLocationReportingFailureIndication())
	}, false},
	{"Build.PDUSessionResourceSetupResponse", 2, 29, "amf ran ipv4", func(a *bArgs) (ngapType.NGAPPDU, []byte, error, bool) {
		return viaEncoder(tp.BuildPDUSessionResourceSetupResponse(a.amf, a.ran, a.ipv4))
	}, false},
	{"Build.PDUSessionResourceSetupResponseForPaging", 2, 29, "amf ran ipv4", func(a *bArgs) (ngapType.NGAPPDU, []byte, error, bool) {
		return viaEncoder(tp.BuildPDUSessionResourceSetupResponseForPaging(a.amf, a.ran, a.ipv4))
	}, false},
	{"Build.PDUSessionResourceModifyResponse", 2, 26, "amf ran", func(a *bArgs) (ngapType.NGAPPDU, []byte, error, bool) {
		return viaEncoder(tp.BuildPDUSessionResourceModifyResponse(a.amf, a.ran))
	}, false},
	{"Build.PDUSessionResourceNotify", 1, 30, "", func(a *bArgs) (ngapType.NGAPPDU, []byte, error, bool) {
		return viaEncoder(tp.BuildPDUSessionResourceNotify())
	}, false},
	{"Build.PDUSessionResourceModifyIndication", 1, 27, "amf ran", func(a *bArgs) (ngapType.NGAPPDU, []byte, error, bool) {
		return viaEncoder(tp.BuildPDUSessionResourceModifyIndication(a.amf, a.ran))
	}, false},
	{"Build.UEContextModificationFailure", 3, 40, "amf ran", func(a *bArgs) (ngapType.NGAPPDU, []byte, error, bool) {
		return viaEncoder(tp.BuildUEContextModificationFailure(a.amf, a.ran))
	}, false},
	{"Build.RRCInactiveTransitionReport", 1, 37, "", func(a *bArgs) (ngapType.NGAPPDU, []byte, error, bool) {
		return viaEncoder(tp.BuildRRCInactiveTransitionReport())
	}, false},
	{"Build.HandoverNotify", 1, 11, "amf ran uli", func(a *bArgs) (ngapType.NGAPPDU, []byte, error, bool) {
		return viaEncoder(tp.BuildHandoverNotify(a.amf, a.ran))
	}, false},
	{"Build.UplinkRanStatusTransfer", 1, 49, "amf ran", func(a *bArgs) (ngapType.NGAPPDU, []byte, error, bool) {
		return viaEncoder(tp.BuildUplinkRanStatusTransfer(a.amf, a.ran))
	}, false},
	{"Build.NasNonDeliveryIndication", 1, 19, "amf ran nas", func(a *bArgs) (ngapType.NGAPPDU, []byte, error, bool) {
		return viaEncoder(tp.BuildNasNonDeliveryIndication(a.amf, a.ran, aper.OctetString(a.nas)))
	}, false},
	{"Build.RanConfigurationUpdate", 1, 35, "", func(a *bArgs) (ngapType.NGAPPDU, []byte, error, bool) {
		return viaEncoder(tp.BuildRanConfigurationUpdate())
	}, false},
	{"Build.RanConfigurationUpdateAck", 2, 35, "", func(a *bArgs) (ngapType.NGAPPDU, []byte, error, bool) {
		if a.r.Intn(2) == 0 {
			return viaEncoder(tp.BuildRanConfigurationUpdateAck(nil))
		}
		d := genVal[ngapType.CriticalityDiagnostics](a)
		return viaEncoder(tp.BuildRanConfigurationUpdateAck(&d))
	}, false},
	{"Build.RanConfigurationUpdateFailure", 3, 35, "", func(a *bArgs) (ngapType.NGAPPDU, []byte, error, bool) {
		var tw *ngapType.TimeToWait
		var d *ngapType.CriticalityDiagnostics
		if a.r.Intn(2) == 0 {
			x := genVal[ngapType.TimeToWait](a)
			tw = &x
		}
		if a.r.Intn(2) == 0 {
			x := genVal[ngapType.CriticalityDiagnostics](a)
			d = &x
		}
		return viaEncoder(tp.BuildRanConfigurationUpdateFailure(tw, d))
	}, false},
	{"Build.UplinkRanConfigurationTransfer", 1, 48, "", func(a *bArgs) (ngapType.NGAPPDU, []byte, error, bool) {
		return viaEncoder(tp.BuildUplinkRanConfigurationTransfer())
	}, false},
	{"Build.UplinkUEAssociatedNRPPATransport", 1, 50, "", func(a *bArgs) (ngapType.NGAPPDU, []byte, error, bool) {
		return viaEncoder(tp.BuildUplinkUEAssociatedNRPPATransport())
	}, false},
	{"Build.UplinkNonUEAssociatedNRPPATransport", 1, 47, "", func(a *bArgs) (ngapType.NGAPPDU, []byte, error, bool) {
		return viaEncoder(tp.BuildUplinkNonUEAssociatedNRPPATransport())
	}, false},
	{"Build.LocationReport", 1, 18, "", func(a *bArgs) (ngapType.NGAPPDU, []byte, error, bool) { return viaEncoder(tp.BuildLocationReport()) }, false},
	{"Build.UERadioCapabilityInfoIndication", 1, 44, "", func(a *bArgs) (ngapType.NGAPPDU, []byte, error, bool) {
		return viaEncoder(tp.BuildUERadioCapabilityInfoIndication())
	}, false},
	{"Build.AMFConfigurationUpdateAcknowledge", 2, 0, "", func(a *bArgs) (ngapType.NGAPPDU, []byte, error, bool) {
		return viaEncoder(tp.BuildAMFConfigurationUpdateAcknowledge())
	}, false},
	{"Build.AMFConfigurationUpdate", 1, 0, "amfname", func(a *bArgs) (ngapType.NGAPPDU, []byte, error, bool) {
		return viaEncoder(tp.BuildAMFConfigurationUpdate(a.gnbName, genList[ngapType.ServedGUAMIItem](a, 1+a.r.Intn(3)),
			genList[ngapType.PLMNSupportItem](a, 1+a.r.Intn(3)), int64(a.r.Intn(256)), nil, nil, nil))
	}, false},
	{"Build.HandoverRequired", 1, 12, "amf ran hoplmn", func(a *bArgs) (ngapType.NGAPPDU, []byte, error, bool) {
		return viaEncoder(tp.BuildHandoverRequired(a.amf, a.ran, a.tgtGNB, a.tgtCell))
	}, false},
	{"Build.CellTrafficTrace", 1, 2, "amf ran", func(a *bArgs) (ngapType.NGAPPDU, []byte, error, bool) {
		return viaEncoder(tp.BuildCellTrafficTrace(a.amf, a.ran))
	}, false},
	{"Build.InitialContextSetupResponseForRegistraionTest", 2, 14, "amf ran", func(a *bArgs) (ngapType.NGAPPDU, []byte, error, bool) {
		return viaEncoder(tp.BuildInitialContextSetupResponseForRegistraionTest(a.amf, a.ran))
	}, false},
	{"Build.PDUSessionResourceSetupResponseForRegistrationTest", 2, 29, "amf ran psi ipv4", func(a *bArgs) (ngapType.NGAPPDU, []byte, error, bool) {
		return viaEncoder(tp.BuildPDUSessionResourceSetupResponseForRegistrationTest(a.amf, a.ran, a.psi, a.ipv4))
	}, false},
	{"Build.PDUSessionResourceReleaseResponseForReleaseTest", 2, 28, "amf ran psi", func(a *bArgs) (ngapType.NGAPPDU, []byte, error, bool) {
		return viaEncoder(tp.BuildPDUSessionResourceReleaseResponseForReleaseTest(a.amf, a.ran, a.psi))
	}, false},
	{"Build.NGSetupResponse", 2, 21, "amfname", func(a *bArgs) (ngapType.NGAPPDU, []byte, error, bool) {
		return viaEncoder(tp.BuildNGSetupResponse(a.gnbName, genList[ngapType.ServedGUAMIItem](a, 1+a.r.Intn(3)),
			genList[ngapType.PLMNSupportItem](a, 1+a.r.Intn(3)), int64(a.r.Intn(256))))
	}, false},
	{"Build.PDUSessionResourceModifyConfirm", 2, 27, "amf ran", func(a *bArgs) (ngapType.NGAPPDU, []byte, error, bool) {
		return viaEncoder(tp.BuildPDUSessionResourceModifyConfirm(a.amf, a.ran, genVal[ngapType.PDUSessionResourceModifyListModCfm](a),
			genVal[ngapType.PDUSessionResourceFailedToModifyListModCfm](a), optVal[ngapType.CriticalityDiagnostics](a)))
	}, false},
	{"Build.PDUSessionResourceReleaseCommand", 1, 28, "amf ran nas", func(a *bArgs) (ngapType.NGAPPDU, []byte, error, bool) {
		return viaEncoder(tp.BuildPDUSessionResourceReleaseCommand(a.amf, a.ran, optVal[ngapType.RANPagingPriority](a), a.nas, genVal[ngapType.PDUSessionResourceToReleaseListRelCmd](a)))
	}, false},
	{"Build.OverloadStart", 1, 22, "", func(a *bArgs) (ngapType.NGAPPDU, []byte, error, bool) {
		var ind *int64
		if a.r.Intn(2) == 0 {
			v := int64(1 + a.r.Intn(99))
			ind = &v
		}
		var list []ngapType.OverloadStartNSSAIItem
		if a.r.Intn(2) == 0 {
			list = genList[ngapType.OverloadStartNSSAIItem](a, 1+a.r.Intn(3))
		}
		return viaEncoder(tp.BuildOverloadStart(optVal[ngapType.OverloadAction](a), ind, list))
	}, false},
	{"Build.OverloadStop", 1, 23, "", func(a *bArgs) (ngapType.NGAPPDU, []byte, error, bool) { return viaEncoder(tp.BuildOverloadStop()) }, false},
}

// mandatory IEs (id, criticality) of the messages the emulator sends, TS 38.413 9.2
var c13Mandatory = map[string][][2]int64{
	"1/21": {{27, 0}, {102, 0}, {21, 1}},          // NG SETUP REQUEST: Global RAN Node ID, Supported TA List, Default Paging DRX
	"1/15": {{85, 0}, {38, 0}, {121, 0}, {90, 1}}, // INITIAL UE MESSAGE: RAN UE NGAP ID, NAS-PDU, User Location Information, RRC Establishment Cause
	"1/46": {{10, 0}, {85, 0}, {38, 0}, {121, 1}}, // UPLINK NAS TRANSPORT
	"2/14": {{10, 1}, {85, 1}},                    // INITIAL CONTEXT SETUP RESPONSE
	"2/29": {{10, 1}, {85, 1}},                    // PDU SESSION RESOURCE SETUP RESPONSE
	"2/28": {{10, 1}, {85, 1}, {70, 1}},           // PDU SESSION RESOURCE RELEASE RESPONSE: + PDU Session Resource Released List
	"2/41": {{10, 1}, {85, 1}},                    // UE CONTEXT RELEASE COMPLETE
	"1/42": {{10, 0}, {85, 0}, {15, 1}},           // UE CONTEXT RELEASE REQUEST: + Cause
}

var idGrid40 = []int64{0, 1, 255, 256, 65535, 65536, 1<<24 - 1, 1 << 24, 1<<32 - 1, 1 << 32, 1<<40 - 1}
var idGrid32 = []int64{0, 1, 255, 256, 65535, 65536, 1<<24 - 1, 1 << 24, 1<<32 - 2, 1<<32 - 1}

func runC13(c *fw.Case) (o fw.Outcome) {
	harvest()
	r := c.R
	if !c13FirstDone && c13FirstAddress != "" {
		c13FirstDone = true
		if got := tp.GetPDUSessionResourceSetupResponseTransfer(c13FirstAddress); !bytes.Equal(got, c13FirstWant) {
			o.Nontrivial, o.Digest = true, fw.HashS("first-builder-call", c13FirstAddress)
			o.Fail("mismatch:first-call-of-a-process", "GetPDUSessionResourceSetupResponseTransfer(%s) as the first builder call of a process = %x, X.691 gives %x", c13FirstAddress, got, c13FirstWant)
			return
		}
	}
	sp := c13Specs[c.Idx%len(c13Specs)]
	a := &bArgs{r: r}
	pickID := func(grid []int64, max int64) int64 {
		if r.Intn(3) == 0 {
			return r.Int63n(max + 1)
		}
		return grid[r.Intn(len(grid))]
	}
	a.amf = pickID(idGrid40, 1<<40-1)
	a.ran = pickID(idGrid32, 1<<32-1)
	a.psi = int64(pick(r, 0, 1, 5, 15, 16, 127, 128, 254, 255, r.Intn(256)))
	for i, n := 0, 1+r.Intn(3); i < n; i++ {
		a.psis = append(a.psis, int64(r.Intn(256)))
	}
	switch r.Intn(6) {
	case 0: // a repeated identity: what is given is what is carried (the builders do not interpret the list)
		a.psis = append(a.psis, a.psis[r.Intn(len(a.psis))])
	case 1: // a long list
		for n := pick(r, 256, 256, 255, 128, 16+r.Intn(241)); len(a.psis) < n; { // maxnoofPDUSessions = 256: the count goes on the wire as n-1
			a.psis = append(a.psis, int64(r.Intn(256)))
		}
	}
	a.nas = rbytes(r, pick(r, 0, 1, 2, 127, 128, 255, 256, 2047, 5000, r.Intn(300)))
	if len(a.nas) == 0 && r.Intn(2) == 0 {
		a.nas = nil // a NAS-PDU of length 0 in its other Go spelling (the zero value of []byte)
	}
	if len(a.nas) >= 2 && r.Intn(4) == 0 {
		// a NAS-PDU is an opaque OCTET STRING to NGAP, also when its first octets READ AS a NAS header (5GMM / 5GSM
		// discriminator, a security header type) in front of fewer octets than such a message would have
		a.nas = a.nas[:minInt(len(a.nas), pick(r, 2, 3, 4, 5, 6, 7, len(a.nas)))]
		a.nas[0], a.nas[1] = pick(r, byte(0x7e), 0x7e, 0x2e), byte(pick(r, 0, 1, 2, 3, 4, 0xf3, r.Intn(256)))
	}
	a.ipv4 = pick(r, "0.0.0.0", "255.255.255.255", "10.0.0.1", "192.168.61.3", "127.0.0.1", net.IP(rbytes(r, 4)).String(), ipv4Class(r).String(), ipv4Class(r).String())
	if r.Intn(6) == 0 { // the same IPv4 address in the IPv4-mapped notations net.ParseIP also reads as IPv4 (To4 != nil)
		ip := net.ParseIP(a.ipv4).To4()
		a.ipv4 = pick(r, "::ffff:"+a.ipv4, fmt.Sprintf("::ffff:%02x%02x:%02x%02x", ip[0], ip[1], ip[2], ip[3]), fmt.Sprintf("0:0:0:0:0:ffff:%x:%x", int(ip[0])<<8|int(ip[1]), int(ip[2])<<8|int(ip[3])))
	}
	a.plmn = rbytes(r, 3)
	a.gnbBits = uint64(22 + r.Intn(11))
	a.gnbID = rbytes(r, 4)
	if r.Intn(2) == 0 {
		a.gnbID = rbytes(r, int(a.gnbBits+7)/8)
	}
	nameLen := pick(r, 1, 2, 7, 149, 150, 1+r.Intn(150))
	nb := make([]byte, nameLen)
	for i := range nb {
		nb[i] = "ABCxyz019 -.'()+,/:=?"[r.Intn(21)]
	}
	a.gnbName = string(nb)
	a.tgtGNB = rbytes(r, 3)
	a.tgtCell = rbytes(r, 2) // gNB id (3 octets) + cell part = the 36-bit NR cell identity the builder assembles (5 octets, as its callers pass)
	if r.Intn(3) == 0 {
		a.tmsi = hexs(rbytes(r, 6))
	}
	if (strings.Contains(sp.uses, "gnb") || strings.Contains(sp.uses, "amfname")) && r.Intn(5) == 0 {
		nb := make([]byte, pick(r, 151, 152, 200, 255, 256, 300, 1000))
		for i := range nb {
			nb[i] = "ABCxyz019 -.'()+,/:=?"[r.Intn(21)]
		}
		a.gnbName, a.extName = string(nb), true
	}
	// one case in five: exactly one identifier out of range
	if !a.extName && r.Intn(5) == 0 {
		var cands []string
		for _, u := range strings.Fields(sp.uses) {
			switch u {
			case "amf", "srcamf", "ran", "psi", "psis":
				cands = append(cands, u)
			case "gnb":
				cands = append(cands, "plmn", "gnbbits")
			}
		}
		if sp.name == "Build.NGSetupRequest" {
			cands = append(cands, "plmn")
		}
		if len(cands) > 0 {
			a.badArg = cands[r.Intn(len(cands))]
			switch a.badArg {
			case "amf", "srcamf":
				a.amf = pick(r, int64(1)<<40, 1<<40+1, -1, 1<<48, -(1 << 40))
			case "ran":
				a.ran = pick(r, int64(1)<<32, 1<<32+1, -1, 1<<40, -(1 << 31))
			case "psi":
				a.psi = pick(r, int64(256), 257, -1, 300, 1<<16, 9999)
			case "psis":
				if k := r.Intn(5); k == 0 { // one item more than maxnoofPDUSessions, every identity in range
					for len(a.psis) < 257 {
						a.psis = append(a.psis, int64(r.Intn(256)))
					}
				} else if k <= 2 {
					a.psis[r.Intn(len(a.psis))] = pick(r, int64(256), -1, 300, 70000)
				} else { // out of range but congruent modulo 256 to an in-range identity given earlier in the same list
					base := a.psis[r.Intn(len(a.psis))]
					a.psis = append(a.psis, base+pick(r, int64(256), 512, 65536, -256))
				}
			case "plmn": // PLMNIdentity is OCTET STRING (SIZE(3))
				a.plmn = rbytes(r, pick(r, 0, 1, 2, 4, 5, 6))
			case "gnbbits": // gNB-ID is BIT STRING (SIZE(22..32))
				a.gnbBits = uint64(pick(r, 0, 1, 21, 33, 40))
				a.gnbID = rbytes(r, 5)
			}
		}
	}
	o.Tag("builder:" + sp.name)
	if a.badArg != "" {
		o.Tag("out-of-range:" + a.badArg)
	}
	o.Input = fmt.Sprintf("%s amf=%d ran=%d psi=%d psis=%v nas=%d octets ipv4=%s plmn=%x gnb=%x/%d name=%q bad=%s", sp.name, a.amf, a.ran, a.psi, a.psis, len(a.nas), a.ipv4, a.plmn, a.gnbID, a.gnbBits, a.gnbName, a.badArg)
	o.Nontrivial = true

	// NG Setup announces the PLMN (as in the emulator), then the builder under test
	announced := a.plmn
	if a.badArg == "plmn" {
		announced = rbytes(r, 3)
	}
	tp.BuildNGSetupRequest(announced)
	var pduIn ngapType.NGAPPDU
	var enc []byte
	var err error
	var isWrapper bool
	func() {
		defer func() {
			if rec := recover(); rec != nil {
				st := string(debug.Stack())
				o.Fail("panic:"+fw.TopRepoFrame(st), "%s panicked: %v\n%s", sp.name, rec, clipS(st, 1500))
			}
		}()
		pduIn, enc, err, isWrapper = sp.build(a)
	}()
	_ = pduIn
	_ = isWrapper
	o.Digest = fw.Hash([]byte(sp.name), enc, []byte(a.badArg))
	if o.Failed() {
		return
	}
	if err == nil && enc != nil {
		if m := retainCheck("builder-output", enc, sp.name); m != "" {
			o.Fail("retained-encoding-changed", "%s", m)
			return
		}
	}
	o.Count("builder_calls", 1)
	if a.badArg != "" {
		o.Count("out_of_range_calls", 1)
		if err == nil {
			o.Fail("not-refused:"+sp.name+":"+a.badArg, "%s accepted an out-of-range %s (amf=%d ran=%d psi=%d psis=%v plmn=%x gnb bits=%d) and produced %x", sp.name, a.badArg, a.amf, a.ran, a.psi, a.psis, a.plmn, a.gnbBits, clip(enc, 100))
		}
		return
	}
	if a.extName {
		o.Tag("name-above-size-root")
		if err != nil {
			o.Count("names_above_the_root_refused", 1)
			return
		}
		o.Count("names_above_the_root_encoded", 1)
	}
	if err != nil {
		o.Fail("encode-error:"+sp.name, "%s fails for in-range arguments: %v", sp.name, err)
		return
	}
	// independent decode and library decode
	var ref ngapType.NGAPPDU
	if derr := per.Unmarshal(enc, &ref, pduTag); derr != nil {
		o.Fail("undecodable:"+sp.name, "independent X.691 decoder rejects the output of %s: %v\n %x", sp.name, derr, clip(enc, 300))
		return
	}
	lib, derr := ngap.Decoder(append([]byte(nil), enc...))
	if derr != nil {
		o.Fail("lib-undecodable:"+sp.name, "ngap.Decoder rejects the output of %s: %v", sp.name, derr)
		return
	}
	for which, pdu := range map[string]*ngapType.NGAPPDU{"independent decoder": &ref, "library decoder": lib} {
		if msg, key := c13Verify(sp, a, pdu); msg != "" {
			o.Fail(key+":"+sp.name, "%s (%s): %s\n encoding: %x", sp.name, which, msg, clip(enc, 300))
			return
		}
	}
	o.Count("messages_verified", 1)
	return
}

type ieInfo struct {
	crit int64
	val  reflect.Value
}

// messageIEs extracts (class, proc, IEs by id) from a decoded PDU by reflection.
func messageIEs(pdu *ngapType.NGAPPDU) (class int, proc int64, ies map[int64]ieInfo, order []int64, err string) {
	class = pdu.Present
	var msg reflect.Value
	switch class {
	case 1:
		if pdu.InitiatingMessage == nil {
			return class, -1, nil, nil, "nil InitiatingMessage"
		}
		proc = pdu.InitiatingMessage.ProcedureCode.Value
		msg = reflect.ValueOf(pdu.InitiatingMessage.Value)
	case 2:
		if pdu.SuccessfulOutcome == nil {
			return class, -1, nil, nil, "nil SuccessfulOutcome"
		}
		proc = pdu.SuccessfulOutcome.ProcedureCode.Value
		msg = reflect.ValueOf(pdu.SuccessfulOutcome.Value)
	case 3:
		if pdu.UnsuccessfulOutcome == nil {
			return class, -1, nil, nil, "nil UnsuccessfulOutcome"
		}
		proc = pdu.UnsuccessfulOutcome.ProcedureCode.Value
		msg = reflect.ValueOf(pdu.UnsuccessfulOutcome.Value)
	default:
		return class, -1, nil, nil, "PDU choice unset"
	}
	present := int(msg.Field(0).Int())
	if present < 1 || present >= msg.NumField() || msg.Field(present).IsNil() {
		return class, proc, nil, nil, "message value unset"
	}
	m := msg.Field(present).Elem()
	ies = map[int64]ieInfo{}
	list := m.Field(0).Field(0) // ProtocolIEs.List
	for i := 0; i < list.Len(); i++ {
		ie := list.Index(i)
		id := ie.Field(0).Field(0).Int()
		crit := int64(ie.Field(1).Field(0).Uint())
		v := ie.Field(2)
		p := int(v.Field(0).Int())
		var val reflect.Value
		if p >= 1 && p < v.NumField() {
			val = v.Field(p)
		}
		ies[id] = ieInfo{crit, val}
		order = append(order, id)
	}
	return
}

func collectByType(v reflect.Value, typeName string, out *[]reflect.Value, depth int) {
	if depth > 30 || !v.IsValid() {
		return
	}
	switch v.Kind() {
	case reflect.Ptr, reflect.Interface:
		if !v.IsNil() {
			collectByType(v.Elem(), typeName, out, depth+1)
		}
	case reflect.Struct:
		if v.Type().Name() == typeName {
			*out = append(*out, v)
			return
		}
		for i := 0; i < v.NumField(); i++ {
			collectByType(v.Field(i), typeName, out, depth+1)
		}
	case reflect.Slice:
		if v.Type().Elem().Kind() == reflect.Uint8 {
			return
		}
		for i := 0; i < v.Len(); i++ {
			collectByType(v.Index(i), typeName, out, depth+1)
		}
	}
}

// transfersIn decodes every OCTET STRING component whose name ends in "Transfer" with the independent decoder.
func transfersIn(v reflect.Value, out *[]reflect.Value, errs *[]string, depth int) {
	if depth > 30 || !v.IsValid() {
		return
	}
	switch v.Kind() {
	case reflect.Ptr, reflect.Interface:
		if !v.IsNil() {
			transfersIn(v.Elem(), out, errs, depth+1)
		}
	case reflect.Struct:
		t := v.Type()
		for i := 0; i < v.NumField(); i++ {
			f := v.Field(i)
			if strings.HasSuffix(t.Field(i).Name, "Transfer") && f.Kind() == reflect.Slice && f.Type().Elem().Kind() == reflect.Uint8 {
				tt, ok := namedTypes[t.Field(i).Name]
				if !ok {
					continue
				}
				pv := reflect.New(tt)
				if err := per.Unmarshal(f.Bytes(), pv.Interface(), "valueExt"); err != nil {
					*errs = append(*errs, fmt.Sprintf("%s does not decode: %v", t.Field(i).Name, err))
					continue
				}
				*out = append(*out, pv.Elem())
				continue
			}
			transfersIn(f, out, errs, depth+1)
		}
	case reflect.Slice:
		if v.Type().Elem().Kind() == reflect.Uint8 {
			return
		}
		for i := 0; i < v.Len(); i++ {
			transfersIn(v.Index(i), out, errs, depth+1)
		}
	}
}

func c13Verify(sp bSpec, a *bArgs, pdu *ngapType.NGAPPDU) (msg, key string) {
	class, proc, ies, order, e := messageIEs(pdu)
	if e != "" {
		return e, "malformed"
	}
	if class != sp.class || proc != sp.proc {
		return fmt.Sprintf("class/procedure %d/%d, expected %d/%d", class, proc, sp.class, sp.proc), "wrong-procedure"
	}
	uses := map[string]bool{}
	for _, u := range strings.Fields(sp.uses) {
		uses[u] = true
	}
	intOf := func(id int64) (int64, bool) {
		ie, ok := ies[id]
		if !ok || !ie.val.IsValid() || ie.val.IsNil() {
			return 0, false
		}
		return ie.val.Elem().Field(0).Int(), true
	}
	if uses["amf"] {
		if x, ok := intOf(10); !ok || x != a.amf {
			return fmt.Sprintf("AMF-UE-NGAP-ID in the encoding is %d (present=%v), argument was %d", x, ok, a.amf), "wrong-amf-id"
		}
	}
	if uses["srcamf"] {
		if x, ok := intOf(100); !ok || x != a.amf {
			return fmt.Sprintf("Source AMF-UE-NGAP-ID in the encoding is %d (present=%v), argument was %d", x, ok, a.amf), "wrong-amf-id"
		}
	}
	if uses["ran"] {
		if x, ok := intOf(85); !ok || x != a.ran {
			return fmt.Sprintf("RAN-UE-NGAP-ID in the encoding is %d (present=%v), argument was %d", x, ok, a.ran), "wrong-ran-id"
		}
	}
	if uses["nas"] {
		ie, ok := ies[38]
		if !ok && a.nas == nil && strings.Contains(sp.name, "ReleaseCommand") {
			// the one builder whose NAS-PDU is OPTIONAL: a nil argument means "no NAS-PDU", by its own contract
		} else if !ok || ie.val.IsNil() || !bytes.Equal(ie.val.Elem().Field(0).Bytes(), a.nas) {
			return fmt.Sprintf("NAS-PDU in the encoding differs from the argument (%d octets given)", len(a.nas)), "wrong-nas-pdu"
		}
	}
	root := reflect.ValueOf(pdu)
	if uses["psi"] || uses["psis"] {
		var found []reflect.Value
		collectByType(root, "PDUSessionID", &found, 0)
		var got []int64
		for _, f := range found {
			got = append(got, f.Field(0).Int())
		}
		want := a.psis
		if uses["psi"] {
			want = append([]int64{a.psi}, a.morePsis...) // plus those of an optional list argument the case supplied
		}
		g, w := append([]int64(nil), got...), append([]int64(nil), want...)
		sort.Slice(g, func(i, j int) bool { return g[i] < g[j] })
		sort.Slice(w, func(i, j int) bool { return w[i] < w[j] })
		if fmt.Sprint(g) != fmt.Sprint(w) {
			return fmt.Sprintf("PDU session ids in the encoding %v, arguments %v", got, want), "wrong-pdu-session-id"
		}
	}
	if uses["uli"] || sp.own {
		var plmns []reflect.Value
		if ie, ok := ies[121]; ok && ie.val.IsValid() {
			collectByType(ie.val, "PLMNIdentity", &plmns, 0)
			if uses["uli"] && len(plmns) == 0 {
				return "UserLocationInformation carries no PLMN", "missing-plmn"
			}
			for _, p := range plmns {
				if !bytes.Equal(p.Field(0).Bytes(), a.plmn) {
					return fmt.Sprintf("PLMN in UserLocationInformation is %x, NG Setup announced %x", p.Field(0).Bytes(), a.plmn), "wrong-plmn"
				}
			}
		} else if uses["uli"] {
			return "UserLocationInformation IE missing", "missing-uli"
		}
	}
	if uses["hoplmn"] {
		// HANDOVER REQUIRED: every PLMN identity of the message - the target id at NGAP level and, one level down, the cells
		// named inside the Source to Target Transparent Container (target cell, UE history) - is the announced PLMN
		var pl []reflect.Value
		collectByType(root, "PLMNIdentity", &pl, 0)
		var conts []reflect.Value
		collectByType(root, "SourceToTargetTransparentContainer", &conts, 0)
		for _, cv := range conts {
			var inner ngapType.SourceNGRANNodeToTargetNGRANNodeTransparentContainer
			if err := per.Unmarshal(cv.Field(0).Bytes(), &inner, "valueExt"); err != nil {
				return fmt.Sprintf("Source to Target Transparent Container does not decode: %v", err), "bad-transfer"
			}
			collectByType(reflect.ValueOf(&inner), "PLMNIdentity", &pl, 0)
		}
		if len(conts) == 0 || len(pl) < 3 {
			return fmt.Sprintf("HANDOVER REQUIRED with %d transparent container(s) and %d PLMN identities", len(conts), len(pl)), "missing-plmn"
		}
		for _, p := range pl {
			if !bytes.Equal(p.Field(0).Bytes(), a.plmn) {
				return fmt.Sprintf("a PLMN identity of HANDOVER REQUIRED (NGAP level or inside the transparent container) is %x, NG Setup announced %x", p.Field(0).Bytes(), a.plmn), "wrong-plmn"
			}
		}
	}
	if uses["gnb"] {
		ie, ok := ies[27]
		if !ok || ie.val.IsNil() {
			return "GlobalRANNodeID missing", "missing-gnb-id"
		}
		var bs []reflect.Value
		collectByType(ie.val, "BitString", &bs, 0)
		if len(bs) != 1 || bs[0].Field(1).Uint() != a.gnbBits {
			return fmt.Sprintf("gNB-ID bit length %v, argument %d", bs, a.gnbBits), "wrong-gnb-id"
		}
		gb := bs[0].Field(0).Bytes()
		nb := int(a.gnbBits+7) / 8
		for i := 0; i < int(a.gnbBits); i++ {
			if (gb[i/8]>>(7-uint(i%8)))&1 != (a.gnbID[i/8]>>(7-uint(i%8)))&1 {
				return fmt.Sprintf("gNB-ID bits %x differ from the argument %x (first %d bits)", gb, a.gnbID[:nb], a.gnbBits), "wrong-gnb-id"
			}
		}
		var pl []reflect.Value
		collectByType(root, "PLMNIdentity", &pl, 0)
		for _, p := range pl {
			if !bytes.Equal(p.Field(0).Bytes(), a.plmn) {
				return fmt.Sprintf("PLMN %x in NGSetupRequest, argument %x", p.Field(0).Bytes(), a.plmn), "wrong-plmn"
			}
		}
		if len(pl) < 2 {
			return "NGSetupRequest carries fewer than two PLMN identities (GlobalGNB-ID and BroadcastPLMNList)", "missing-plmn"
		}
		n, ok := ies[82]
		if !ok || n.val.IsNil() || n.val.Elem().Field(0).String() != a.gnbName {
			return fmt.Sprintf("RANNodeName differs from the argument %q", a.gnbName), "wrong-gnb-name"
		}
	}
	if uses["amfname"] {
		n, ok := ies[1]
		if !ok || n.val.IsNil() || n.val.Elem().Field(0).String() != a.gnbName {
			return fmt.Sprintf("AMFName differs from the argument %q", a.gnbName), "wrong-amf-name"
		}
	}
	if uses["ipv4"] {
		var trs []reflect.Value
		var errs []string
		transfersIn(root, &trs, &errs, 0)
		if len(errs) > 0 {
			return errs[0], "bad-transfer"
		}
		var tlas []reflect.Value
		for _, t := range trs {
			collectByType(t, "TransportLayerAddress", &tlas, 0)
		}
		want := net.ParseIP(a.ipv4).To4()
		found := false
		for _, t := range tlas {
			bs := t.Field(0)
			if bs.Field(1).Uint() == 32 && bytes.Equal(bs.Field(0).Bytes(), want) {
				found = true
			}
		}
		if !found {
			return fmt.Sprintf("GTP transport layer address %s not found in the %d transfer(s) of the encoding (%d addresses seen)", a.ipv4, len(trs), len(tlas)), "wrong-gtp-address"
		}
	}
	if sp.own {
		for _, m := range c13Mandatory[fmt.Sprintf("%d/%d", class, proc)] {
			ie, ok := ies[m[0]]
			if !ok {
				return fmt.Sprintf("mandatory IE id %d missing (IEs present: %v)", m[0], order), "missing-mandatory-ie"
			}
			if ie.crit != m[1] {
				return fmt.Sprintf("IE id %d has criticality %d, TS 38.413 says %d", m[0], ie.crit, m[1]), "wrong-criticality"
			}
		}
	}
	return "", ""
}
