package checks

import (
	"bytes"
	"fmt"
	"math/rand"
	"runtime/debug"

	"free5gclib/nas"
	"free5gclib/nas/nasMessage"
	"free5gclib/nas/nasTestpacket"
	"free5gclib/nas/nasType"
	"free5gclib/nas/security"
	"free5gclib/openapi/models"
	"tglib"

	"vh/fw"
	"vh/ref/sec"
)

// C06 — uplink NAS protection over message histories: a reference receiver (ref/sec) holding the same keys and a
// shadow COUNT kept by the monitor check every message of a history produced by the real protection entry point.
func init() {
	fw.Register(&fw.Check{
		ID:    "C06",
		Level: "exploration",
		Rule: "case = one history on one UE context: algorithm pair (NIA1|NIA2)x(NEA0|NEA1|NEA2) by index, random keys, 300 (quick) / 700 (thorough) operations, each = (plain NAS message from the emulator's constructors with " +
			"length-controlled containers, header type 1..4 or 'no security context', new-context flag); one history in eight starts 16 messages before the 2^24 wrap. After every call the monitor checks the SQN octet, the MAC under the shadow COUNT, " +
			"clear/ciphered payload as the header type says, exact recovery of the plain message, and the counter accessors. Case 0 checks the Count type against integer arithmetic (all 2^24+300 AddOne steps in thorough). " +
			"One history in 48 is BULK (300 messages of 20..60 KiB under NIA2 with NEA2 / NEA0: 12 MiB per process) for the long-horizon retention oracle; downlink messages and other UEs' refused attempts are interleaved. distinct = hash(keys, operation sequence); non-trivial = history with >= 2 protected messages",
		Assumptions: []string{
			"BEARER = 1 (3GPP access), DIRECTION = 0 (uplink); NIA0 is not a supported pair (the library has no NIA0 uplink path)",
			"plain messages are well-formed 5GMM messages accepted by the library's plain codec (EncodeNasPduWithSecurity decodes and re-encodes them)",
		},
		N: func(t string) int {
			if t == "thorough" {
				return 4800
			}
			return 480
		},
		Batch: 8,
		Init:  sec.SelfTest,
		Run:   runC06,
	})
}

// plainUplink builds a well-formed plain uplink 5GMM message of varied length with the emulator's own constructors.
// c06Bulk: the running case is a BULK history - every message a SECURITY MODE COMPLETE with a NAS message container of
// 20..60 KiB, several hundred of them (12 MiB and more of protected output from one process): storage that is handed out
// again only after megabytes shows in the long-horizon retention oracle.
var c06Bulk bool

func plainUplink(r *rand.Rand) ([]byte, string) {
	if c06Bulk {
		return nasTestpacket.GetSecurityModeComplete(blockyBytes(r, 20000+r.Intn(40000))), "SecurityModeComplete(bulk)"
	}
	if r.Intn(6) == 0 { // plain 5GSM messages (EPD 2e) handed to the protection entry point directly, and more 5GMM kinds
		psi := uint8(r.Intn(256))
		switch r.Intn(10) {
		case 0:
			return nasTestpacket.GetPduSessionEstablishmentRequest(psi), "5GSM:PduSessionEstablishmentRequest"
		case 1:
			return nasTestpacket.GetPduSessionReleaseRequest(psi), "5GSM:PduSessionReleaseRequest"
		case 2:
			return nasTestpacket.GetPduSessionReleaseComplete(psi), "5GSM:PduSessionReleaseComplete"
		case 3:
			return nasTestpacket.GetPduSessionModificationRequest(psi), "5GSM:PduSessionModificationRequest"
		case 4:
			return nasTestpacket.GetPduSessionModificationComplete(psi), "5GSM:PduSessionModificationComplete"
		case 5:
			return nasTestpacket.GetStatus5GSM(psi, uint8(r.Intn(256))), "5GSM:Status5GSM"
		case 6:
			return nasTestpacket.GetStatus5GMM(uint8(r.Intn(256))), "Status5GMM"
		case 7:
			return nasTestpacket.GetSecurityModeReject(uint8(r.Intn(256))), "SecurityModeReject"
		case 8:
			return nasTestpacket.GetConfigurationUpdateComplete(), "ConfigurationUpdateComplete"
		default:
			return nasTestpacket.GetAuthenticationFailure(uint8(r.Intn(256)), rbytes(r, 14)), "AuthenticationFailure"
		}
	}
	switch r.Intn(8) {
	case 0:
		n := r.Intn(120)
		if r.Intn(10) == 0 { // the NAS message container is an LV-E of up to 65535 octets: sizes around buffer sizes and powers of two
			n = pick(r, 255, 256, 2040+r.Intn(20), 4090+r.Intn(12), 8192, 16383, 16384, 32768, 65000, 300+r.Intn(60000))
		}
		cont := rbytes(r, n)
		if r.Intn(2) == 0 {
			cont = blockyBytes(r, n)
		}
		return nasTestpacket.GetSecurityModeComplete(cont), "SecurityModeComplete"
	case 1:
		return nasTestpacket.GetSecurityModeComplete(nil), "SecurityModeComplete(no container)"
	case 2:
		return nasTestpacket.GetRegistrationComplete(nil), "RegistrationComplete"
	case 3:
		return nasTestpacket.GetAuthenticationResponse(rbytes(r, 16), ""), "AuthenticationResponse"
	case 4:
		sn := models.Snssai{Sst: int32(r.Intn(256)), Sd: sdString(r)}
		dnn := "internet"
		if r.Intn(2) == 0 {
			dnn = string(bytes.Repeat([]byte{'a' + byte(r.Intn(26))}, 1+r.Intn(40)))
		}
		return nasTestpacket.GetUlNasTransport_PduSessionEstablishmentRequest(uint8(r.Intn(256)), nasMessage.ULNASTransportRequestTypeInitialRequest, dnn, &sn), "ULNASTransport(EstablishmentRequest)"
	case 5:
		return nasTestpacket.GetUlNasTransport_PduSessionReleaseRequest(uint8(r.Intn(256))), "ULNASTransport(ReleaseRequest)"
	case 6:
		return nasTestpacket.GetServiceRequest(uint8(r.Intn(8))), "ServiceRequest"
	default:
		suci := nasType.MobileIdentity5GS{Len: 13, Buffer: append([]byte{0x01}, rbytes(r, 12)...)}
		return nasTestpacket.GetDeregistrationRequest(nasMessage.AccessType3GPP, uint8(r.Intn(2)), uint8(r.Intn(7)), suci), "DeregistrationRequest"
	}
}

func c06Counter(c *fw.Case) (o fw.Outcome) {
	o.Tag("counter-arithmetic")
	o.Digest, o.Nontrivial = fw.HashS("counter", c.Tier), true
	var cnt security.Count
	steps := 70000
	if c.Thorough() {
		steps = 1<<24 + 300
	}
	start := uint32(0)
	if !c.Thorough() {
		start = 1<<24 - 35000
		cnt.Set(uint16(start>>8), uint8(start))
	}
	o.Input = fmt.Sprintf("security.Count: %d AddOne steps from %#x compared with integer arithmetic mod 2^24, then the Set/SetSQN/SetOverflow grid", steps, start)
	shadow := start
	for i := 0; i < steps; i++ {
		if cnt.Get() != shadow || cnt.SQN() != uint8(shadow) || cnt.Overflow() != uint16(shadow>>8) {
			o.Fail("counter", "after %d increments from %#x: Get=%#x SQN=%#x Overflow=%#x, expected COUNT %#x", i, start, cnt.Get(), cnt.SQN(), cnt.Overflow(), shadow)
			return
		}
		cnt.AddOne()
		shadow = (shadow + 1) & 0xffffff
	}
	o.Count("counter_steps", int64(steps))
	for ov := 0; ov < 1<<16; ov += 1 + (ov % 7) {
		for _, sq := range []uint8{0, 1, 127, 128, 255} {
			var x security.Count
			x.Set(uint16(ov), sq)
			want := uint32(ov)<<8 | uint32(sq)
			if x.Get() != want || x.SQN() != sq || x.Overflow() != uint16(ov) {
				o.Fail("counter-set", "Set(%#x,%#x): Get=%#x", ov, sq, x.Get())
				return
			}
			x.SetSQN(sq ^ 0xff)
			if x.Get() != (want&^0xff)|uint32(sq^0xff) {
				o.Fail("counter-set", "SetSQN after Set(%#x,%#x): Get=%#x", ov, sq, x.Get())
				return
			}
			x.SetOverflow(uint16(ov) ^ 0xffff)
			if x.Overflow() != uint16(ov)^0xffff || x.SQN() != sq^0xff {
				o.Fail("counter-set", "SetOverflow after Set(%#x,%#x): Get=%#x", ov, sq, x.Get())
				return
			}
			o.Count("counter_set_points", 1)
		}
	}
	return
}

func runC06(c *fw.Case) (o fw.Outcome) {
	if c.Idx == 0 {
		return c06Counter(c)
	}
	r := c.R
	iAlg := uint8(1 + c.Idx%2)
	cAlg := uint8((c.Idx / 2) % 3)
	c06Bulk = c.Idx%48 == 26
	if c06Bulk {
		iAlg, cAlg = 2, uint8(2*((c.Idx/48)%2)) // the AES-based pair or the null cipher: the library's SNOW 3G needs seconds per megabyte
	}
	ue := tglib.NewRanUeContext("imsi-"+digits(r, 15), int64(r.Intn(1000)), cAlg, iAlg)
	copy(ue.KnasEnc[:], rbytes(r, 16))
	copy(ue.KnasInt[:], rbytes(r, 16))
	steps := 300
	if c.Thorough() {
		steps = 700
	}
	shadow := uint32(0)
	if c.Idx%2 == 1 { // the downlink counter of the same UE is somewhere else: uplink protection must not depend on it
		ue.DLCount.Set(uint16(r.Intn(1<<16)), uint8(r.Intn(256)))
	}
	if c.Idx%8 == 7 { // start shortly before the 24-bit wrap
		ue.ULCount.Set(0xffff, 0xf0)
		shadow = 0xfffff0
		o.Tag("wrap-2^24")
		if steps > 60 && !c.Thorough() {
			steps = 60
		}
	}
	if c06Bulk {
		o.Tag("bulk-history")
	}
	profile := (c.Idx / 6) % 3
	if c.Idx%8 == 7 {
		profile = 2 // histories that start before the 2^24 wrap must reach it
	}
	o.Tag(fmt.Sprintf("NIA%d/NEA%d", iAlg, cAlg), fmt.Sprintf("reset-profile=%d", profile))
	hist := fw.Hash(ue.KnasEnc[:], ue.KnasInt[:], []byte{cAlg, iAlg})
	protected := 0
	var trace []string
	defer func() {
		if rec := recover(); rec != nil {
			st := string(debug.Stack())
			o.Verdict = fw.Held
			o.Fail("panic:"+fw.TopRepoFrame(st), "panic in step %d of the history: %v\n%s", len(trace), rec, clipS(st, 1200))
		}
		o.Digest = hist
		o.Nontrivial = protected >= 2
		n := len(trace)
		if n > 12 {
			trace = append(trace[:6], append([]string{fmt.Sprintf("... %d more ...", n-12)}, trace[n-6:]...)...)
		}
		o.Input = fmt.Sprintf("NIA%d/NEA%d kint=%x kenc=%x history(%d ops): %v", iAlg, cAlg, ue.KnasInt, ue.KnasEnc, n, trace)
	}()
	dlAmf := uint32(0)
	for s := 0; s < steps; s++ {
		fw.Beat()
		// Downlink traffic on the same UE context in between (one history in two): whatever the UE receives - plain,
		// protected with any header type (3/4: a Security Mode Command), a wrong MAC - the uplink COUNT stays where it is;
		// only SENDING with newSecurityContext resets it.
		if c.Idx%4 >= 2 && s > 0 && r.Intn(5) == 0 {
			dplain, dkind := plainDownlink(r)
			dsht := uint8(pick(r, 0, 1, 2, 2, 2, 3, 3, 4))
			wire := dplain
			if dsht != 0 {
				if dsht >= 3 {
					dlAmf = 0
				}
				var perr error
				wire, perr = sec.ProtectNAS(iAlg, cAlg, ue.KnasInt[:], ue.KnasEnc[:], dlAmf, 1, 1, dsht, dsht == 2 || dsht == 4, dplain)
				if perr != nil {
					o.Inconcl("reference protect: %v", perr)
					return
				}
				dlAmf = (dlAmf + 1) & 0xffffff
				if r.Intn(4) == 0 && len(wire) > 6 {
					wire[2+r.Intn(4)] ^= byte(1 + r.Intn(255)) // a message that fails the integrity check
					dkind += "(bad MAC)"
				}
			}
			func() {
				defer func() { recover() }() // what the decoder does with the message is C10's business
				tglib.NASDecode(ue, dsht, append([]byte(nil), wire...))
			}()
			o.Count("downlink_messages_interleaved", 1)
			trace = append(trace, fmt.Sprintf("<-%s sht=%d", dkind, dsht))
			hist = fw.Hash([]byte{byte(hist), byte(hist >> 8), byte(hist >> 16), byte(hist >> 24), 0xd1, dsht}, wire)
			if ue.ULCount.Get() != shadow {
				o.Fail("ul-count-changed-by-downlink", "step %d: receiving a downlink %s (header type %d) moved the uplink COUNT from %#x to %#x; the next uplink message would reuse a COUNT under the same key", s, dkind, dsht, shadow, ue.ULCount.Get())
				return
			}
		}
		// Somebody else's FAILED attempt in between (one history in three): another UE context whose selected algorithm the
		// library does not implement (128-NIA3 / 128-NEA3, reserved identities) tries to send and is refused. Whatever that
		// call returns, this context's next message is still its n-th.
		if c.Idx%3 == 1 && s > 0 && r.Intn(6) == 0 {
			other := tglib.NewRanUeContext("imsi-"+digits(r, 15), int64(r.Intn(1000)), uint8(pick(r, 0, 1, 2, 3, 3, 5, 7)), uint8(pick(r, 3, 3, 4, 7, 1, 2)))
			if other.IntegrityAlg <= 2 {
				other.CipheringAlg = uint8(pick(r, 3, 3, 5, 6, 7))
			}
			copy(other.KnasEnc[:], rbytes(r, 16))
			copy(other.KnasInt[:], rbytes(r, 16))
			fplain, _ := plainUplink(r)
			var ferr error
			func() {
				defer func() {
					if rec := recover(); rec != nil {
						ferr = fmt.Errorf("panic: %v", rec)
					}
				}()
				if r.Intn(2) == 0 {
					m := nas.NewMessage()
					if m.PlainNasDecode(&fplain) == nil {
						m.SecurityHeader = nas.SecurityHeader{ProtocolDiscriminator: 0x7e, SecurityHeaderType: 2}
						_, ferr = tglib.NASEncode(other, m, true, false)
					}
				} else {
					_, ferr = tglib.EncodeNasPduWithSecurity(other, fplain, 2, true, false)
				}
			}()
			o.Count("foreign_failed_attempts", 1)
			if ferr != nil {
				o.Count("foreign_attempts_refused", 1)
			}
			trace = append(trace, fmt.Sprintf("(other UE NIA%d/NEA%d: %v)", other.IntegrityAlg, other.CipheringAlg, ferr != nil))
		}
		plain, kind := plainUplink(r)
		// reset profile (by case index): frequent new contexts, rare ones (the 8-bit SQN wraps several times in between),
		// or none at all (the only way to walk across the 2^24 wrap)
		sht := uint8(pick(r, 1, 2, 2, 2, 2, 2))
		switch profile {
		case 0:
			if r.Intn(4) == 0 {
				sht = uint8(3 + r.Intn(2))
			}
		case 1:
			if r.Intn(150) == 0 {
				sht = uint8(3 + r.Intn(2))
			}
		}
		withCtx := r.Intn(12) != 0
		newCtx := sht >= 3
		if profile == 0 && r.Intn(40) == 0 {
			newCtx = !newCtx
		}
		if s == 0 && shadow == 0 {
			sht, newCtx, withCtx = 4, true, true // the first protected message of a context, as Security Mode Complete
		}
		hist = fw.Hash([]byte{byte(hist), byte(hist >> 8), byte(hist >> 16), byte(hist >> 24), sht, b2u(withCtx), b2u(newCtx)}, plain)
		trace = append(trace, fmt.Sprintf("%s/%d sht=%d ctx=%v new=%v", kind, len(plain), sht, withCtx, newCtx))
		var out []byte
		var err error
		if r.Intn(4) == 0 { // the lower-level entry point
			m := nas.NewMessage()
			pl := append([]byte(nil), plain...)
			if e := m.PlainNasDecode(&pl); e != nil {
				o.Inconcl("plain message %s not accepted by the plain decoder: %v", kind, e)
				return
			}
			m.SecurityHeader = nas.SecurityHeader{ProtocolDiscriminator: nasMessage.Epd5GSMobilityManagementMessage, SecurityHeaderType: sht}
			out, err = tglib.NASEncode(ue, m, withCtx, newCtx)
		} else {
			pview, pdmg := guarded(r, plain)
			out, err = tglib.EncodeNasPduWithSecurity(ue, pview, sht, withCtx, newCtx)
			if d := pdmg(false); d != "" {
				o.Fail("plain-buffer-written", "EncodeNasPduWithSecurity step %d (%s): %s", s, kind, d)
				return
			}
		}
		if err != nil {
			o.Fail("protect-error", "step %d (%s, header type %d): %v", s, kind, sht, err)
			return
		}
		o.Count("messages", 1)
		if m := retainCheck("nas-protect", out, kind); m != "" {
			o.Fail("retained-result-changed", "%s", m)
			return
		}
		if !withCtx {
			if !bytes.Equal(out, plain) {
				o.Fail("plain-altered", "step %d: without a security context the message was changed: %x -> %x", s, clip(plain, 40), clip(out, 40))
				return
			}
			if ue.ULCount.Get() != shadow {
				o.Fail("count-moved-without-context", "step %d: COUNT %#x after an unprotected message, expected %#x", s, ue.ULCount.Get(), shadow)
				return
			}
			continue
		}
		protected++
		if newCtx {
			shadow = 0
			dlAmf = 0
			o.Count("context_resets", 1)
		}
		if len(out) < 7 || out[0] != 0x7e || out[1] != sht {
			o.Fail("header", "step %d: protected message starts with %x, expected 7e %02x", s, clip(out, 7), sht)
			return
		}
		if out[6] != uint8(shadow) {
			o.Fail("sqn", "step %d: sequence number octet %#x, message number %d of the context must carry COUNT %#x", s, out[6], protected, shadow)
			return
		}
		ciphered := sht == 2 || sht == 4
		got, macOK, uerr := sec.UnprotectNAS(iAlg, cAlg, ue.KnasInt[:], ue.KnasEnc[:], shadow, 1, 0, ciphered, out)
		if uerr != nil {
			o.Fail("receiver-error", "step %d: reference receiver: %v", s, uerr)
			return
		}
		if !macOK {
			// tell apart: MAC computed over something else vs. wrong COUNT
			key := "mac"
			for _, alt := range []uint32{(shadow + 1) & 0xffffff, (shadow - 1) & 0xffffff} {
				if _, ok2, _ := sec.UnprotectNAS(iAlg, cAlg, ue.KnasInt[:], ue.KnasEnc[:], alt, 1, 0, ciphered, out); ok2 {
					key = "mac-count-off-by-one"
				}
			}
			if _, ok2, _ := sec.UnprotectNAS(iAlg, cAlg, ue.KnasInt[:], ue.KnasEnc[:], shadow, 1, 1, ciphered, out); ok2 {
				key = "mac-wrong-direction"
			}
			o.Fail(key, "step %d (%s, header type %d, COUNT %#x): MAC %x does not verify under K_NASint with BEARER=1 DIRECTION=uplink", s, kind, sht, shadow, out[2:6])
			return
		}
		if !ciphered && !bytes.Equal(out[7:], plain) {
			o.Fail("ciphered-under-integrity-only", "step %d: header type %d is integrity protected only, but the payload is not the plain message (NEA%d): sent %x, plain %x", s, sht, cAlg, clip(out[7:], 24), clip(plain, 24))
			return
		}
		if ciphered && cAlg != 0 && bytes.Equal(out[7:], plain) && len(plain) > 4 {
			o.Fail("clear-under-ciphered", "step %d: header type %d says ciphered but the payload is in clear (NEA%d)", s, sht, cAlg)
			return
		}
		if !bytes.Equal(got, plain) {
			o.Fail("not-recovered", "step %d (%s, header type %d, NEA%d): the receiver recovers %x, submitted %x", s, kind, sht, cAlg, clip(got, 32), clip(plain, 32))
			return
		}
		if shadow&0xff == 0xff {
			o.Count("sqn_wraps", 1)
		}
		if shadow == 0xffffff {
			o.Count("count_wraps_2^24", 1)
		}
		shadow = (shadow + 1) & 0xffffff
		if ue.ULCount.Get() != shadow {
			o.Fail("count-after", "step %d: uplink COUNT is %#x after the message, expected %#x", s, ue.ULCount.Get(), shadow)
			return
		}
		if newCtx && ue.DLCount.Get() != 0 {
			o.Fail("dl-not-reset", "step %d: new security context but downlink COUNT is %#x", s, ue.DLCount.Get())
			return
		}
		o.Count("protected_messages_verified", 1)
		o.Max("highest_count_seen", int64(shadow))
		o.Max("longest_plain_message_octets", int64(len(plain)))
	}
	return
}

func b2u(b bool) byte {
	if b {
		return 1
	}
	return 0
}
