package checks

import (
	"bytes"
	"fmt"
	"math/rand"
	"net"
	"runtime/debug"
	"strings"

	"free5gclib/aper"
	"free5gclib/nas/nasConvert"
	"free5gclib/ngap/ngapConvert"
	"free5gclib/ngap/ngapType"
	"free5gclib/openapi/models"
	"free5gclib/util_3gpp"

	"vh/fw"
)

// C17 — identifier conversion helpers against encodings written out from TS 24.501 (PLMN, S-NSSAI), TS 23.003 (AMF
// identifier: region 8 bits, set 10 bits, pointer 6 bits), TS 38.414 (transport layer address: 32 / 128 / 160 bits,
// IPv4 first) and TS 24.008 10.5.6.3 (protocol configuration options), plus inverse round trips where an inverse exists.
func init() {
	fw.Register(&fw.Check{
		ID:    "C17",
		Level: "exploration",
		Rule: "idx%6: 0 = a block of PLMNs (all 1.1M in thorough) through PlmnIDToNas; 1 = S-NSSAI: all SST 0..255 x SD {absent, 000000, FFFFFF, random, upper/lower case}; 2 = a block of AMF ids (all 2^24 in thorough, 2^16 in quick); " +
			"3 = IPv4 / IPv6 / dual-stack addresses through IPAddressToNgap and back; 4 = protocol configuration option lists of 0..40 units with 0..255 octets each through Marshal/UnMarshal; 5 = DNN round trips. " +
			"IPv6 in every RFC 4291 spelling (form 3 up to 45 characters), IPv4-mapped forms, PCO lists built with the Add... helpers and then edited by their owner, exact PCO totals and up to 21844 tiny units. distinct = hash(kind, block); all non-trivial",
		Assumptions: []string{"only the five families named in the property have inverses in this copy; PLMN, S-NSSAI and AMF id are checked one way"},
		N: func(t string) int {
			if t == "thorough" {
				return 6 * 1024
			}
			return 6 * 64
		},
		Batch:      96,
		Run:        runC17,
		Exhaustive: func(string) bool { return false },
	})
}

func runC17(c *fw.Case) (o fw.Outcome) {
	r := c.R
	kind := c.Idx % 6
	blk := c.Idx / 6
	nblk := 64
	if c.Thorough() {
		nblk = 1024
	}
	o.Digest, o.Nontrivial = fw.HashS("c17", fmt.Sprint(kind), fmt.Sprint(blk)), true
	defer func() {
		if rec := recover(); rec != nil {
			st := string(debug.Stack())
			o.Verdict = fw.Held
			o.Fail("panic:"+fw.TopRepoFrame(st), "panic on a valid input (%s): %v\n%s", o.Input, rec, clipS(st, 1000))
		}
	}()
	switch kind {
	case 0:
		o.Tag("plmn")
		// block blk of the 1 100 000 PLMNs (quick: every 16th block)
		total := 1100000
		per := (total + nblk - 1) / nblk
		if !c.Thorough() {
			per = 1100
			o.Input = fmt.Sprintf("PLMN block %d (stride sample)", blk)
		}
		start := blk * ((total + nblk - 1) / nblk)
		o.Input = fmt.Sprintf("PLMNs %d..%d of the enumeration MCC x (MNC2 | MNC3)", start, start+per-1)
		for i := start; i < start+per && i < total; i++ {
			var mcc, mnc string
			if i < 100000 {
				mcc, mnc = fmt.Sprintf("%03d", i/100), fmt.Sprintf("%02d", i%100)
			} else {
				j := i - 100000
				mcc, mnc = fmt.Sprintf("%03d", j/1000), fmt.Sprintf("%03d", j%1000)
			}
			o.Input = "PlmnIDToNas " + mcc + "/" + mnc
			got := nasConvert.PlmnIDToNas(models.PlmnId{Mcc: mcc, Mnc: mnc})
			if m := retainCheck("plmn", got, o.Input); m != "" {
				o.Fail("retained-result-changed:plmn", "%s", m)
				return
			}
			if want := refPLMN(mcc, mnc); !bytes.Equal(got, want) {
				o.Fail("plmn", "PlmnIDToNas(%s,%s) = %x, TS 24.501 9.11.3.4 gives %x", mcc, mnc, got, want)
				return
			}
			o.Count("plmns", 1)
		}
	case 1:
		o.Tag("snssai")
		for sst := 0; sst < 256; sst++ {
			for _, sd := range []string{"", "000000", "ffffff", "FFFFFF", hexs(rbytes(r, 3)), strings.ToUpper(hexs(rbytes(r, 3))), sdString(r), mixCase(r, pick(r, "abcdef", "fedcba", "aabbcc", "dededf"))} {
				o.Input = fmt.Sprintf("SnssaiToNas sst=%d sd=%q", sst, sd)
				got := nasConvert.SnssaiToNas(models.Snssai{Sst: int32(sst), Sd: sd})
				if m := retainCheck("snssai", got, o.Input); m != "" {
					o.Fail("retained-result-changed:snssai", "%s", m)
					return
				}
				want := []byte{1, byte(sst)}
				if sd != "" {
					want = []byte{4, byte(sst)}
					for i := 0; i < 3; i++ {
						var b byte
						fmt.Sscanf(sd[2*i:2*i+2], "%02x", &b)
						want = append(want, b)
					}
				}
				if !bytes.Equal(got, want) {
					o.Fail("snssai", "SnssaiToNas(sst %d, sd %q) = %x, TS 24.501 9.11.2.8 gives %x", sst, sd, got, want)
					return
				}
				o.Count("snssais", 1)
			}
		}
	case 2:
		o.Tag("amf-id")
		total := 1 << 24
		if !c.Thorough() {
			total = 1 << 16
		}
		per := total / nblk
		for i := blk * per; i < (blk+1)*per; i++ {
			v := uint32(i)
			if !c.Thorough() {
				v = uint32(i)*257 + uint32(r.Intn(256)) // spread over the 24-bit space
				v &= 0xffffff
			}
			s := fmt.Sprintf("%06x", v)
			switch i % 4 { // TS 29.571 AmfId: ^[A-Fa-f0-9]{6}$ - every character may have either case
			case 0:
				s = strings.ToUpper(s)
			case 1:
				s = mixCase(r, s)
			case 2:
				if c.Thorough() {
					s = mixCase(r, s) // the enumeration keeps every value
				} else if i%8 == 2 { // letters only, case per character
					v = v&0x888888 | 0x222222 | uint32(r.Intn(1<<24))&0x555555
					for sh := uint(0); sh < 24; sh += 4 {
						if (v>>sh)&0xf < 10 {
							v |= 0xa << sh
						}
					}
					s = mixCase(r, fmt.Sprintf("%06x", v))
				}
			}
			o.Input = "AmfIdToNas " + s
			reg, set, ptr := nasConvert.AmfIdToNas(s)
			wr, ws, wp := uint8(v>>16), uint16(v>>6)&0x3ff, uint8(v&0x3f)
			if reg != wr || set != ws || ptr != wp {
				o.Fail("amf-id", "AmfIdToNas(%s) = region %#x set %#x pointer %#x, TS 23.003 2.10.1 gives %#x %#x %#x", s, reg, set, ptr, wr, ws, wp)
				return
			}
			o.Count("amf_ids", 1)
		}
	case 3:
		o.Tag("ip")
		for i := 0; i < 300; i++ {
			var v4, v6 string
			mode := i % 3
			if mode != 1 {
				v4 = pick(r, "0.0.0.0", "255.255.255.255", "10.0.0.1", "127.0.0.1", "192.168.61.3", net.IP(rbytes(r, 4)).String(), ipv4Class(r).String(), ipv4Class(r).String())
			}
			if mode != 0 {
				ip6 := ipv6Class(r)
				switch r.Intn(9) {
				case 0:
					ip6 = net.ParseIP("::")
				case 1:
					ip6 = net.ParseIP("::1")
				case 2:
					ip6 = net.ParseIP("2001:db8:cafe::1")
				case 3: // IPv4-mapped: still a 128-bit address (TS 38.414: the family is the bit-string length, not the value)
					ip6 = net.IP(append([]byte{0, 0, 0, 0, 0, 0, 0, 0, 0, 0, 0xff, 0xff}, rbytes(r, 4)...))
				case 4: // IPv4-compatible and NAT64 prefixes
					ip6 = net.IP(append(pick(r, []byte{0, 0, 0, 0, 0, 0, 0, 0, 0, 0, 0, 0}, []byte{0, 0x64, 0xff, 0x9b, 0, 0, 0, 0, 0, 0, 0, 0}), rbytes(r, 4)...))
				}
				if k := r.Intn(8); k == 0 { // one zero group at an edge, the other groups non-zero: see spell6
					ip6 = net.IP(rbytes(r, 16))
					for i := range ip6 {
						ip6[i] |= 1
					}
					ip6[0], ip6[1] = 0, 0
				} else if k == 1 {
					ip6 = net.IP(rbytes(r, 16))
					for i := range ip6 {
						ip6[i] |= 1
					}
					ip6[14], ip6[15] = 0, 0
				}
				v6 = spell6(r, ip6)
				if !net.ParseIP(v6).Equal(ip6) {
					o.Inconcl("harness: spelling %q is not read back as %x", v6, []byte(ip6))
					return
				}
				if len(v6) > 39 {
					o.Count("ipv6_literals_longer_than_39_characters", 1)
				}
			}
			if v4 != "" && v6 != "" && r.Intn(4) == 0 {
				// dual stack whose IPv6 half is the IPv4-MAPPED form of the very same host, in the spellings net.IP prints and
				// reads (the dotted one is what IPAddressToString returns for such an address): two arguments that may be
				// equal as text are still two addresses, 160 bits on the wire
				ip := net.ParseIP(v4).To4()
				v6 = pick(r, v4, "::ffff:"+v4, fmt.Sprintf("::ffff:%02x%02x:%02x%02x", ip[0], ip[1], ip[2], ip[3]))
				o.Count("dual_stack_with_mapped_form_of_the_same_host", 1)
			}
			if v4 != "" && v6 == "" && r.Intn(5) == 0 { // IPv4 written in an IPv4-mapped notation is still that IPv4 address
				ip := net.ParseIP(v4).To4()
				v4 = pick(r, "::ffff:"+v4, fmt.Sprintf("::ffff:%02x%02x:%02x%02x", ip[0], ip[1], ip[2], ip[3]))
				o.Count("ipv4_in_mapped_notation", 1)
			}
			if !c17Pair(&o, v4, v6) {
				return
			}
			// neighbouring inputs in the same process: one argument held while the other changes, and pairs whose
			// textual concatenation coincides with the previous pair's (a digit moved across the boundary) - results
			// must depend on the two arguments only, never on an earlier call
			for _, nb := range c17Neighbours(r, v4, v6) {
				o.Count("neighbouring_address_pairs", 1)
				if !c17Pair(&o, nb[0], nb[1]) {
					return
				}
			}
			if !c17Bits(&o, r) {
				return
			}
		}
	case 4:
		o.Tag("pco")
		for i := 0; i < 40; i++ {
			if !c17PcoHelpers(&o, r) {
				return
			}
			p := nasConvert.NewProtocolConfigurationOptions()
			n := r.Intn(41)
			if i == 0 {
				n = 0
			}
			want := []byte{0x80}
			var aimedLens []int
			if i >= 1 && i <= 3 { // lists whose encoding has an exact total length: up to the 65535 octets an extended PCO IE can carry
				T := []int{255, 256, 257, 2047, 2048, 4095, 4096, 32767, 32768, 65533, 65534, 65535, 65535, 65535}[(blk*3+i)%14]
				rem := T - 1
				for rem > 3+255+3+255 {
					l := pick(r, 255, 255, 255, 200+r.Intn(56))
					aimedLens = append(aimedLens, l)
					rem -= 3 + l
				}
				if rem-3 <= 255 {
					aimedLens = append(aimedLens, rem-3)
				} else {
					l1 := (rem - 6) / 2
					aimedLens = append(aimedLens, l1, rem-6-l1)
				}
				if r.Intn(2) == 0 && aimedLens[len(aimedLens)-1] >= 1 { // ... ending in an EMPTY unit
					aimedLens[len(aimedLens)-1] -= 0
				}
				n = len(aimedLens)
				o.Tag(fmt.Sprintf("pco-total=%d", T))
			}
			if i == 4 { // many TINY units: an extended PCO holds up to 21844 empty ones
				cnt := []int{1000, 4095, 4096, 4097, 8192, 12000, 16384, 21844}[blk%8]
				aimedLens = make([]int, cnt)
				for u := range aimedLens {
					if 3*cnt+u < 60000 && r.Intn(4) == 0 {
						aimedLens[u] = r.Intn(3)
					}
				}
				n = cnt
				o.Tag(fmt.Sprintf("pco-units=%d", cnt))
			}
			for u := 0; u < n; u++ {
				l := pick(r, 0, 1, 2, 4, 16, 255, r.Intn(256))
				if aimedLens != nil {
					l = aimedLens[u]
				}
				id := uint16(r.Intn(1 << 16))
				cont := rbytes(r, l)
				if r.Intn(2) == 0 { // the identifiers TS 24.008 10.5.6.3 assigns (PPP protocols and additional parameters)
					id = pick(r, uint16(0x8021), 0xc021, 0xc023, 0xc223, 0x0001, 0x0002, 0x0003, 0x0005, 0x000a, 0x000c, 0x000d, 0x0010, 0x0011, 0x0023, 0xff00, 0xffff)
					if l >= 4 && r.Intn(2) == 0 { // contents shaped like a PPP packet: code, identifier, 16-bit length (smaller than, equal to, larger than the unit)
						inner := pick(r, l, l-1, 4, l/2, l+1, 0, 0xffff)
						cont[0], cont[1], cont[2], cont[3] = byte(1+r.Intn(4)), byte(r.Intn(256)), byte(inner>>8), byte(inner)
					}
				}
				unit := &nasConvert.ProtocolOrContainerUnit{ProtocolOrContainerID: id, LengthOfContents: uint8(l), Contents: cont}
				p.ProtocolOrContainerList = append(p.ProtocolOrContainerList, unit)
				want = append(want, byte(unit.ProtocolOrContainerID>>8), byte(unit.ProtocolOrContainerID), byte(l))
				want = append(want, unit.Contents...)
			}
			o.Input = fmt.Sprintf("PCO with %d units", n)
			got := p.Marshal()
			if m := retainCheck("pco", got, o.Input); m != "" {
				o.Fail("retained-result-changed:pco", "%s", m)
				return
			}
			if !bytes.Equal(got, want) {
				o.Fail("pco-marshal", "PCO Marshal of %d units differs from TS 24.008 10.5.6.3 at octet %d", n, firstDiff(got, want))
				return
			}
			back := nasConvert.NewProtocolConfigurationOptions()
			if err := back.UnMarshal(got); err != nil {
				o.Fail("pco-unmarshal", "UnMarshal(Marshal(p)) fails: %v (%d units)", err, n)
				return
			}
			if len(back.ProtocolOrContainerList) != n {
				o.Fail("pco-round-trip", "UnMarshal(Marshal(p)) has %d units, p has %d", len(back.ProtocolOrContainerList), n)
				return
			}
			for u := range back.ProtocolOrContainerList {
				a, b := back.ProtocolOrContainerList[u], p.ProtocolOrContainerList[u]
				if a.ProtocolOrContainerID != b.ProtocolOrContainerID || a.LengthOfContents != b.LengthOfContents || !bytes.Equal(a.Contents, b.Contents) {
					o.Fail("pco-round-trip", "unit %d of %d differs after the round trip: id %#x/%#x len %d/%d", u, n, a.ProtocolOrContainerID, b.ProtocolOrContainerID, a.LengthOfContents, b.LengthOfContents)
					return
				}
			}
			o.Count("pco_lists", 1)
			o.Max("largest_pco_units", int64(n))
		}
	case 5:
		o.Tag("dnn")
		for i := 0; i < 300; i++ {
			l := pick(r, 1, 8, 63, 100, 1+r.Intn(100))
			if i < 256 {
				l = (i + blk) % 256 // every length a one-octet length field can announce, over the blocks
			}
			name := make([]byte, l)
			alphabet := pick(r, "abcdefghijklmnopqrstuvwxyz0123456789-", "abcdefghijklmnopqrstuvwxyz0123456789-.", "ABCDEFGHIJKLMNOPQRSTUVWXYZ0123456789-.", "0123456789", "..", "internet", "\x00\x01\x08\x3f\x40\xff.")
			for k := range name {
				name[k] = alphabet[r.Intn(len(alphabet))]
			}
			switch r.Intn(6) {
			case 0: // operator-identifier form of TS 23.003 9.1
				suffix := fmt.Sprintf(".mnc%s.mcc%s.gprs", digits(r, 3), digits(r, 3))
				if l > len(suffix) {
					copy(name[l-len(suffix):], suffix)
				}
			case 1: // a name whose first octets look like label lengths
				if l > 2 {
					name[0], name[1] = byte(l-1), byte(r.Intn(64))
				}
			}
			d := util_3gpp.Dnn(name)
			o.Input = fmt.Sprintf("Dnn %q", name)
			b, err := d.MarshalBinary()
			if m := retainCheck("dnn", b, o.Input); m != "" {
				o.Fail("retained-result-changed:dnn", "%s", m)
				return
			}
			if err != nil || len(b) != l+1 || int(b[0]) != l || !bytes.Equal(b[1:], name) {
				o.Fail("dnn-marshal", "Dnn(%q).MarshalBinary = %x (err %v): expected one length octet and the label", name, b, err)
				return
			}
			var back util_3gpp.Dnn
			if err := back.UnmarshalBinary(b); err != nil || !bytes.Equal(back, name) {
				o.Fail("dnn-round-trip", "Dnn round trip of %q gives %q (err %v)", name, back, err)
				return
			}
			o.Count("dnns", 1)
		}
	}
	return
}

// c17Pair checks one (IPv4, IPv6) text pair through IPAddressToNgap and back.
// c17PcoHelpers: a list put together with the Add... helpers (the way the emulator's session request and an SMF's answer
// are built) carries the container identifiers TS 24.008 10.5.6.3 assigns, with empty contents for the requests and the
// address / MTU octets for the answers. Afterwards the owner of the list edits its units in place (an SMF answering a
// request does exactly that): the NEXT list built with the helpers must not know.
func c17PcoHelpers(o *fw.Outcome, r *rand.Rand) bool {
	p := nasConvert.NewProtocolConfigurationOptions()
	want := []byte{0x80}
	var desc []string
	for k, n := 0, 1+r.Intn(6); k < n; k++ {
		switch r.Intn(6) {
		case 0:
			p.AddDNSServerIPv4AddressRequest()
			want = append(want, 0x00, 0x0d, 0x00)
			desc = append(desc, "dns4?")
		case 1:
			p.AddDNSServerIPv6AddressRequest()
			want = append(want, 0x00, 0x03, 0x00)
			desc = append(desc, "dns6?")
		case 2:
			p.AddIPAddressAllocationViaNASSignallingUL()
			want = append(want, 0x00, 0x0a, 0x00)
			desc = append(desc, "alloc-via-nas")
		case 3:
			ip := net.IP(rbytes(r, 4))
			if err := p.AddDNSServerIPv4Address(ip); err != nil {
				o.Fail("pco-helper", "AddDNSServerIPv4Address(%s): %v", ip, err)
				return false
			}
			want = append(append(want, 0x00, 0x0d, 0x04), ip...)
			desc = append(desc, "dns4="+ip.String())
		case 4:
			ip := net.IP(rbytes(r, 16))
			if err := p.AddDNSServerIPv6Address(ip); err != nil {
				o.Fail("pco-helper", "AddDNSServerIPv6Address(%s): %v", ip, err)
				return false
			}
			want = append(append(want, 0x00, 0x03, 0x10), ip...)
			desc = append(desc, "dns6="+ip.String())
		case 5:
			mtu := pick(r, uint16(0), 1, 1280, 1500, 9000, 0xffff, uint16(r.Intn(1<<16)))
			if err := p.AddIPv4LinkMTU(mtu); err != nil {
				o.Fail("pco-helper", "AddIPv4LinkMTU(%d): %v", mtu, err)
				return false
			}
			want = append(want, 0x00, 0x10, 0x02, byte(mtu>>8), byte(mtu))
			desc = append(desc, fmt.Sprintf("mtu=%d", mtu))
		}
	}
	o.Input = "PCO built with helpers: " + strings.Join(desc, " ")
	got := p.Marshal()
	if !bytes.Equal(got, want) {
		o.Fail("pco-helper", "%s encodes as %x, TS 24.008 10.5.6.3 gives %x", o.Input, got, want)
		return false
	}
	for _, u := range p.ProtocolOrContainerList { // the owner answers / rewrites its units in place
		if u == nil {
			continue
		}
		u.Contents = rbytes(r, pick(r, 4, 16, 2, 1+r.Intn(20)))
		u.LengthOfContents = uint8(len(u.Contents))
		if r.Intn(3) == 0 {
			u.ProtocolOrContainerID = uint16(r.Intn(1 << 16))
		}
	}
	o.Count("pco_lists_built_with_helpers", 1)
	return true
}

// spell6: the textual forms RFC 4291 2.2 gives an IPv6 address - what net.IP prints, all eight groups written out (lower
// or upper case, with or without leading zeros) and form 3, whose last 32 bits are dotted decimal (up to 45 characters).
func spell6(r *rand.Rand, ip net.IP) string {
	ip = ip.To16()
	g := func(i int, f string) string { return fmt.Sprintf(f, uint16(ip[2*i])<<8|uint16(ip[2*i+1])) }
	join := func(n int, f string) string {
		var p []string
		for i := 0; i < n; i++ {
			p = append(p, g(i, f))
		}
		return strings.Join(p, ":")
	}
	dotted := fmt.Sprintf("%d.%d.%d.%d", ip[12], ip[13], ip[14], ip[15])
	// "::" standing for exactly ONE zero group, the first or the last (legal to read, never printed by a formatter)
	if ip[0] == 0 && ip[1] == 0 && r.Intn(2) == 0 {
		var p []string
		for i := 1; i < 8; i++ {
			p = append(p, g(i, "%x"))
		}
		if s := "::" + strings.Join(p, ":"); net.ParseIP(s).Equal(ip) {
			return s
		}
	}
	if ip[14] == 0 && ip[15] == 0 && r.Intn(2) == 0 {
		if s := join(7, "%x") + "::"; net.ParseIP(s).Equal(ip) {
			return s
		}
	}
	switch r.Intn(8) {
	case 0:
		return join(8, "%04x")
	case 1:
		return join(8, "%04X")
	case 2:
		return join(8, "%x")
	case 3:
		return join(6, "%04x") + ":" + dotted
	case 4:
		return join(6, "%x") + ":" + dotted
	case 5:
		return join(6, "%04X") + ":" + dotted
	}
	return ip.String()
}

func c17Pair(o *fw.Outcome, v4, v6 string) bool {
	o.Input = fmt.Sprintf("IPAddressToNgap(%q,%q)", v4, v6)
	tla := ngapConvert.IPAddressToNgap(v4, v6)
	if m := retainCheck("tla", tla.Value.Bytes, o.Input); m != "" {
		o.Fail("retained-result-changed:ip", "%s", m)
		return false
	}
	var want []byte
	if v4 != "" {
		want = append(want, net.ParseIP(v4).To4()...)
	}
	if v6 != "" {
		want = append(want, net.ParseIP(v6).To16()...)
	}
	if int(tla.Value.BitLength) != 8*len(want) || !bytes.Equal(tla.Value.Bytes, want) {
		o.Fail("ip-to-ngap", "IPAddressToNgap(%q,%q) = %d bits %x, TS 38.414 gives %d bits %x", v4, v6, tla.Value.BitLength, tla.Value.Bytes, 8*len(want), want)
		return false
	}
	g4, g6 := ngapConvert.IPAddressToString(tla)
	same := func(a, b string) bool { // textual forms may differ (leading zeros in a group), the address may not
		if a == "" || b == "" {
			return a == b
		}
		return net.ParseIP(a).Equal(net.ParseIP(b))
	}
	if !same(g4, v4) || !same(g6, v6) {
		o.Fail("ip-round-trip", "IPAddressToString(IPAddressToNgap(%q,%q)) = (%q,%q)", v4, v6, g4, g6)
		return false
	}
	o.Count("addresses", 1)
	o.Count(fmt.Sprintf("addresses_%dbit", tla.Value.BitLength), 1)
	return true
}

// c17Bits: the inverse direction first. Any 32 / 128 / 160-bit string is an address (pair); the text returned must put an
// IPv4 address in the first slot exactly for 32 and 160 bits and an IPv6 address in the second exactly for 128 and 160
// bits, and converting the text back must give the same bits.
func c17Bits(o *fw.Outcome, r *rand.Rand) bool {
	n := pick(r, 4, 16, 20)
	b := rbytes(r, n)
	if n >= 16 {
		v6 := b[n-16:]
		switch r.Intn(6) {
		case 0:
			copy(v6, []byte{0, 0, 0, 0, 0, 0, 0, 0, 0, 0, 0xff, 0xff})
		case 1:
			copy(v6, make([]byte, 12))
		case 2:
			copy(v6, make([]byte, 16))
		case 3:
			copy(v6, []byte{0, 0x64, 0xff, 0x9b, 0, 0, 0, 0, 0, 0, 0, 0})
		}
	}
	var tla ngapType.TransportLayerAddress
	tla.Value = aper.BitString{Bytes: append([]byte(nil), b...), BitLength: uint64(8 * n)}
	o.Input = fmt.Sprintf("IPAddressToString(%d bits %x)", 8*n, b)
	g4, g6 := ngapConvert.IPAddressToString(tla)
	o.Count("bit_strings_converted_to_text", 1)
	if (g4 != "") != (n == 4 || n == 20) || (g6 != "") != (n == 16 || n == 20) {
		o.Fail("ip-family-by-length", "IPAddressToString of a %d-bit address %x returns (%q,%q): TS 38.414 makes 32 bits an IPv4 address, 128 bits an IPv6 address and 160 bits both", 8*n, b, g4, g6)
		return false
	}
	back := ngapConvert.IPAddressToNgap(g4, g6)
	if int(back.Value.BitLength) != 8*n || !bytes.Equal(back.Value.Bytes, b) {
		o.Fail("ip-round-trip", "IPAddressToNgap(IPAddressToString(%d bits %x)) = %d bits %x (text %q,%q)", 8*n, b, back.Value.BitLength, back.Value.Bytes, g4, g6)
		return false
	}
	return true
}

// c17Neighbours derives valid pairs related to (v4, v6).
func c17Neighbours(r *rand.Rand, v4, v6 string) (out [][2]string) {
	valid4 := func(s string) bool {
		ip := net.ParseIP(s)
		return ip != nil && ip.To4() != nil && !strings.Contains(s, ":")
	}
	valid6 := func(s string) bool { ip := net.ParseIP(s); return ip != nil && ip.To4() == nil }
	if v4 != "" && v6 != "" {
		// move leading characters of the IPv6 text to the end of the IPv4 text and the other way round
		for k := 1; k <= 2 && k < len(v6); k++ {
			if a, b := v4+v6[:k], v6[k:]; valid4(a) && valid6(b) {
				out = append(out, [2]string{a, b})
			}
		}
		for k := 1; k <= 2 && k < len(v4); k++ {
			if a, b := v4[:len(v4)-k], v4[len(v4)-k:]+v6; valid4(a) && valid6(b) {
				out = append(out, [2]string{a, b})
			}
		}
		// a pair built to collide: "<a>.<b>.<c>.<d>" + "<e>::<f>"  vs  "<a>.<b>.<c>.<d><e>" + "::<f>"
		d, e := 1+r.Intn(24), 1+r.Intn(9)
		base := fmt.Sprintf("10.%d.%d.", r.Intn(256), r.Intn(256))
		f := fmt.Sprintf("%x", 1+r.Intn(0xfffe))
		out = append(out, [2]string{base + fmt.Sprint(d), fmt.Sprintf("%d::%s", e, f)}, [2]string{base + fmt.Sprint(d) + fmt.Sprint(e), "::" + f})
		out = append(out, [2]string{v4, ""}, [2]string{"", v6}, [2]string{v4, v6})
		out = append(out, [2]string{net.IP(rbytes(r, 4)).String(), v6}, [2]string{v4, v6})
	} else if v4 != "" {
		out = append(out, [2]string{v4, "2001:db8::" + fmt.Sprintf("%x", 1+r.Intn(0xfffe))}, [2]string{v4, ""})
	} else if v6 != "" {
		out = append(out, [2]string{"10.0.0." + fmt.Sprint(r.Intn(256)), v6}, [2]string{"", v6})
	}
	return
}

func firstDiff(a, b []byte) int {
	i := 0
	for i < len(a) && i < len(b) && a[i] == b[i] {
		i++
	}
	return i
}
