package checks

import (
	"bytes"
	"encoding/binary"
	"fmt"
	"os"
	"runtime/debug"
	"time"

	"free5gclib/nas/security"

	"vh/fw"
	"vh/ref/sec"
)

// C07 — NEA/NIA equal 128-EEA1/EIA1 (SNOW 3G) and 128-EEA2/EIA2 (AES) of the independent reference for every
// key, COUNT, BEARER, DIRECTION and message length; NEA0 is the identity; applying a cipher twice restores the input;
// results do not depend on earlier calls.
func init() {
	fw.Register(&fw.Check{
		ID:    "C07",
		Level: "exploration",
		Rule: "case idx: message length = 1 + idx mod L octets (every length 1..L, L=300 quick / 2100 thorough; every eighth case a long message: 2^k+d for k=9..16, |d|<=17, and random lengths up to 66000 octets; one case in 400 a very long one: 2^18, 2^19, 2^20, 3*2^19 or 2^21 octets plus a small offset), random key, COUNT in {0,1,2^24-1,2^32-1,random}, BEARER cycling through all 0..31, DIRECTION 0|1; " +
			"each case evaluates NEA0, NEA1, NEA2 (security.NASEncrypt, in place) and NIA1, NIA2 (security.NASMacCalculate) against ref/sec, checks encrypt(encrypt(m))==m, keystream coverage of every octet, " +
			"and repeats the call after an unrelated call with other parameters. The per-process Init makes the first SNOW 3G / AES calls of the process with an all-zero key and zero parameters; beyond 300000 octets only the AES algorithms are evaluated. distinct = hash(inputs); all cases non-trivial",
		Assumptions: []string{
			"octet-aligned, non-empty messages (the NAS API is octet based)",
			"ref/sec: SNOW 3G with S-boxes computed from their algebraic definitions, hand-rolled AES-CTR and AES-CMAC; self-tested on TS 35.222 / TS 33.401 / RFC 4493 vectors at start",
		},
		N: func(t string) int {
			if t == "thorough" {
				return 2100 * 24
			}
			return 300 * 8
		},
		Batch:      600,
		Stall:      90 * time.Second,
		Init:       c07Init,
		Run:        runC07,
		Exhaustive: func(string) bool { return false },
	})
}

// c07LongLengths: 2^k + d for k = 9..16 and small d on both sides (chunked keystream generation, 16-bit length
// arithmetic and block-count computations change behaviour exactly there).
func c07LongLengths() []int {
	var out []int
	for k := 9; k <= 16; k++ {
		for _, d := range []int{-17, -16, -15, -9, -8, -7, -5, -4, -3, -2, -1, 0, 1, 2, 3, 4, 5, 7, 8, 9, 15, 16, 17} {
			if n := 1<<uint(k) + d; n <= 66000 {
				out = append(out, n)
			}
		}
	}
	return append(out, 3000, 5000, 12289, 20000, 40000, 65535+7, 66000)
}

// c07Init: the oracle's self-test, then THE FIRST CALLS OF THIS PROCESS into the library: an all-zero key with COUNT,
// BEARER and DIRECTION zero (the zero value of anything the library might remember between calls), NEA1 first in one
// process and NIA1 first in the next. What they return is judged by the first case the process runs.
var c07FirstCalls string

func c07Init() error {
	if err := sec.SelfTest(); err != nil {
		return err
	}
	var key [16]byte
	msg := make([]byte, 40)
	order := []int{0, 1, 2, 3}
	if os.Getpid()%2 == 1 {
		order = []int{1, 0, 3, 2}
	}
	for _, k := range order {
		switch k {
		case 0:
			got := append([]byte(nil), msg...)
			err := security.NASEncrypt(security.AlgCiphering128NEA1, key, 0, 0, 0, got)
			if want, _ := sec.NEA(1, key[:], 0, 0, 0, msg); err != nil || !bytes.Equal(got, want) {
				c07FirstCalls += fmt.Sprintf("NEA1 with an all-zero key, COUNT 0, BEARER 0, DIRECTION 0 as the first SNOW 3G use of a process: %x (err %v), 128-EEA1 gives %x; ", got, err, want)
			}
		case 1:
			got, err := security.NASMacCalculate(security.AlgIntegrity128NIA1, key, 0, 0, 0, msg)
			if want, _ := sec.NIA(1, key[:], 0, 0, 0, msg); err != nil || !bytes.Equal(got, want) {
				c07FirstCalls += fmt.Sprintf("NIA1 with an all-zero key, COUNT 0, BEARER 0, DIRECTION 0 as the first SNOW 3G use of a process: %x (err %v), 128-EIA1 gives %x; ", got, err, want)
			}
		case 2:
			got := append([]byte(nil), msg...)
			err := security.NASEncrypt(security.AlgCiphering128NEA2, key, 0, 0, 0, got)
			if want, _ := sec.NEA(2, key[:], 0, 0, 0, msg); err != nil || !bytes.Equal(got, want) {
				c07FirstCalls += fmt.Sprintf("NEA2 with an all-zero key and zero parameters as the first call of a process: %x (err %v), 128-EEA2 gives %x; ", got, err, want)
			}
		case 3:
			got, err := security.NASMacCalculate(security.AlgIntegrity128NIA2, key, 0, 0, 0, msg)
			if want, _ := sec.NIA(2, key[:], 0, 0, 0, msg); err != nil || !bytes.Equal(got, want) {
				c07FirstCalls += fmt.Sprintf("NIA2 with an all-zero key and zero parameters as the first call of a process: %x (err %v), 128-EIA2 gives %x; ", got, err, want)
			}
		}
	}
	return nil
}

func runC07(c *fw.Case) (o fw.Outcome) {
	r := c.R
	if c07FirstCalls != "" {
		o.Nontrivial, o.Digest = true, fw.HashS("first-calls", fmt.Sprint(c.Idx))
		o.Fail("first-call-of-a-process", "%s", c07FirstCalls)
		return
	}
	L := 300
	if c.Thorough() {
		L = 2100
	}
	n := 1 + c.Idx%L
	round := c.Idx / L
	if c.Idx%8 == 7 { // long messages: a payload container carries up to 65535 octets; lengths around every power of two up to 2^16
		ll := c07LongLengths()
		k := c.Idx / 8
		if k%3 == 2 {
			n = 301 + r.Intn(66000-301)
		} else {
			n = ll[(k-k/3)%len(ll)]
		}
		o.Tag("long-message")
		o.Max("longest_message_octets", int64(n))
	}
	if c.Idx%400 == 199 {
		// very long messages ("a message of any length"): just past 2^16 keystream words of SNOW 3G (2^18 octets), 2^16 AES
		// blocks (2^20 octets) and 2^24 bits (2^21 octets) - where a counter or a bit length kept in 16 or 24 bits wraps
		k := c.Idx / 400
		n = []int{1 << 20, 1 << 18, 1 << 21, 1 << 20, 1 << 19, 3 << 19}[k%6] + []int{1, 17, 16, 33, -1, 4096, 0}[(k/6+k)%7]
		o.Tag("very-long-message")
		o.Max("longest_message_octets", int64(n))
	}
	var key [16]byte
	copy(key[:], cornerBytes(r, 16))
	count := pick(r, uint32(0), 1, 1<<24-1, 1<<32-1, r.Uint32(), r.Uint32()&0xffffff)
	bearer := uint8((c.Idx + round) % 32)
	dir := uint8(r.Intn(2))
	msg := rbytes(r, n)
	switch r.Intn(8) {
	case 0, 1:
		msg = make([]byte, n) // all-zero plaintext: the ciphertext is the keystream itself
	case 2, 3, 4:
		msg = blockyBytes(r, n) // zero / all-ones words between other words, at every alignment
		o.Tag("blocky-message")
	}
	if c.Idx%6 == 5 && n >= 16 {
		// aimed field elements: one 64-bit block of the message is chosen so that the value 128-EIA1 multiplies by P (or,
		// for the last block, what is multiplied by Q) is a special element of GF(2^64): a power of x, x^63 / P or x^63 /
		// (a prefix of P) - the values at which a shift-and-add multiplier doubles exactly x^63 -, 0, 1, all ones. Random
		// messages reach any given element with probability 2^-64 per block.
		p, q := sec.EIA1Params(key[:], count, bearer, dir)
		pinv := sec.GF64Inv(p)
		var target uint64
		e := uint(r.Intn(64))
		switch r.Intn(8) {
		case 0:
			target = 1 << e // x^e
		case 1:
			target = sec.GF64Mul(1<<63, pinv) // times P gives x^63
		case 2:
			target = sec.GF64Mul(1<<e, pinv) // times P gives x^e
		case 3: // a value with a PREFIX whose product with P is x^63 (MSB-first Horner over the bits of the value)
			w := sec.GF64Mul(1<<63, pinv)
			sh := uint(1 + r.Intn(8))
			if w>>(64-sh) == 0 {
				target = w<<sh | uint64(r.Intn(1<<sh))
			} else {
				target = w
			}
		case 4: // x^63 / (the top m bits of P): the accumulator of a multiplier that walks over the bits of P
			m := uint(1 + r.Intn(63))
			if pre := p >> (64 - m); pre != 0 {
				target = sec.GF64Mul(1<<63, sec.GF64Inv(pre))
			}
		case 5:
			target = ^uint64(0)
		case 6:
			target = sec.GF64Mul(1<<63, sec.GF64Inv(q))
		default:
			target = pick(r, uint64(0), 1, 0x1b, 1<<63, 1<<63|1)
		}
		nb := n / 8
		j := r.Intn(nb) // block to aim
		var eval uint64
		for i := 0; i < j; i++ {
			eval = sec.GF64Mul(eval^binary.BigEndian.Uint64(msg[8*i:]), p)
		}
		binary.BigEndian.PutUint64(msg[8*j:], eval^target)
		o.Tag("aimed-field-element")
	}
	o.Input = kv("len", n, "key", hexs(key[:]), "count", fmt.Sprintf("%#x", count), "bearer", bearer, "dir", dir, "msg", hexs(clip(msg, 64)))
	o.Digest = fw.Hash(key[:], msg, []byte{bearer, dir, byte(count), byte(count >> 8), byte(count >> 16), byte(count >> 24)})
	o.Nontrivial = true
	o.Tag(fmt.Sprintf("len%%4=%d", n%4), fmt.Sprintf("bearer=%d", bearer))
	defer func() {
		if rec := recover(); rec != nil {
			st := string(debug.Stack())
			o.Verdict = fw.Held
			o.Fail("panic:"+fw.TopRepoFrame(st), "panic: %v\n%s", rec, clipS(st, 1200))
		}
	}()
	var otherKey [16]byte
	copy(otherKey[:], rbytes(r, 16))
	// the library's SNOW 3G needs seconds per megabyte: beyond 300 000 octets (where only the AES block counter has a
	// boundary: 2^16 blocks = 2^20 octets) the SNOW 3G algorithms are left out; their own 16-bit boundary (2^16 keystream
	// words = 2^18 octets) is below that. Heartbeats between the calls: a long case is not a hung one.
	snowToo := n <= 300000
	for alg := uint8(0); alg <= 2; alg++ {
		if alg == 1 && !snowToo {
			continue
		}
		fw.Beat()
		want, _ := sec.NEA(alg, key[:], count, bearer, dir, msg)
		fw.Beat()
		got, gdmg := guarded(r, msg)
		if err := security.NASEncrypt(alg, key, count, bearer, dir, got); err != nil {
			o.Fail(fmt.Sprintf("nea%d-error", alg), "NASEncrypt(NEA%d) error: %v", alg, err)
			return
		}
		o.Count("encryptions", 1)
		if d := gdmg(true); d != "" {
			o.Fail(fmt.Sprintf("nea%d-writes-outside-message", alg), "NASEncrypt(NEA%d, %d octets): %s", alg, n, d)
			return
		}
		if !bytes.Equal(got, want) {
			d := 0
			for d < n && got[d] == want[d] {
				d++
			}
			kind := "mismatch"
			if alg != 0 && bytes.Equal(got[d:], msg[d:]) {
				kind = "tail-in-clear"
			}
			o.Fail(fmt.Sprintf("nea%d-%s", alg, kind), "NEA%d differs from 128-EEA%d at octet %d of %d (len mod 4 = %d): library %x, reference %x, plaintext %x",
				alg, alg, d, n, n%4, clip(got[d:], 16), clip(want[d:], 16), clip(msg[d:], 16))
			return
		}
		if alg == 0 && !bytes.Equal(got, msg) {
			o.Fail("nea0-changes", "NEA0 changed the message")
			return
		}
		// involution
		fw.Beat()
		again := append([]byte(nil), got...)
		security.NASEncrypt(alg, key, count, bearer, dir, again)
		fw.Beat()
		if !bytes.Equal(again, msg) {
			o.Fail(fmt.Sprintf("nea%d-not-involution", alg), "NEA%d applied twice does not restore the input (len %d)", alg, n)
			return
		}
		// independence of earlier calls
		junk := rbytes(r, 1+r.Intn(40))
		security.NASEncrypt(1+uint8(r.Intn(2)), otherKey, r.Uint32(), uint8(r.Intn(32)), uint8(r.Intn(2)), junk)
		third := append([]byte(nil), msg...)
		security.NASEncrypt(alg, key, count, bearer, dir, third)
		if !bytes.Equal(third, want) {
			o.Fail(fmt.Sprintf("nea%d-depends-on-history", alg), "NEA%d result changed after an unrelated call", alg)
			return
		}
	}
	for alg := uint8(1); alg <= 2; alg++ {
		if alg == 1 && !snowToo {
			continue
		}
		fw.Beat()
		want, _ := sec.NIA(alg, key[:], count, bearer, dir, msg)
		fw.Beat()
		mview, mdmg := guarded(r, msg)
		got, err := security.NASMacCalculate(alg, key, count, bearer, dir, mview)
		o.Count("macs", 1)
		if d := mdmg(false); d != "" {
			o.Fail(fmt.Sprintf("nia%d-writes-to-message", alg), "NASMacCalculate(NIA%d, %d octets): %s", alg, n, d)
			return
		}
		if err != nil {
			o.Fail(fmt.Sprintf("nia%d-error", alg), "NASMacCalculate(NIA%d) error: %v", alg, err)
			return
		}
		if m := retainCheck("mac", got, o.Input); m != "" {
			o.Fail("retained-result-changed", "%s", m)
			return
		}
		if !bytes.Equal(got, want) {
			o.Fail(fmt.Sprintf("nia%d-mismatch", alg), "NIA%d MAC %x, 128-EIA%d gives %x (len %d, len mod 8 = %d)", alg, got, alg, want, n, n%8)
			return
		}
		security.NASMacCalculate(1+uint8(r.Intn(2)), otherKey, r.Uint32(), uint8(r.Intn(32)), uint8(r.Intn(2)), rbytes(r, 1+r.Intn(40)))
		got2, _ := security.NASMacCalculate(alg, key, count, bearer, dir, append([]byte(nil), msg...))
		if !bytes.Equal(got2, want) {
			o.Fail(fmt.Sprintf("nia%d-depends-on-history", alg), "NIA%d result changed after an unrelated call", alg)
			return
		}
	}
	// Sessions of RELATED calls: the same key / COUNT / BEARER / DIRECTION with other lengths and contents (longer, shorter
	// with every residue, in between, the first length again), then one parameter changed at a time. A result is a function
	// of the arguments of THIS call: whatever an implementation keeps from one call to the next (keystream, key schedule,
	// sub-keys, the IV) must not leak into a call that merely resembles it.
	if c.Idx%2 == 0 {
		type pset struct {
			key         [16]byte
			count       uint32
			bearer, dir uint8
		}
		base := pset{key, count, bearer, dir}
		lens := []int{n, 1 + r.Intn(n), 1 + r.Intn(n), n/2 + 1, n, 1 + r.Intn(n+3)}
		if n > 8 {
			short := 2*(1+r.Intn((n-1)/2)) - 1 // odd, at most n-2: not a multiple of 4 (nor of 2)
			mid := short + 1 + r.Intn(n-short)
			lens = append([]int{n, short, mid, (short + 3) &^ 3, short + 1}, lens...)
		}
		for step, ln := range lens {
			if ln > 4096 {
				ln = 1 + ln%4096 // the long-message cases keep their related calls short
			}
			ps := base
			switch {
			case step >= len(lens)-3 && step%3 == 0:
				ps.count ^= 1 << uint(r.Intn(32))
			case step >= len(lens)-3 && step%3 == 1:
				ps.bearer, ps.dir = ps.bearer^1, ps.dir^1
			case step >= len(lens)-3:
				ps.key[r.Intn(16)] ^= 1 << uint(r.Intn(8))
			}
			m := cornerBytes(r, ln)
			if step%2 == 1 { // a call the library refuses (128-NEA3 / 128-NIA3, reserved identities) with the very same parameters
				bad := uint8(pick(r, 3, 3, 4, 7, 255))
				security.NASEncrypt(bad, ps.key, ps.count, ps.bearer, ps.dir, append([]byte(nil), m...))
				security.NASMacCalculate(bad, ps.key, ps.count, ps.bearer, ps.dir, append([]byte(nil), m...))
				o.Count("refused_calls_in_sessions", 2)
			}
			for alg := uint8(1); alg <= 2; alg++ {
				want, _ := sec.NEA(alg, ps.key[:], ps.count, ps.bearer, ps.dir, m)
				got := append([]byte(nil), m...)
				security.NASEncrypt(alg, ps.key, ps.count, ps.bearer, ps.dir, got)
				if !bytes.Equal(got, want) {
					o.Fail(fmt.Sprintf("nea%d-depends-on-history", alg), "NEA%d, call %d of a session of related calls (lengths %v, this one %d octets, parameters %s the first call's): differs from 128-EEA%d at octet %d: library %x, reference %x",
						alg, step+1, lens, ln, map[bool]string{true: "equal to", false: "one step away from"}[ps == base], alg, firstDiff(got, want), clip(got[firstDiff(got, want):], 12), clip(want[firstDiff(got, want):], 12))
					return
				}
				wantMac, _ := sec.NIA(alg, ps.key[:], ps.count, ps.bearer, ps.dir, m)
				gotMac, _ := security.NASMacCalculate(alg, ps.key, ps.count, ps.bearer, ps.dir, append([]byte(nil), m...))
				if !bytes.Equal(gotMac, wantMac) {
					o.Fail(fmt.Sprintf("nia%d-depends-on-history", alg), "NIA%d, call %d of a session of related calls (lengths %v, this one %d octets): MAC %x, 128-EIA%d gives %x", alg, step+1, lens, ln, gotMac, alg, wantMac)
					return
				}
				o.Count("related_calls", 2)
			}
		}
	}
	// table coverage of the reference generator in this process (same inputs as the library saw)
	sr, sq, mul, div := sec.SnowCoverage()
	cov := 0
	for i := 0; i < 4; i++ {
		for j := 0; j < 256; j++ {
			if sr[i][j] {
				cov++
			}
			if sq[i][j] {
				cov++
			}
		}
	}
	for j := 0; j < 256; j++ {
		if mul[j] {
			cov++
		}
		if div[j] {
			cov++
		}
	}
	o.Max("snow3g_table_entries_exercised_of_2560", int64(cov))
	return
}
