package checks

import (
	"bytes"
	"fmt"
	"hash"
	"net"
	"reflect"
	"strings"
	"sync"

	"free5gclib/aper"
	"free5gclib/nas/nasConvert"
	"free5gclib/nas/security"
	"free5gclib/ngap"
	"free5gclib/ngap/ngapConvert"
	"free5gclib/ngap/ngapType"
	"free5gclib/openapi/models"
	"free5gclib/util_3gpp"
	stgutg "stgutgp"
	"tglib"

	"vh/gen/nasdesc"
	"vh/gen/ngapgen"
	"vh/ref/per"
)

// Operations of the C20 stress workload beyond the emulator's own hot path: every NGAP message type and transfer
// container, every NAS message type, every builder that does not write the announced PLMN, the identity and
// conversion helpers and the two hand-written extractors. Inputs are generated inside the goroutine from the actor's
// own PRNG; generators of the harness that keep shared tables are serialised by c20RefMu (the monitor must not be the race).

var c20ExtNames = []string{"ngap-any-message", "ngap-transfer-container", "nas-any-message", "ngap-builder", "identity-and-conversion", "extractors", "large-fragmented-value", "algorithm-entry-points", "deeply-nested-decode"}

// c20Builders: the C13 builder table minus the two NG Setup builders (they WRITE the announced PLMN, which the
// emulator does once before any UE exists - stated assumption of the check).
var c20Builders = func() (out []int) {
	for i, sp := range c13Specs {
		if !strings.Contains(sp.name, "NGSetupRequest") {
			out = append(out, i)
		}
	}
	return
}

func c20Descs() []nasdesc.Msg {
	ds, err := nasdesc.Load()
	if err != nil {
		return nil
	}
	return ds
}

func c20OpExt(a *c20Actor, kind int, h hash.Hash) {
	r := a.r
	switch kind {
	case 0: // any NGAP message type: encode -> decode -> encode
		ms := ngapMessages()
		m := ms[r.Intn(len(ms))]
		pdu, _ := genPDU(r, m, 30, false, true)
		b, err := ngap.Encoder(pdu)
		fmt.Fprint(h, m.Name, err)
		h.Write(b)
		if err == nil {
			back, err := ngap.Decoder(append([]byte(nil), b...))
			fmt.Fprint(h, err)
			if err == nil && back != nil {
				b2, err := ngap.Encoder(*back)
				fmt.Fprint(h, err)
				h.Write(b2)
			}
		}
	case 1: // transfer containers through the APER entry points
		t := transferTypes[r.Intn(len(transferTypes))]
		g := ngapgen.New(r, 30)
		g.NoExt = true
		v := g.Value(t, per.Params{})
		b, err := aper.MarshalWithParams(v.Interface(), "valueExt")
		fmt.Fprint(h, t.Name(), err)
		h.Write(b)
		if err == nil {
			back := reflect.New(t)
			err = aper.UnmarshalWithParams(append([]byte(nil), b...), back.Interface(), "valueExt")
			fmt.Fprint(h, err)
			if err == nil {
				b2, err := aper.MarshalWithParams(back.Elem().Interface(), "valueExt")
				fmt.Fprint(h, err)
				h.Write(b2)
			}
		}
	case 2: // any NAS message type with a random subset of optional IEs
		ds := a.descs
		if len(ds) == 0 {
			return
		}
		d := &ds[r.Intn(len(ds))]
		k := len(d.Optionals())
		mask := r.Uint64()
		if k < 64 {
			mask &= 1<<uint(k) - 1
		}
		nv := genNas(r, d, mask, nil)
		b, err := nasEncodeVia(nv)
		fmt.Fprint(h, d.Name, err)
		h.Write(b)
		if err == nil {
			v1, err := nasDecodeVia(d, b)
			fmt.Fprint(h, err)
			if err == nil {
				b1, err := nasEncodeVia(&nasValue{Desc: d, Msg: v1})
				fmt.Fprint(h, err)
				h.Write(b1)
			}
		}
	case 3: // builders with the caller's identifiers
		sp := c13Specs[a.builders[r.Intn(len(a.builders))]]
		ba := &bArgs{r: r, amf: r.Int63n(1 << 40), ran: r.Int63n(1 << 32), psi: int64(r.Intn(256)), nas: rbytes(r, 1+r.Intn(80)),
			ipv4: net.IP(rbytes(r, 4)).String(), plmn: rbytes(r, 3), gnbBits: 24, gnbID: rbytes(r, 3), gnbName: "gnb" + digits(r, 3),
			tgtGNB: rbytes(r, 3), tgtCell: rbytes(r, 2), psis: []int64{int64(r.Intn(256)), int64(r.Intn(256))}}
		_, b, err, _ := sp.build(ba)
		fmt.Fprint(h, sp.name, err)
		h.Write(b)
	case 4: // identities and conversion helpers
		mncLen := 2 + r.Intn(2)
		imsi := digits(r, 5+mncLen+r.Intn(6))
		su := stgutg.EncodeSuci([]byte(imsi), mncLen)
		h.Write([]byte{byte(su.Len), byte(su.Len >> 8)})
		h.Write(su.Buffer)
		ue := stgutg.CreateUE(digits(r, 15), r.Intn(1000), hexs(a.k), hexs(a.opc), "")
		fmt.Fprint(h, ue.Supi, ue.RanUeNgapId, ue.CipheringAlg, ue.IntegrityAlg)
		cap := ue.GetUESecurityCapability()
		if cap != nil {
			h.Write(cap.Buffer)
		}
		mcc, mnc := digits(r, 3), digits(r, mncLen)
		h.Write(nasConvert.PlmnIDToNas(models.PlmnId{Mcc: mcc, Mnc: mnc}))
		sd := ""
		if r.Intn(2) == 0 {
			sd = hexs(rbytes(r, 3))
		}
		h.Write(nasConvert.SnssaiToNas(models.Snssai{Sst: int32(r.Intn(256)), Sd: sd}))
		reg, set, ptr := nasConvert.AmfIdToNas(hexs(rbytes(r, 3)))
		fmt.Fprint(h, reg, set, ptr)
		v4 := net.IP(rbytes(r, 4)).String()
		v6 := ""
		if r.Intn(2) == 0 {
			v6 = net.IP(rbytes(r, 16)).String()
		}
		tla := ngapConvert.IPAddressToNgap(v4, v6)
		h.Write(tla.Value.Bytes)
		g4, g6 := ngapConvert.IPAddressToString(tla)
		fmt.Fprint(h, g4, g6)
		p := nasConvert.NewProtocolConfigurationOptions()
		for i, n := 0, r.Intn(4); i < n; i++ {
			l := r.Intn(40)
			p.ProtocolOrContainerList = append(p.ProtocolOrContainerList, &nasConvert.ProtocolOrContainerUnit{ProtocolOrContainerID: uint16(r.Intn(1 << 16)), LengthOfContents: uint8(l), Contents: rbytes(r, l)})
		}
		pb := p.Marshal()
		h.Write(pb)
		back := nasConvert.NewProtocolConfigurationOptions()
		fmt.Fprint(h, back.UnMarshal(append([]byte(nil), pb...)), len(back.ProtocolOrContainerList))
		dn := util_3gpp.Dnn("net" + digits(r, 1+r.Intn(8)))
		db, err := dn.MarshalBinary()
		fmt.Fprint(h, err)
		h.Write(db)
	case 5: // the emulator's hand-written extractors on reference-built network messages
		ueIP, upf := net.IP(rbytes(r, 4)), net.IP(rbytes(r, 4))
		teid := r.Uint32()
		c20RefMu.Lock()
		nasPdu, _ := buildAcceptNAS(r, ueIP, r.Intn(200), r.Intn(512))
		transfer, _, err := buildTransfer(r, upf, teid)
		c20RefMu.Unlock()
		if err != nil {
			return
		}
		got := stgutg.DecodePDUSessionNASPDU(nasPdu)
		gt, gu := stgutg.DecodePDUSessionResourceSetupRequestTransfer(transfer)
		fmt.Fprint(h, got, gt, gu)
		if !got.Equal(ueIP) || gt != teid || !gu.Equal(upf) {
			h.Write([]byte("wrong")) // differs from the sequential run only if the interference is schedule dependent; C12 owns the values
		}
		_ = bytes.Equal
	case 6: // values of 16K octets and more (fragmented length determinants): whatever the codec keeps while it puts such a value together belongs to that one call
		n := pick(r, 16384, 20000, 65536, 65537, 114688)
		v := ngapType.NASPDU{Value: rbytes(r, n)}
		b, err := aper.Marshal(v)
		fmt.Fprint(h, n, err, len(b))
		if err == nil {
			var back ngapType.NASPDU
			err = aper.Unmarshal(append([]byte(nil), b...), &back)
			fmt.Fprint(h, err, len(back.Value))
			h.Write(back.Value)
		}
	case 7: // the exported algorithm functions themselves (the way to a bit-granular LENGTH, as the conformance vectors use): they share whatever the wrappers share
		msg := rbytes(r, 1+r.Intn(96))
		bits := uint32(8*len(msg)) - uint32(r.Intn(8))
		cnt, dir := r.Uint32(), uint32(r.Intn(2))
		o1, err := security.NEA1(a.ue.KnasEnc, cnt, 1, dir, msg, bits)
		fmt.Fprint(h, err)
		h.Write(o1)
		m1, err := security.NIA1(a.ue.KnasInt, cnt, 1, dir, msg, uint64(bits))
		fmt.Fprint(h, err)
		h.Write(m1)
		o2, err := security.NEA2(a.ue.KnasEnc, cnt, 1, uint8(dir), msg)
		fmt.Fprint(h, err)
		h.Write(o2)
		m2, err := security.NIA2(a.ue.KnasInt, cnt, 1, uint8(dir), msg)
		fmt.Fprint(h, err)
		h.Write(m2)
	case 8: // the DEEPEST messages (nested lists of lists of choices ...), decoded by every goroutine at once: whatever a decoder
		// counts while it descends - depth, elements, octets - it counts for ONE call
		if a.deep == nil {
			ms := c20DeepMessages()
			if len(ms) == 0 {
				return
			}
			for try := 0; try < 10; try++ { // the longest of ten candidates: length goes with nesting here
				m := ms[r.Intn(len(ms))]
				pdu, _ := genPDU(r, m, 1500, try%2 == 1, true)
				if b, err := ngap.Encoder(pdu); err == nil && len(b) > len(a.deep) && len(b) <= 4096 {
					a.deep = b
				}
			}
			fmt.Fprint(h, len(a.deep))
			if a.deep == nil {
				a.deep = []byte{}
			}
		}
		for i := 0; i < 3 && len(a.deep) > 0; i++ {
			back, err := ngap.Decoder(append([]byte(nil), a.deep...))
			fmt.Fprint(h, err)
			if err == nil && back != nil && i == 0 {
				b2, err := ngap.Encoder(*back)
				fmt.Fprint(h, err)
				h.Write(b2)
			}
		}
	}
	_ = tglib.NewRanUeContext
}

var (
	c20DeepOnce sync.Once
	c20DeepMemo []msgRef
)

// c20DeepMessages: the message types whose values nest deepest.
func c20DeepMessages() []msgRef {
	c20DeepOnce.Do(func() {
		want := map[string]bool{"Paging": true, "HandoverRequest": true, "HandoverRequired": true, "InitialContextSetupRequest": true, "PDUSessionResourceSetupRequest": true,
			"UplinkRANStatusTransfer": true, "DownlinkRANStatusTransfer": true, "PathSwitchRequest": true, "WriteReplaceWarningResponse": true, "HandoverCommand": true}
		for _, m := range ngapMessages() {
			if want[m.Name[strings.IndexByte(m.Name, '.')+1:]] {
				c20DeepMemo = append(c20DeepMemo, m)
			}
		}
	})
	return c20DeepMemo
}
