package checks

import (
	"bytes"
	"encoding/json"
	"fmt"
	"math/rand"
	"os"
	"os/exec"
	"sync"
	"syscall"
	"time"

	stgutg "stgutgp"
	"tglib"

	"github.com/ishidawataru/sctp"

	"vh/procdrv"
	"vh/refamf"
)

// The procedure driver: the exported procedures of package stgutg are called directly (public API, no hook) on one
// end of a seqpacket socketpair, with the reference AMF on the other end in the same (child) process, so that the
// values the procedures RETURN can be compared with what the network assigned. It runs in a child process because the
// procedures call os.Exit on every error.

type ProcSpec struct {
	Cfg        procdrv.EmuConfig
	ChoiceSeed int64
	NUE        int
	Establish  bool
	Service    bool // also service request (1 s sleeps inside)
	Release    bool
	Deregister bool
	FaultAt    int // -1 none
	FaultKind  string
	FaultAtUp  int // "abort": ordinal of the uplink message left unread
}

type ProcUE struct {
	Index                  int
	Supi                   string
	RanID, AmfID           int64
	ULCount                uint32
	KnasInt, KnasEnc, Kamf string
	GotIP, GotUPF          string
	GotTEID                uint32
	Established            bool
}

type ProcResult struct {
	UEs                []ProcUE
	Sessions           []refamf.Session
	Violations         []refamf.Violation
	Conversation       string
	AMFUEs             []string
	Observ             map[string]int
	Uplink             int
	Downlink           int
	Done               bool
	ReturnedAfterFault bool
	Stuck              bool // the AMF answered everything and has been silent for 25 s, yet the procedure has not returned
}

// ProcChildMain is `hx proc`: reads a ProcSpec from stdin, prints a ProcResult on stdout.
func ProcChildMain() int {
	var sp ProcSpec
	if err := json.NewDecoder(os.Stdin).Decode(&sp); err != nil {
		fmt.Fprintln(os.Stderr, "bad spec:", err)
		return 3
	}
	fds, err := syscall.Socketpair(syscall.AF_UNIX, syscall.SOCK_SEQPACKET, 0)
	if err != nil {
		fmt.Fprintln(os.Stderr, err)
		return 3
	}
	mine, theirs := fds[0], fds[1]
	ch := genChoices(rand.New(rand.NewSource(sp.ChoiceSeed)), sp.NUE)
	var fdMu sync.Mutex
	fdClosed := false
	closeMine := func() { // the peer sees the AMF going away; the descriptor itself is closed by the reader goroutine when it returns
		fdMu.Lock()
		defer fdMu.Unlock()
		if !fdClosed {
			syscall.Shutdown(mine, syscall.SHUT_RDWR)
		}
	}
	reallyClose := func() {
		fdMu.Lock()
		defer fdMu.Unlock()
		if !fdClosed {
			fdClosed = true
			syscall.Close(mine)
		}
	}
	amf := refamf.New(sp.Cfg.AMFConfig(), ch, refamf.Fault{At: sp.FaultAt, Kind: sp.FaultKind, AtUplink: sp.FaultAtUp}, func(b []byte) error { _, e := syscall.Write(mine, b); return e }, closeMine)
	amf.StopReading = func() {
		fdMu.Lock()
		defer fdMu.Unlock()
		if !fdClosed {
			syscall.Shutdown(mine, syscall.SHUT_RD)
		}
	}
	done := make(chan struct{})
	go func() {
		defer close(done)
		defer reallyClose()
		buf := make([]byte, 1<<16)
		for {
			if amf.AbortDue() {
				// wait until the request is in the receive queue, then leave without reading it: closing a socket with unread
				// data resets the association (ECONNRESET at the peer, not end-of-file)
				syscall.Recvfrom(mine, buf[:1], syscall.MSG_PEEK)
				reallyClose()
				amf.MarkFaultDone()
				return
			}
			n, err := syscall.Read(mine, buf)
			if err != nil || n <= 0 {
				return
			}
			amf.HandleUplink(append([]byte(nil), buf[:n]...))
		}
	}()
	res := ProcResult{}
	emit := func() {
		res.Sessions = amf.Sessions
		res.Violations = amf.Violations
		res.Conversation = conversationSummary(amf, 80)
		res.AMFUEs = amf.UEs()
		res.Observ = amf.Observ
		res.Uplink, res.Downlink = amf.ULRecv, amf.DLSent
		b, _ := json.Marshal(res)
		os.Stdout.Write(append(b, '\n'))
	}
	// Once the reference AMF has rejected a message the conversation is judged; the AMF may stop answering and the
	// procedure under test would block in its next read. Report what was seen and end the child instead of waiting for
	// the parent's watchdog.
	var emitOnce sync.Once
	go func() {
		last, since := -1, time.Now()
		quiet := 25 * time.Second // counted from the last message or from the moment the fault took effect
		for {
			time.Sleep(200 * time.Millisecond)
			act, quietSince, delivered := amf.Quiet()
			if act != last {
				last, since = act, time.Now()
			} else if delivered && time.Since(since) > quiet && time.Since(quietSince) > quiet && asleepInRecv(theirs) {
				// a quiescent network (conformant, or one whose fault has taken effect) and a procedure that does not come back:
				// stuck, not slow - the longest pause a procedure makes on its own is one second, and the thread that runs it
				// is ASLEEP in its read (two looks one second apart), not waiting for a processor
				emitOnce.Do(func() {
					res.Done, res.Stuck = true, true
					emit()
					os.Exit(0)
				})
			}
			if amf.NViolations() > 0 {
				time.Sleep(1500 * time.Millisecond) // let an immediate follow-up (the procedure's own exit) win
				emitOnce.Do(func() {
					res.Done = true
					emit()
					os.Exit(0)
				})
			}
		}
	}()
	// stdout of the procedures (fmt.Println in the library) must not mix with the result: the result goes last on its own line
	conn := sctp.NewSCTPConn(theirs, nil)
	c := sp.Cfg
	stgutg.ManageNGSetup(conn, string(c.GnbID), c.IMSI, c.MNC, c.GnbBits, c.GnbName)
	// phases in the order main() uses: all registrations, all establishments, then service requests, releases, deregistrations
	// (ReleasePDU never reads its answer, so procedures of different UEs must not be interleaved differently from main)
	var ues []*tglib.RanUeContext
	for i := 0; i < sp.NUE; i++ {
		ue := stgutg.CreateUE(c.IMSI, i, c.K, c.OPC, c.OP)
		ue, _, _ = stgutg.RegisterUE(ue, c.MNC, c.MCC, conn)
		ues = append(ues, ue)
		res.UEs = append(res.UEs, ProcUE{Index: i, Supi: ue.Supi, RanID: ue.RanUeNgapId, AmfID: ue.AmfUeNgapId})
	}
	if sp.Establish {
		for i, ue := range ues {
			ip, teid, upf := stgutg.EstablishPDU(c.SST, c.SD, ue, conn, c.GnbGTP)
			pu := &res.UEs[i]
			pu.GotIP, pu.GotTEID, pu.GotUPF, pu.Established = ip.String(), teid, upf.String(), true
			if sp.FaultAt >= 0 && amf.FaultFired {
				res.ReturnedAfterFault = true
			}
		}
	}
	if sp.Service {
		for _, ue := range ues {
			stgutg.ServiceRequest(nil, ue, conn, c.GnbGTP)
		}
	}
	if sp.Release {
		for _, ue := range ues {
			stgutg.ReleasePDU(c.SST, c.SD, ue, conn)
		}
	}
	if sp.Deregister {
		for _, ue := range ues {
			stgutg.DeregisterUE(ue, c.MNC, conn)
		}
	}
	for i, ue := range ues {
		pu := &res.UEs[i]
		pu.ULCount = ue.ULCount.Get()
		pu.KnasInt, pu.KnasEnc, pu.Kamf = hexs(ue.KnasInt[:]), hexs(ue.KnasEnc[:]), hexs(ue.Kamf)
	}
	time.Sleep(50 * time.Millisecond) // let the AMF goroutine take the last uplink messages
	conn.Close()
	select {
	case <-done:
	case <-time.After(2 * time.Second):
	}
	closeMine()
	emitOnce.Do(func() {
		res.Done = true
		emit()
	})
	return 0
}

func asleepInRecv(fd int) bool {
	if !procdrv.ThreadAsleepInRecv(os.Getpid(), fd) {
		return false
	}
	time.Sleep(time.Second)
	return procdrv.ThreadAsleepInRecv(os.Getpid(), fd)
}

// runProcChild executes a ProcSpec in a child process and returns the parsed result (nil when the child died before
// reporting), its exit code and its raw output.
func runProcChild(sp ProcSpec, timeout time.Duration) (*ProcResult, int, string, bool) {
	exe, _ := os.Executable()
	cmd := exec.Command(exe, "proc")
	in, _ := json.Marshal(sp)
	cmd.Stdin = bytes.NewReader(in)
	var out bytes.Buffer
	cmd.Stdout, cmd.Stderr = &out, &out
	cmd.Dir = workDir()
	cmd.WaitDelay = 5 * time.Second
	if err := cmd.Start(); err != nil {
		return nil, -1, err.Error(), false
	}
	done := make(chan error, 1)
	go func() { done <- cmd.Wait() }()
	timedOut := false
	var werr error
	select {
	case werr = <-done:
	case <-time.After(timeout):
		timedOut = true
		cmd.Process.Kill()
		werr = <-done
	}
	code := 0
	if ee, ok := werr.(*exec.ExitError); ok {
		code = ee.ExitCode()
	}
	lines := bytes.Split(bytes.TrimSpace(out.Bytes()), []byte("\n"))
	for i := len(lines) - 1; i >= 0; i-- {
		if len(lines[i]) > 0 && lines[i][0] == '{' {
			var pr ProcResult
			if json.Unmarshal(lines[i], &pr) == nil && pr.Done {
				return &pr, code, out.String(), timedOut
			}
		}
	}
	return nil, code, out.String(), timedOut
}
