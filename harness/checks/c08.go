package checks

import (
	"bytes"
	"fmt"
	"reflect"
	"strings"

	"free5gclib/nas"

	"vh/fw"
	"vh/gen/nasdesc"
)

// C08 — the plain NAS codec is lossless for all 45 message types: presence pattern and wire-visible content of
// every member survive encode+decode, a second encode reproduces the bytes, decode is idempotent on its own output,
// optional IEs are recognised in any order, unknown message types / EPDs are errors.
func init() {
	fw.Register(&fw.Check{
		ID:    "C08",
		Level: "exploration",
		Rule: "case = (message type = idx mod 45, subset of its optional IEs: all 2^k subsets in turn when k <= 10, otherwise empty/all/singletons/complements/random; field values random with all-00/all-FF corners, " +
			"value lengths in {0, 1, max-1, max, random} of each member's capacity, half-octet values 0 and F). Per case: encode, decode, compare presence and content member by member, re-encode (bytes equal), decode again (struct equal), " +
			"then shuffle the optional IE chunks 3 times and decode (content equal, canonical re-encode). Every 45th case also feeds unknown message types and EPDs to PlainNasDecode. distinct = hash(encoding); non-trivial = at least one optional IE present or a message with a variable mandatory part",
		Assumptions: []string{
			"IEI and message-type constants are read from the working tree's source (go/ast), the struct shapes by reflection: the generator follows the tree",
			"generated values are in the normal form a decode produces (Iei of optional members = the message's constant, Len = actual length, array octets beyond Len zero)",
			"value lengths stay within each member's capacity (255 for 1-octet lengths, array size, 1500 for 2-octet lengths)",
		},
		N: func(t string) int {
			if t == "thorough" {
				return 45 * 40000
			}
			return 45 * 2000
		},
		Batch: 4500,
		Run:   runC08,
	})
}

func nasEncodeVia(nv *nasValue) (b []byte, err error) {
	if nv.Desc.Name == "SecurityProtected5GSNASMessage" {
		buf := new(bytes.Buffer)
		nv.Msg.MethodByName("Encode" + nv.Desc.Name).Call([]reflect.Value{reflect.ValueOf(buf)})
		return buf.Bytes(), nil
	}
	return nv.wrap().PlainNasEncode()
}

func nasDecodeVia(d *nasdesc.Msg, b []byte) (reflect.Value, error) {
	bb := append([]byte(nil), b...)
	// the receive buffer is reused by the caller after the decode (as the emulator does with its 2048-octet buffer):
	// a decoded message must not change when that happens
	defer func() {
		for i := range bb {
			bb[i] = 0xAA
		}
	}()
	if d.Name == "SecurityProtected5GSNASMessage" {
		p := reflect.New(d.Typ)
		p.MethodByName("Decode" + d.Name).Call([]reflect.Value{reflect.ValueOf(&bb)})
		return p, nil
	}
	m := nas.NewMessage()
	if err := m.PlainNasDecode(&bb); err != nil {
		return reflect.Value{}, err
	}
	v := unwrap(m, d)
	if !v.IsValid() || v.IsNil() {
		return reflect.Value{}, fmt.Errorf("decoded into another message type")
	}
	return v, nil
}

func subsetMask(c *fw.Case, k int) uint64 {
	if k == 0 {
		return 0
	}
	round := c.Idx / 45
	if k <= 10 {
		return uint64(round % (1 << uint(k)))
	}
	all := uint64(1)<<uint(k) - 1
	switch sel := round % (2*k + 6); {
	case sel == 0:
		return 0
	case sel == 1:
		return all
	case sel < 2+k:
		return 1 << uint(sel-2)
	case sel < 2+2*k:
		return all &^ (1 << uint(sel-2-k))
	}
	return c.R.Uint64() & all
}

func runC08(c *fw.Case) (o fw.Outcome) {
	ds, err := nasdesc.Load()
	if err != nil {
		o.Inconcl("cannot read the NAS message descriptors from the working tree: %v", err)
		return
	}
	if len(ds) != 45 {
		o.Fail("message-count", "the library knows %d NAS message types, the property speaks of 45", len(ds))
		return
	}
	d := &ds[c.Idx%len(ds)]
	r := c.R
	opts := d.Optionals()
	k := len(opts)
	mask := subsetMask(c, k)
	nv := genNas(r, d, mask, nil)
	o.Tag("msg:" + d.Name)
	npres := 0
	for i := 0; i < k; i++ {
		if mask&(1<<uint(i)) != 0 {
			npres++
			o.Tag("ie:" + d.Name + "." + opts[i].Name)
		}
	}
	// aimed remainders: the number of octets still unread when an IE's length field is examined is a multiple of 256 (or
	// a few octets off): byte counters narrowed to 8 bits compare against 0 there. The last present two-octet-length IE
	// is stretched so that the part of the message after a chosen optional IE has exactly that size.
	if npres >= 2 && c.Idx%4 == 3 {
		var present []int
		for i := 0; i < k; i++ {
			if mask&(1<<uint(i)) != 0 {
				present = append(present, i)
			}
		}
		last := -1
		for _, i := range present {
			f := nv.Msg.Elem().Field(opts[i].Index)
			if memberCapacity(opts[i].Type) > 255 && !f.IsNil() {
				last = i
			}
		}
		cut := present[r.Intn(len(present)-1)] // boundary: everything after optional IE "cut"
		wrap16 := (c.Idx/4)%4 == 1             // by index: one aimed case in four aims at a multiple of 65536
		if r.Intn(len(present)) == 0 || wrap16 && (c.Idx/16)%2 == 0 {
			cut = -1 // everything after the mandatory part: what is left when the FIRST optional IE is examined
		}
		if last > cut {
			full, e1 := nasEncodeVia(nv)
			head, e2 := nasEncodeVia(genCopyWithMask(nv, mask&(1<<uint(cut+1)-1)))
			if e1 == nil && e2 == nil && len(full) >= len(head) {
				suffix := len(full) - len(head)
				delta := ((-suffix+r.Intn(9)-4)%256 + 256) % 256
				if r.Intn(3) == 0 {
					delta += 256 * (1 + r.Intn(3))
				}
				if wrap16 && suffix < 65536 { // ... or a multiple of 65536: counters narrowed to 16 bits (offsets -2 .. +13 in turn)
					delta = 65536 + (c.Idx/32)%16 - 2 - suffix
					o.Tag("aimed-remainder-65536")
				}
				f := nv.Msg.Elem().Field(opts[last].Index).Elem()
				_, ln, _, buffer := memberFields(opts[last].Type)
				if ln >= 0 && buffer >= 0 {
					nb := append(append([]byte(nil), f.Field(buffer).Bytes()...), fillBytes(r, delta)...)
					if len(nb) <= 65535 {
						f.Field(buffer).SetBytes(nb)
						f.Field(ln).SetUint(uint64(len(nb)))
						o.Tag("aimed-remainder-multiple-of-256")
					}
				}
			}
		}
	}
	b, err := nasEncodeVia(nv)
	if m := retainCheck("nas-encode", b, d.Name); m != "" {
		o.Fail("retained-encoding-changed", "%s", m)
		return
	}
	o.Digest = fw.Hash([]byte(d.Name), b)
	o.Nontrivial = npres > 0 || len(b) > 4
	o.Input = fmt.Sprintf("%s optional-mask=%0*b encoding=%x", d.Name, k, mask, clip(b, 120))
	o.Max("largest_message_octets", int64(len(b)))
	if err != nil {
		o.Fail("encode-error:"+d.Name, "PlainNasEncode of a well-formed %s fails: %v", d.Name, err)
		return
	}
	o.Count("messages", 1)
	v1, err := nasDecodeVia(d, b)
	if err != nil {
		o.Fail("decode-error:"+d.Name, "decode of the encoding of a well-formed %s fails: %v\n %x", d.Name, err, clip(b, 200))
		return
	}
	nv1 := &nasValue{Desc: d, Msg: v1}
	b1, err := nasEncodeVia(nv1)
	if diff := compareContent(d, nv.Msg.Elem(), v1.Elem()); diff != "" {
		// a difference that the wire does not carry (spare octets of a fixed backing array) is representation slack:
		// it is a loss only if the two values also encode differently
		if err != nil || !bytes.Equal(b1, b) || strings.HasPrefix(diff, "optional IE") {
			o.Fail("lossy:"+d.Name, "%s does not survive encode+decode: %s\n encoding %x", d.Name, diff, clip(b, 200))
			return
		}
		o.Count("representation_slack_cases", 1)
	}
	if err != nil || !bytes.Equal(b1, b) {
		o.Fail("reencode:"+d.Name, "encoding what was decoded gives other bytes (err %v) at octet %d\n first  %x\n second %x", err, firstDiff(b, b1), clip(b, 200), clip(b1, 200))
		return
	}
	v2, err := nasDecodeVia(d, b1)
	if err != nil || !deepEqualNorm(v1, v2) {
		o.Fail("not-idempotent:"+d.Name, "decoding the re-encoded %s gives a different struct (err %v)", d.Name, err)
		return
	}
	// ---- any order of the optional IEs
	if npres >= 2 {
		base := genCopyWithMask(nv, 0)
		b0, _ := nasEncodeVia(base)
		var chunks [][]byte
		ok := true
		for i := 0; i < k; i++ {
			if mask&(1<<uint(i)) == 0 {
				continue
			}
			one := genCopyWithMask(nv, 1<<uint(i))
			bi, _ := nasEncodeVia(one)
			if !bytes.HasPrefix(bi, b0) {
				ok = false
				break
			}
			chunks = append(chunks, bi[len(b0):])
		}
		if ok {
			for rep := 0; rep < 3; rep++ {
				r.Shuffle(len(chunks), func(i, j int) { chunks[i], chunks[j] = chunks[j], chunks[i] })
				p := append([]byte(nil), b0...)
				for _, ch := range chunks {
					p = append(p, ch...)
				}
				vp, err := nasDecodeVia(d, p)
				if err != nil {
					o.Fail("order:"+d.Name, "%s with its optional IEs in another order is rejected: %v\n %x", d.Name, err, clip(p, 200))
					return
				}
				if diff := compareContent(d, v1.Elem(), vp.Elem()); diff != "" {
					o.Fail("order:"+d.Name, "%s with its optional IEs in another order is not recognised: %s\n permuted %x", d.Name, diff, clip(p, 200))
					return
				}
				bp, _ := nasEncodeVia(&nasValue{Desc: d, Msg: vp})
				if !bytes.Equal(bp, b) {
					o.Fail("order-reencode:"+d.Name, "re-encoding the permuted %s does not give the canonical order", d.Name)
					return
				}
				o.Count("permutations", 1)
			}
		}
	}
	// ---- unknown message types / EPDs
	if c.Idx%45 == 0 {
		known := map[[2]byte]bool{}
		for _, x := range ds {
			e := byte(0x7e)
			if x.Gsm {
				e = 0x2e
			}
			known[[2]byte{e, x.MsgType}] = true
		}
		for t := 0; t < 256; t++ {
			for _, e := range []byte{0x7e, 0x2e} {
				if known[[2]byte{e, byte(t)}] {
					continue
				}
				var in []byte
				if e == 0x7e {
					in = append([]byte{e, 0, byte(t)}, rbytes(r, 8)...)
				} else {
					in = append([]byte{e, 1, 2, byte(t)}, rbytes(r, 8)...)
				}
				m := nas.NewMessage()
				if err := m.PlainNasDecode(&in); err == nil {
					o.Fail("unknown-type-accepted", "PlainNasDecode accepts unknown message type %#x (EPD %#x)", t, e)
					return
				}
				o.Count("unknown_types_refused", 1)
			}
		}
		for _, e := range []byte{0x00, 0x2f, 0x7d, 0x7f, 0xff, byte(r.Intn(256))} {
			if e == 0x7e || e == 0x2e {
				continue
			}
			in := append([]byte{e, 0, 0x41}, rbytes(r, 8)...)
			m := nas.NewMessage()
			if err := m.PlainNasDecode(&in); err == nil {
				o.Fail("unknown-epd-accepted", "PlainNasDecode accepts extended protocol discriminator %#x", e)
				return
			}
		}
	}
	return
}

// genCopyWithMask returns a copy of nv in which only the optional members selected by sub (relative to the members
// present in nv) are kept.
func genCopyWithMask(nv *nasValue, sub uint64) *nasValue {
	cp := reflect.New(nv.Desc.Typ)
	cp.Elem().Set(nv.Msg.Elem())
	oi := 0
	for _, mem := range nv.Desc.Members {
		if !mem.Optional {
			continue
		}
		if sub&(1<<uint(oi)) == 0 {
			cp.Elem().Field(mem.Index).Set(reflect.Zero(cp.Elem().Field(mem.Index).Type()))
		}
		oi++
	}
	return &nasValue{Desc: nv.Desc, Msg: cp}
}
