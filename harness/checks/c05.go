package checks

import (
	"bytes"
	"crypto/aes"
	"fmt"
	"math/rand"
	"strings"

	"tglib"

	"vh/fw"
	"vh/ref/sec"
)

var c05Prev struct{ k, op, rnd, sqn []byte }

var c05Record = tglib.GetAuthSubscription("", "", "")

// C05 — RES* and the NAS key hierarchy installed by DeriveRESstarAndSetKey equal what the network derives
// (independent Milenage + TS 33.501 Annex A chain in ref/sec); OP-only gives the same as OPc-only.
func init() {
	fw.Register(&fw.Check{
		ID:    "C05",
		Level: "exploration",
		Rule: "case = (K, OP and/or OPc, RAND, AUTN from (SQN, AMF field), MCC, MNC of 2|3 digits, SUPI of 5..15 digits, ciphering id 0..3, integrity id 0..3); " +
			"structured corners by index: all-zero / all-FF / single-bit K and RAND, upper/lower-case hex, leading-zero MNC. Each case runs the real derivation three times (OP only, OPc only, both) " +
			"and compares RES*, K_AMF, K_NASint, K_NASenc with ref/sec. Further families by case index: one case in four a SECOND challenge on the same context (RAND / SQN kept or renewed, K sometimes re-provisioned); one in 32 a RAND constructed so that AK, CK or IK is all zero; KDF inputs that read as text; inputs resembling the previous case; one subscription record reused. distinct = hash of all inputs; every case is non-trivial",
		Assumptions: []string{
			"serving network name is built as stgutg.RegisterUE builds it (5G:mnc<3 digits>.mcc<3 digits>.3gppnetwork.org)",
			"ABBA 0x0000; SUPI digits are P0 of the K_AMF derivation",
			"ref/sec self-tested against TS 35.207/208 Milenage sets and structural KDF checks at start",
		},
		N: func(t string) int {
			if t == "thorough" {
				return 6000000
			}
			return 200000
		},
		Batch: 20000,
		Init:  sec.SelfTest,
		Run:   runC05,
	})
}

func runC05(c *fw.Case) (o fw.Outcome) {
	r := c.R
	k := cornerBytes(r, 16)
	op := cornerBytes(r, 16)
	rnd := cornerBytes(r, 16)
	switch c.Idx % 64 { // structured single-bit sweeps by index
	case 1:
		k = make([]byte, 16)
		bit := (c.Idx / 64) % 128
		k[bit/8] = 0x80 >> uint(bit%8)
	case 2:
		rnd = make([]byte, 16)
		bit := (c.Idx / 64) % 128
		rnd[bit/8] = 0x80 >> uint(bit%8)
	}
	sqn := cornerBytes(r, 6)
	// one case in three RESEMBLES the previous case of this process: a random subset of (K, OP, RAND, SQN) is carried over,
	// possibly with one bit changed - two subscribers of one operator, one subscriber challenged twice, the same challenge
	// replayed to another subscriber. A derivation is a function of its arguments, not of its predecessor.
	if c.Idx%3 == 1 && c05Prev.k != nil {
		for i, f := range []*[]byte{&k, &op, &rnd, &sqn} {
			if r.Intn(2) == 0 {
				*f = append([]byte(nil), [][]byte{c05Prev.k, c05Prev.op, c05Prev.rnd, c05Prev.sqn}[i]...)
				if r.Intn(3) == 0 {
					(*f)[r.Intn(len(*f))] ^= 1 << uint(r.Intn(8))
				}
			}
		}
		o.Tag("resembles-previous-case")
	}
	c05Prev.k, c05Prev.op, c05Prev.rnd, c05Prev.sqn = k, op, rnd, sqn
	opc := sec.ComputeOPc(k, op)
	amf := []byte{0x80, 0x00}
	if r.Intn(2) == 0 {
		amf = rbytes(r, 2)
		amf[0] |= 0x80
	}
	if c.Idx%16 == 9 {
		// inputs that READ AS TEXT in some notation (hexadecimal with a 0x prefix, decimal, a keyword, a trailing line end, a
		// byte order mark in front of valid UTF-8, UTF-16, percent or base64 encoding, quotes, padding blanks, multi-octet characters):
		// RAND as it is, and SQN chosen so that SQN xor AK - the first six octets of AUTN, a KDF parameter - is such text
		if r.Intn(2) == 0 {
			copy(rnd, pick(r, "0x"+strings.ToUpper(hexs(rbytes(r, 7))), hexs(rbytes(r, 8)), digits(r, 16), "0123456789abcde\n", "true            "))
			opc = sec.ComputeOPc(k, op)
		}
		_, _, _, ak0, _ := sec.F2345(k, opc, rnd)
		want := []byte(pick(r, "0x1A2b", "0Xffff", "0x0000", "123456", "true\n\n", "abcdef", "ABCDEF", "65535\n", "\r\n\r\n\r\n", "0b0101", "1e1000",
			"\xef\xbb\xbf123", "\xef\xbb\xbf\x00\xc3\xa9", "\xfe\xff\x001\x002", "\xff\xfe1\x002\x00", "%41%42", "\"abcd\"", " 1234 ", "QUJD\n\n", "a\x00\x00\x00\x00\x00", "\xc3\xa9\xc3\xa9\xc3\xa9", "\xe2\x82\xac\xe2\x82\xac"))
		for i := range sqn {
			sqn[i] = want[i] ^ ak0[i]
		}
		o.Tag("kdf-inputs-read-as-text")
	}
	if c.Idx%32 == 21 {
		// a RAND for which a whole MILENAGE output is ZERO for this subscriber: AK (f5, 48 bits), CK (f3) or IK (f4). No
		// search finds one (2^-48 .. 2^-128 per RAND); it is constructed by running the block cipher backwards from the output.
		// Zero is a legal value of a key like any other.
		which := []string{"ak", "ck", "ik", "ak"}[(c.Idx/32)%4]
		if z := zeroOutputRAND(k, opc, which, r); z != nil {
			rnd = z
			_, ck0, ik0, ak0, _ := sec.F2345(k, opc, rnd)
			got := map[string][]byte{"ak": ak0, "ck": ck0, "ik": ik0}[which]
			if !bytes.Equal(got, make([]byte, len(got))) {
				o.Inconcl("harness: constructed RAND does not give an all-zero %s under the reference (%x)", which, got)
				return
			}
			o.Tag("rand-with-all-zero-" + which)
		}
	}
	autn := sec.GenerateAUTN(k, opc, rnd, sqn, amf)
	mcc := digits(r, 3)
	mnc := digits(r, 2+r.Intn(2))
	if r.Intn(4) == 0 {
		mnc = "0" + mnc[1:]
	}
	supi := digits(r, 5+r.Intn(11))
	if r.Intn(3) != 0 {
		supi = mcc + mnc + digits(r, 15-3-len(mnc))
	}
	cAlg, iAlg := uint8(r.Intn(4)), uint8(r.Intn(4))
	enc := func(b []byte) string {
		s := hexs(b)
		if r.Intn(2) == 0 {
			return strings.ToUpper(s)
		}
		return s
	}
	kS, opS, opcS := enc(k), enc(op), enc(opc)
	o.Input = kv("k", kS, "op", opS, "opc", opcS, "rand", hexs(rnd), "sqn", hexs(sqn), "amf", hexs(amf), "autn", hexs(autn), "mcc", mcc, "mnc", mnc, "supi", supi, "nea", cAlg, "nia", iAlg)
	o.Digest = fw.Hash(k, op, rnd, autn, []byte(mcc+"/"+mnc+"/"+supi), []byte{cAlg, iAlg})
	o.Nontrivial = true
	o.Tag(fmt.Sprintf("mnc%d", len(mnc)), fmt.Sprintf("nea%d", cAlg), fmt.Sprintf("nia%d", iAlg), fmt.Sprintf("supi%d", len(supi)))

	// what the network derives
	res, ck, ik, ak, _ := sec.F2345(k, opc, rnd)
	_ = ak
	snn := sec.SNName(mcc, mnc)
	wantRes := sec.RESStar(ck, ik, snn, rnd, res)
	kausf := sec.KAUSF(ck, ik, snn, autn[:6])
	kseaf := sec.KSEAF(kausf, snn)
	kamf := sec.KAMF(kseaf, supi, []byte{0, 0})
	wantEnc := sec.NASAlgKey(kamf, 0x01, cAlg)
	wantInt := sec.NASAlgKey(kamf, 0x02, iAlg)

	// the emulator's serving network name
	var snName string
	if len(mnc) == 2 {
		snName = "5G:mnc0" + mnc + ".mcc" + mcc + ".3gppnetwork.org"
	} else {
		snName = "5G:mnc" + mnc + ".mcc" + mcc + ".3gppnetwork.org"
	}
	var autnA [16]byte
	copy(autnA[:], autn)
	for vi, variant := range []struct{ name, opc, op string }{{"OP+OPc", opcS, opS}, {"OPc only", opcS, ""}, {"OP only", "", opS}} {
		ue := tglib.NewRanUeContext("imsi-"+supi, 1, cAlg, iAlg)
		ue.AuthenticationSubs = tglib.GetAuthSubscription(kS, variant.opc, variant.op)
		if c.Idx%4 == 2 {
			// a provisioning loop's way: ONE subscription record for the whole process, its fields overwritten per subscriber.
			// The result must depend on what the record holds now, and the derivation must not write into it.
			c05Record.PermanentKey.PermanentKeyValue, c05Record.Opc.OpcValue, c05Record.Milenage.Op.OpValue = kS, variant.opc, variant.op
			ue.AuthenticationSubs = c05Record
			o.Tag("subscription-record-reused")
		}
		subsWas := fmt.Sprintf("%+v %+v %+v %+v", ue.AuthenticationSubs, *ue.AuthenticationSubs.PermanentKey, *ue.AuthenticationSubs.Opc, *ue.AuthenticationSubs.Milenage.Op)
		rview, rdmg := guarded(r, rnd)
		gotRes := ue.DeriveRESstarAndSetKey(ue.AuthenticationSubs, autnA, rview, snName, mnc, mcc)
		o.Count("derivations", 1)
		if now := fmt.Sprintf("%+v %+v %+v %+v", ue.AuthenticationSubs, *ue.AuthenticationSubs.PermanentKey, *ue.AuthenticationSubs.Opc, *ue.AuthenticationSubs.Milenage.Op); now != subsWas {
			o.Fail("subscription-written", "DeriveRESstarAndSetKey (%s) changed the caller's subscription data:\n before %s\n after  %s", variant.name, subsWas, now)
			return
		}
		if d := rdmg(false); d != "" {
			o.Fail("rand-buffer-written", "DeriveRESstarAndSetKey (%s): %s", variant.name, d)
			return
		}
		if m := retainCheck("res-star", gotRes, o.Input); m != "" {
			o.Fail("retained-result-changed", "%s", m)
			return
		}
		if m := retainCheck("kamf", ue.Kamf, o.Input); m != "" {
			o.Fail("retained-result-changed", "%s", m)
			return
		}
		_ = vi
		switch {
		case !bytes.Equal(gotRes, wantRes):
			o.Fail("res-star:"+variant.name, "%s: RES* %x, network derives %x", variant.name, gotRes, wantRes)
		case !bytes.Equal(ue.Kamf, kamf):
			o.Fail("kamf:"+variant.name, "%s: K_AMF %x, network derives %x", variant.name, ue.Kamf, kamf)
		case !bytes.Equal(ue.KnasInt[:], wantInt):
			o.Fail("knasint:"+variant.name, "%s: K_NASint %x, network derives %x (NIA%d)", variant.name, ue.KnasInt, wantInt, iAlg)
		case !bytes.Equal(ue.KnasEnc[:], wantEnc):
			o.Fail("knasenc:"+variant.name, "%s: K_NASenc %x, network derives %x (NEA%d)", variant.name, ue.KnasEnc, wantEnc, cAlg)
		}
		if o.Failed() {
			return
		}
		if c.Idx%4 == 3 {
			// the SAME context is challenged again (re-authentication of a registered UE, a retransmitted or re-issued
			// challenge): RAND and SQN each kept or renewed, now and then for a re-provisioned K. What the second run leaves in
			// the context is a function of the second run's arguments.
			rnd2, sqn2, k2 := rnd, sqn, k
			mode := r.Intn(4)
			if mode&1 != 0 {
				rnd2 = cornerBytes(r, 16)
			}
			if mode&2 != 0 || mode == 0 && r.Intn(2) == 0 {
				sqn2 = cornerBytes(r, 6)
			}
			if r.Intn(4) == 0 {
				k2 = cornerBytes(r, 16)
			}
			opc2 := sec.ComputeOPc(k2, op)
			autn2 := sec.GenerateAUTN(k2, opc2, rnd2, sqn2, amf)
			res2, ck2, ik2, _, _ := sec.F2345(k2, opc2, rnd2)
			wantRes2 := sec.RESStar(ck2, ik2, snn, rnd2, res2)
			kamf2 := sec.KAMF(sec.KSEAF(sec.KAUSF(ck2, ik2, snn, autn2[:6]), snn), supi, []byte{0, 0})
			var a2 [16]byte
			copy(a2[:], autn2)
			subs2 := tglib.GetAuthSubscription(hexs(k2), hexs(opc2), "")
			got2 := ue.DeriveRESstarAndSetKey(subs2, a2, append([]byte(nil), rnd2...), snName, mnc, mcc)
			o.Count("second_derivations_on_the_same_context", 1)
			what := fmt.Sprintf("second challenge on the same context (RAND %s, SQN %s, K %s)", sameOr(rnd, rnd2), sameOr(sqn, sqn2), sameOr(k, k2))
			switch {
			case !bytes.Equal(got2, wantRes2):
				o.Fail("res-star:second-challenge", "%s: RES* %x, network derives %x", what, got2, wantRes2)
			case !bytes.Equal(ue.Kamf, kamf2):
				o.Fail("kamf:second-challenge", "%s: K_AMF %x, network derives %x", what, ue.Kamf, kamf2)
			case !bytes.Equal(ue.KnasInt[:], sec.NASAlgKey(kamf2, 0x02, iAlg)):
				o.Fail("knasint:second-challenge", "%s: K_NASint %x, network derives %x", what, ue.KnasInt, sec.NASAlgKey(kamf2, 0x02, iAlg))
			case !bytes.Equal(ue.KnasEnc[:], sec.NASAlgKey(kamf2, 0x01, cAlg)):
				o.Fail("knasenc:second-challenge", "%s: K_NASenc %x, network derives %x", what, ue.KnasEnc, sec.NASAlgKey(kamf2, 0x01, cAlg))
			}
			if o.Failed() {
				return
			}
		}
	}
	return
}

func sameOr(a, b []byte) string {
	if bytes.Equal(a, b) {
		return "the same"
	}
	return "another"
}

// zeroOutputRAND inverts MILENAGE (TS 35.206: TEMP = E_K(RAND xor OPc); OUTn = E_K(rot(TEMP xor OPc, rn) xor cn) xor OPc
// with r2 = 0, r3 = 32, r4 = 64 bits and c2 = ..01, c3 = ..02, c4 = ..04) for an output whose AK (first six octets of
// OUT2), CK (OUT3) or IK (OUT4) is zero. The standard library's AES does the backward steps; the verdict on the result
// stays with ref/sec.
func zeroOutputRAND(k, opc []byte, which string, r *rand.Rand) []byte {
	blk, err := aes.NewCipher(k)
	if err != nil {
		return nil
	}
	out := make([]byte, 16)
	rot, cn := 0, byte(1)
	switch which {
	case "ak":
		copy(out[6:], rbytes(r, 10)) // the rest of OUT2 (RES among it) is free
	case "ck":
		rot, cn = 4, 2
	case "ik":
		rot, cn = 8, 4
	}
	x := make([]byte, 16)
	for i := range x {
		x[i] = out[i] ^ opc[i]
	}
	blk.Decrypt(x, x) // = rot(TEMP xor OPc, r) xor c
	x[15] ^= cn
	t := make([]byte, 16)
	for i := range t { // undo the rotation to the left by rot octets
		t[(i+rot)%16] = x[i]
	}
	for i := range t {
		t[i] ^= opc[i] // TEMP
	}
	blk.Decrypt(t, t)
	for i := range t {
		t[i] ^= opc[i]
	}
	return t
}
