package checks

import (
	"fmt"
	"time"

	"vh/fw"
	"vh/procdrv"
	"vh/ref/per"
	"vh/ref/sec"
	"vh/refamf"
)

// C01 — NG Setup and 5G-AKA initial registration of the unmodified emulator process (main() included) against the
// reference AMF: every uplink message is decoded independently and checked against the trace specification.
func init() {
	fw.Register(&fw.Check{
		ID:    "C01",
		Level: "exploration",
		Rule: "case = one emulator process in test mode (ue_registration R in {1,2} quick / 1..4 thorough, other counts 0) with a generated valid configuration (IMSI of 14/15 digits, 2|3-digit MNC incl. leading zeros, K, OP only / OPc only / both, " +
			"gNB id of 22..32 bits, name of 1..150 characters, three YAML quoting styles) against a reference AMF whose choices (RAND, SQN, AMF field, AMF-UE-NGAP-IDs at power-of-two boundaries, ngKSI 0..6, optional downlink IEs, Registration Accept options, backupAMFName) " +
			"come from the case PRNG. Verdict: first check of the trace specification that fails, else emulator exit status and completion banner. One trailing IE of a later specification version (ids 146 / 147 / above 164) ends the INITIAL CONTEXT SETUP REQUEST / NG SETUP RESPONSE in three cases of five; home-network digits repeated inside the MSIN; host names as address values. distinct = hash(configuration, AMF choices); all non-trivial",
		Assumptions: []string{
			"AF_UNIX/SOCK_SEQPACKET stands in for SCTP (hook: build tag verif, ConnectToAmf adopts an inherited socket)",
			"the AMF only sends IEs the Release-15 schema of the library knows and sends a Configuration Update Command after Registration Complete (the emulator waits for a fourth downlink message, as Open5GS sends one)",
			"the emulator offers NEA0/NIA2 only; other algorithm pairs are covered by C06/C10",
		},
		N: func(t string) int {
			if t == "thorough" {
				return 3000
			}
			return 96
		},
		InProcess: true,
		Workers:   func(string) int { return 32 },
		Init: func() error {
			if err := per.SelfTest(); err != nil {
				return err
			}
			return sec.SelfTest()
		},
		Run: runC01,
	})
}

func runC01(c *fw.Case) (o fw.Outcome) {
	r := c.R
	cfg := genEmuConfig(r)
	cfg.Reg = 1 + r.Intn(2)
	if c.Thorough() && r.Intn(4) == 0 {
		cfg.Reg = 3 + r.Intn(2)
	}
	ch := genChoices(r, cfg.Reg)
	if c.Idx%6 == 4 { // a slow, but conformant AMF: its own procedure after the registration starts 6.5 s later
		ch.AfterRegDelay, ch.AfterRegMsg = 6500*time.Millisecond, 0
		if cfg.Reg < 2 {
			cfg.Reg = 2
			ch = genChoices(r, cfg.Reg)
			ch.AfterRegDelay, ch.AfterRegMsg = 6500*time.Millisecond, 0
		}
		o.Tag("after-registration-message-late")
	}
	sp := procdrv.Spec{Cfg: cfg, Choices: ch, Fault: refamf.Fault{At: -1}, Args: []string{"-t"}, Watchdog: 30*time.Second + 10*nominalDuration(cfg)}
	res := procdrv.Run(workDir(), emuPath(), sp)
	o.Input = fmt.Sprintf("config=%s amf_ids=%v ngksi=%d extra_ies=%v reg_accept_opts=%05b backup_amf_name=%v", cfgSummary(cfg), ch.AmfIDs, ch.NgKSI, ch.ExtraDLIEs, ch.RegAcceptOpts, ch.BackupAMFName)
	o.Digest = fw.HashS(o.Input)
	o.Nontrivial = true
	o.Tag(fmt.Sprintf("mnc%d", len(cfg.MNC)), fmt.Sprintf("imsi%d", len(cfg.IMSI)), fmt.Sprintf("gnbbits=%d", cfg.GnbBits), fmt.Sprintf("R=%d", cfg.Reg))
	switch {
	case cfg.OPC == "":
		o.Tag("op-only")
	case cfg.OP == "":
		o.Tag("opc-only")
	default:
		o.Tag("op+opc")
	}
	judgeRun(&o, res, true)
	if o.Failed() || o.Verdict == fw.Inconclusive {
		return
	}
	if res.AMF.RegDone != cfg.Reg {
		o.Fail("registrations-missing", "%d registration(s) completed at the AMF, %d configured\n conversation:%s", res.AMF.RegDone, cfg.Reg, conversationSummary(res.AMF, 60))
		return
	}
	o.Count("registrations_completed", int64(res.AMF.RegDone))
	o.Input += " conversation:" + conversationSummary(res.AMF, 14)
	return
}
