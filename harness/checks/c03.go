package checks

import (
	"bytes"
	"encoding/json"
	"fmt"
	"math/rand"
	"reflect"
	"runtime/debug"
	"sort"
	"strings"
	"sync"

	"free5gclib/aper"
	"free5gclib/ngap/ngapType"

	"vh/fw"
	"vh/gen/ngapgen"
	"vh/ref/per"
)

// C03 — NGAP encoding equals the X.691 ALIGNED PER encoding computed by the independent reference (ref/per),
// and out-of-constraint values are refused.
func init() {
	fw.Register(&fw.Check{
		ID:    "C03",
		Level: "exploration",
		Rule: "idx%10 in 0..5: a generated constraint-satisfying PDU of NGAP message (idx cycles through all (class,procedure) alternatives), library bytes == ref/per bytes; " +
			"6: a transfer / transparent container encoded with \"valueExt\"; 7,8: one component perturbed out of its constraint, library must return an error; " +
			"9: primitive sweep of one tag shape harvested from ngapType (all values of ranges <= 2^16 in thorough, boundaries otherwise) at bit offsets 0..7, or a >=16K fragmentation case. " +
			"distinct = hash of the reference encoding (or of the perturbation); non-trivial = encoding longer than 4 octets, or a primitive chunk with >= 8 evaluations",
		Assumptions: []string{
			"the ASN.1 schema the reference works from is a SNAPSHOT of the ngapType constraint tags (2823 fields, harness/ref/per/ngap_schema_snapshot.json) taken from the pinned tree after the tag defects found by C03/C04 were repaired; the library reads the live tags, so a changed tag shows as a wire difference and as schema-drift:<Type.Field> in case 0. A correction of a tag that the snapshot has wrong would be reported too and has to be adjudicated (update the snapshot)",
			"a hand-written table of the TS 38.413 constraints of ~50 types on the emulator's path is asserted against the live tags in case 0",
			"ref/per (self-tested against hand-derived X.691 encodings at start) is the oracle",
			"a zero-length octet-aligned field causes no padding",
			"ENUMERATED / CHOICE extension additions are not expressible in the Go types and are not generated",
		},
		N: func(t string) int {
			if t == "thorough" {
				return 2000000
			}
			return 60000
		},
		Batch: 3000,
		Init:  per.SelfTest,
		Run:   runC03,
	})
}

// expected tags, typed in from TS 38.413 9.4.5 (field Value / List of the wrapper type)
var schemaTable = map[string]string{
	"ProcedureCode": "valueLB:0,valueUB:255", "ProtocolIEID": "valueLB:0,valueUB:65535", "Criticality": "valueLB:0,valueUB:2",
	"AMFUENGAPID": "valueLB:0,valueUB:1099511627775", "RANUENGAPID": "valueLB:0,valueUB:4294967295", "PDUSessionID": "valueLB:0,valueUB:255",
	"NASPDU": "", "PLMNIdentity": "sizeLB:3,sizeUB:3", "TAC": "sizeLB:3,sizeUB:3", "NRCellIdentity": "sizeLB:36,sizeUB:36",
	"EUTRACellIdentity": "sizeLB:28,sizeUB:28", "RANNodeName": "sizeExt,sizeLB:1,sizeUB:150", "AMFName": "sizeExt,sizeLB:1,sizeUB:150",
	"TransportLayerAddress": "sizeExt,sizeLB:1,sizeUB:160", "GTPTEID": "sizeLB:4,sizeUB:4", "QosFlowIdentifier": "valueExt,valueLB:0,valueUB:63",
	"BitRate": "valueExt,valueLB:0,valueUB:4000000000000", "SST": "sizeLB:1,sizeUB:1", "SD": "sizeLB:3,sizeUB:3",
	"PagingDRX": "valueExt,valueLB:0,valueUB:3", "RRCEstablishmentCause": "valueExt,valueLB:0,valueUB:9", "UEContextRequest": "valueExt,valueLB:0,valueUB:0",
	"RelativeAMFCapacity": "valueLB:0,valueUB:255", "AMFRegionID": "sizeLB:8,sizeUB:8", "AMFSetID": "sizeLB:10,sizeUB:10", "AMFPointer": "sizeLB:6,sizeUB:6",
	"FiveGTMSI": "sizeLB:4,sizeUB:4", "TimeStamp": "sizeLB:4,sizeUB:4", "PDUSessionType": "valueExt,valueLB:0,valueUB:4",
	"RepetitionPeriod": "valueLB:0,valueUB:131071", "NumberOfBroadcastsRequested": "valueLB:0,valueUB:65535", "MaskedIMEISV": "sizeLB:64,sizeUB:64",
	"SecurityKey": "sizeLB:256,sizeUB:256", "NRencryptionAlgorithms": "sizeExt,sizeLB:16,sizeUB:16", "RATRestrictionInformation": "sizeExt,sizeLB:8,sizeUB:8",
	"PriorityLevelQos": "valueExt,valueLB:1,valueUB:127", "FiveQI": "valueExt,valueLB:0,valueUB:255", "PriorityLevelARP": "valueLB:1,valueUB:15",
	"AveragingWindow": "valueExt,valueLB:0,valueUB:4095", "MaximumDataBurstVolume": "valueExt,valueLB:0,valueUB:4095",
	"PacketDelayBudget": "valueExt,valueLB:0,valueUB:1023", "PacketLossRate": "valueExt,valueLB:0,valueUB:1000",
	"SupportedTAList": "valueExt,sizeLB:1,sizeUB:256", "BroadcastPLMNList": "valueExt,sizeLB:1,sizeUB:12", "SliceSupportList": "valueExt,sizeLB:1,sizeUB:1024",
	"AllowedNSSAI": "valueExt,sizeLB:1,sizeUB:8", "PDUSessionResourceSetupListSUReq": "valueExt,sizeLB:1,sizeUB:256", "QosFlowSetupRequestList": "valueExt,sizeLB:1,sizeUB:64",
	"PDUSessionResourceSetupListSURes": "valueExt,sizeLB:1,sizeUB:256", "PDUSessionResourceReleasedListRelRes": "valueExt,sizeLB:1,sizeUB:256",
	"PDUSessionResourceSetupListCxtRes": "valueExt,sizeLB:1,sizeUB:256", "PDUSessionResourceToReleaseListRelCmd": "valueExt,sizeLB:1,sizeUB:256",
	"PDUSessionResourceListCxtRelCpl":          "valueExt,sizeLB:1,sizeUB:256",
	"ProtocolIEContainerUplinkNASTransportIEs": "sizeLB:0,sizeUB:65535", "ProtocolIEContainerNGSetupRequestIEs": "sizeLB:0,sizeUB:65535",
	"ProtocolIEContainerInitialUEMessageIEs": "sizeLB:0,sizeUB:65535", "ProtocolIEContainerDownlinkNASTransportIEs": "sizeLB:0,sizeUB:65535",
}

// schemaTypes: name -> type, harvested from everything reachable from NGAP-PDU and the transfer types.
var (
	harvestOnce sync.Once
	namedTypes  map[string]reflect.Type
	leafShapes  []leafShape
)

type leafShape struct {
	Kind string // int, enum, bits, octets, string
	Tag  string
	Typ  reflect.Type
}

func harvest() {
	harvestOnce.Do(func() {
		namedTypes = map[string]reflect.Type{}
		seen := map[reflect.Type]bool{}
		shapes := map[string]leafShape{}
		var walk func(t reflect.Type, tag string)
		walk = func(t reflect.Type, tag string) {
			for t.Kind() == reflect.Ptr {
				t = t.Elem()
			}
			add := func(kind string) {
				tg := normTag(tag)
				shapes[kind+"|"+tg] = leafShape{kind, tg, t}
			}
			switch {
			case t.Name() == "BitString" && strings.HasSuffix(t.PkgPath(), "aper"):
				add("bits")
				return
			case t.Name() == "OctetString" && strings.HasSuffix(t.PkgPath(), "aper"):
				add("octets")
				return
			case t.Name() == "Enumerated" && strings.HasSuffix(t.PkgPath(), "aper"):
				add("enum")
				return
			}
			switch t.Kind() {
			case reflect.Int, reflect.Int32, reflect.Int64:
				add("int")
			case reflect.String:
				add("string")
			case reflect.Slice:
				if t.Elem().Kind() == reflect.Uint8 {
					add("octets")
					return
				}
				walk(t.Elem(), elemTag(tag))
			case reflect.Struct:
				if t.Name() != "" {
					namedTypes[t.Name()] = t
				}
				if seen[t] {
					return
				}
				seen[t] = true
				for i := 0; i < t.NumField(); i++ {
					if t.Field(i).Name == "Present" && i == 0 {
						continue
					}
					walk(t.Field(i).Type, dropRef(per.FieldTag(t, i)))
				}
			}
		}
		walk(reflect.TypeOf(ngapType.NGAPPDU{}), pduTag)
		for _, tt := range transferTypes {
			walk(tt, "valueExt")
		}
		keys := make([]string, 0, len(shapes))
		for k := range shapes {
			keys = append(keys, k)
		}
		sort.Strings(keys)
		for _, k := range keys {
			leafShapes = append(leafShapes, shapes[k])
		}
	})
}

// normTag keeps only the parts that matter for a leaf.
func normTag(tag string) string {
	var keep []string
	for _, p := range strings.Split(tag, ",") {
		if strings.HasPrefix(p, "size") || strings.HasPrefix(p, "value") {
			keep = append(keep, p)
		}
	}
	sort.Strings(keep)
	return strings.Join(keep, ",")
}

func runC03(c *fw.Case) (o fw.Outcome) {
	harvest()
	if c.Idx == 0 {
		return c03Schema(c)
	}
	if c.Idx%5000 == 2477 {
		return c03TwoLarge(c)
	}
	switch k := c.Idx % 10; {
	case k <= 5:
		ms := ngapMessages()
		m := ms[((c.Idx/10)*6+k)%len(ms)]
		return c03Message(c, m)
	case k == 6 && (c.Idx/10)%2 == 1:
		return c03LongList(c)
	case k == 6:
		return c03Transfer(c)
	case k <= 8:
		return c03Negative(c)
	default:
		if (c.Idx/10)%25 == 24 {
			return c03Fragment(c)
		}
		return c03Primitive(c)
	}
}

// schemaRoots: NGAP-PDU and the containers encoded on their own.
func schemaRoots() []reflect.Type {
	return append([]reflect.Type{reflect.TypeOf(ngapType.NGAPPDU{})}, transferTypes...)
}

// SchemaDumpJSON renders the live tags (hx schema-dump).
func SchemaDumpJSON() []byte {
	b, _ := json.MarshalIndent(per.DumpSchema(schemaRoots()...), "", " ")
	return append(b, '\n')
}

func c03Schema(c *fw.Case) (o fw.Outcome) {
	// every constraint tag against the schema snapshot the reference works from (see ref/per/schema.go)
	if per.SnapshotSize() < 1000 {
		o.Inconcl("schema snapshot missing or too small (%d fields)", per.SnapshotSize())
		return
	}
	o.Count("snapshot_fields_compared", int64(per.SnapshotSize()))
	if drift := per.SchemaDrift(schemaRoots()...); len(drift) > 0 {
		k := drift[0][:strings.Index(drift[0], ":")]
		o.Input = "schema snapshot against the live aper tags"
		o.Digest, o.Nontrivial = fw.HashS("schema"), true
		o.Fail("schema-drift:"+k, "%d constraint tag(s) differ from the TS 38.413 schema snapshot the reference encoder works from; values of these types are now encoded / accepted differently:\n %s", len(drift), strings.Join(drift, "\n "))
		return
	}
	o.Input = fmt.Sprintf("schema table: %d wrapper types against their aper tags", len(schemaTable))
	o.Digest, o.Nontrivial = fw.HashS("schema"), true
	o.Tag("schema-table")
	names := make([]string, 0, len(schemaTable))
	for n := range schemaTable {
		names = append(names, n)
	}
	sort.Strings(names)
	for _, n := range names {
		t, ok := namedTypes[n]
		if !ok {
			o.Fail("schema:"+n, "type %s of the TS 38.413 table is not reachable from NGAP-PDU in ngapType", n)
			return
		}
		if t.NumField() != 1 {
			o.Fail("schema:"+n, "type %s is expected to wrap a single Value/List field, has %d fields", n, t.NumField())
			return
		}
		got := normTag(per.LiveTag(t, 0))
		if got != normTag(schemaTable[n]) {
			o.Fail("schema:"+n, "constraint of %s: tag says %q, TS 38.413 says %q", n, got, normTag(schemaTable[n]))
			return
		}
		o.Count("schema_entries_checked", 1)
	}
	o.Count("leaf_shapes_harvested", int64(len(leafShapes)))
	return
}

func hasExtensionFeature(g *ngapgen.Gen) bool {
	for k := range g.Features {
		if strings.Contains(k, "extension") {
			return true
		}
	}
	return false
}

func leafOutOfRoot(s leafShape, v reflect.Value) bool {
	p, _ := per.ParseTag(s.Tag)
	switch s.Kind {
	case "int":
		x := v.Int()
		return p.ValueExt && ((p.ValueLB != nil && x < *p.ValueLB) || (p.ValueUB != nil && x > *p.ValueUB))
	case "bits":
		n := int64(v.Field(1).Uint())
		return p.SizeExt && ((p.SizeLB != nil && n < *p.SizeLB) || (p.SizeUB != nil && n > *p.SizeUB))
	case "octets", "string":
		n := int64(v.Len())
		return p.SizeExt && ((p.SizeLB != nil && n < *p.SizeLB) || (p.SizeUB != nil && n > *p.SizeUB))
	}
	return false
}

func describeGen(g *ngapgen.Gen) []string {
	var tags []string
	for _, k := range sortedKeys(g.Features) {
		tags = append(tags, "f:"+k)
	}
	return tags
}

// compareEncodings is the C03 oracle for one (value, top tag).
// outOfRoot: the value contains a component outside the root of an extensible constraint. Such a value is not one
// "whose fields satisfy the constraints of TS 38.413" in this protocol version; the library may refuse it, but when it
// does encode it the bytes must still be the X.691 encoding.
func compareEncodings(o *fw.Outcome, val any, tag, what string, outOfRoot bool) (ref []byte) {
	fw.Beat()
	var lib []byte
	var lerr error
	func() {
		defer func() {
			if r := recover(); r != nil {
				lerr = fmt.Errorf("panic: %v", r)
				st := string(debug.Stack())
				o.Fail("encode-panic:"+fw.TopRepoFrame(st), "library encoder panicked on a constraint-satisfying %s: %v\n%s", what, r, clipS(st, 1500))
			}
		}()
		lib, lerr = aper.MarshalWithParams(val, tag)
	}()
	if lerr == nil && lib != nil {
		if m := retainCheck("aper-encode", lib, what); m != "" {
			o.Fail("retained-encoding-changed", "%s", m)
		}
	}
	ref, rerr := per.Marshal(val, tag)
	if rerr != nil {
		if _, isSchema := rerr.(*per.SchemaError); isSchema {
			o.Fail("schema:"+what, "the reference cannot interpret the type/tags: %v", rerr)
			return nil
		}
		// the generator produced something the reference refuses: generator/reference defect, not the library's
		o.Inconcl("reference refused a generated value (%v)", rerr)
		return nil
	}
	if o.Failed() {
		return ref
	}
	if lerr != nil && outOfRoot {
		o.Count("out_of_root_values_refused_by_library", 1)
		return ref
	}
	if lerr != nil {
		loc := localize(reflect.ValueOf(val), tag, "$", 0)
		key := "encode-error:" + what
		if loc != "" {
			key = "encode-error:" + locKey(loc)
		}
		o.Fail(key, "library refuses a constraint-satisfying %s: %v\nreference encoding: %x\nlocalised: %s", what, lerr, ref, loc)
		return ref
	}
	if !bytes.Equal(lib, ref) {
		loc := localize(reflect.ValueOf(val), tag, "$", 0)
		key := "mismatch:" + what + "(in-context only)"
		if loc != "" {
			key = "mismatch:" + locKey(loc)
		}
		o.Fail(key, "encoding of %s differs from X.691\n library:   %x\n reference: %x\n localised: %s", what, lib, ref, loc)
	}
	return ref
}

func c03Message(c *fw.Case, m msgRef) (o fw.Outcome) {
	budget := 40 + c.R.Intn(400)
	pdu, g := genPDU(c.R, m, budget, c.Thorough())
	ref := compareEncodings(&o, pdu, pduTag, m.Name, hasExtensionFeature(g))
	o.Tag("msg:" + m.Name)
	o.Tag(describeGen(g)...)
	for _, a := range g.OpenAlts {
		o.Tag("ie:" + a)
	}
	o.Digest = fw.Hash(ref)
	o.Nontrivial = len(ref) > 4
	o.Max("largest_encoding_octets", int64(len(ref)))
	o.Count("pdus_compared", 1)
	if len(ref) > 127 {
		o.Tag("len>127")
	}
	o.Input = fmt.Sprintf("%s ies=%d ref=%x", m.Name, len(g.OpenAlts), clip(ref, 200))
	return
}

func clipS(s string, n int) string {
	if len(s) > n {
		return s[:n]
	}
	return s
}

func clip(b []byte, n int) []byte {
	if len(b) > n {
		return b[:n]
	}
	return b
}

func c03Transfer(c *fw.Case) (o fw.Outcome) {
	tt := transferTypes[(c.Idx/10)%len(transferTypes)]
	g := ngapgen.New(c.R, 30+c.R.Intn(200))
	g.Big = c.Thorough()
	p, _ := per.ParseTag("valueExt")
	v := g.Value(tt, p)
	ref := compareEncodings(&o, v.Interface(), "valueExt", tt.Name(), hasExtensionFeature(g))
	o.Tag("transfer:" + tt.Name())
	for _, a := range g.OpenAlts {
		o.Tag("ie:" + a)
	}
	o.Digest = fw.Hash(ref)
	o.Nontrivial = len(ref) > 4
	o.Count("transfers_compared", 1)
	o.Input = fmt.Sprintf("%s ref=%x", tt.Name(), clip(ref, 200))
	return
}

// c03LongList: a SEQUENCE OF type with many, mostly minimal elements (see longList in c04.go) - counts around 127/128,
// 255/256 and, for the lists whose SIZE allows it, around the 16K fragmentation steps.
func c03LongList(c *fw.Case) (o fw.Outcome) {
	lts := listTypes()
	j := c.Idx / 20
	lt := lts[j%len(lts)]
	want := longListSizes[(j/len(lts)+j)%len(longListSizes)]
	if lp, _ := per.ParseTag(lt.Tag); lp.SizeUB != nil && *lp.SizeUB >= 16384 && (j/len(lts))%3 == 2 && (c.Thorough() && (j/len(lts))%12 == 2 || *lp.SizeUB >= 65536) {
		// quick: only the list whose SIZE reaches 64K (its length is the general determinant, fragmented from 16K on);
		// thorough: also the lists bounded by 65535 (a 16-bit count), which take seconds per case
		want = []int{16383, 16384, 16385, 20000, 32768, 49152, 49153, 65535, 65536}[(j/len(lts)/3)%9]
		o.Tag("long-list:fragmented-length")
	}
	w16, minimal := constrainedCount16K(lt, j, len(lts))
	if minimal {
		want = w16
		o.Tag("long-list:constrained-count-16K-and-more")
	}
	v, n := longList(c.R, lt, want, minimal)
	ref := compareEncodings(&o, v.Interface(), "", fmt.Sprintf("%s x%d", lt.Typ.Elem().Name(), n), false)
	o.Tag("long-list:" + lt.Typ.Elem().Name())
	o.Digest, o.Nontrivial = fw.Hash(ref), n >= 2
	o.Count("long_lists_compared", 1)
	o.Max("longest_list_elements", int64(n))
	o.Input = fmt.Sprintf("SEQUENCE (SIZE %s) OF %s with %d elements, ref=%x", lt.Tag, lt.Typ.Elem().Name(), n, clip(ref, 120))
	return
}

func c03Negative(c *fw.Case) (o fw.Outcome) {
	ms := ngapMessages()
	m := ms[c.R.Intn(len(ms))]
	pdu, _ := genPDU(c.R, m, 30+c.R.Intn(150), false)
	top, _ := per.ParseTag(pduTag)
	pv := reflect.ValueOf(&pdu).Elem()
	desc := ngapgen.Perturb(pv, top, c.R)
	o.Input = m.Name + " perturbed: " + desc
	o.Digest = fw.HashS(m.Name, desc, fmt.Sprint(c.Idx))
	if desc == "" {
		return // nothing to perturb: trivial
	}
	o.Nontrivial = true
	kind := desc[strings.Index(desc, ": ")+2:]
	if i := strings.IndexAny(kind, "0123456789"); i > 0 {
		kind = strings.TrimSpace(kind[:i])
	}
	o.Tag("neg:" + kind)
	_, rerr := per.Marshal(pdu, pduTag)
	if _, isC := rerr.(*per.ConstraintError); !isC {
		o.Inconcl("perturbation %q did not make the reference refuse the value (err=%v)", desc, rerr)
		return
	}
	var lib []byte
	var lerr error
	func() {
		defer func() {
			if r := recover(); r != nil {
				o.Fail("negative-panic:"+kind, "library panicked instead of returning an error for %s: %v", desc, r)
			}
		}()
		lib, lerr = aper.MarshalWithParams(pdu, pduTag)
	}()
	o.Count("out_of_constraint_values", 1)
	if !o.Failed() && lerr == nil {
		o.Fail("not-refused:"+kind, "value outside its constraints was encoded without error: %s\n reference says: %v\n library bytes: %x", desc, rerr, clip(lib, 120))
	}
	return
}

func c03Fragment(c *fw.Case) (o fw.Outcome) {
	// lengths around every fragment boundary, and lengths that need three and more pieces (64K + n*16K + rest) with
	// non-periodic content, so that a wrong read offset in a later fragment shows
	sizes := []int{16383, 16384, 16385, 20000, 32767, 32768, 49152, 65535, 65536, 65537, 70000, 81920, 81921, 90000, 98304, 100000, 114689, 131072, 131073, 140000, 163845, 200000}
	n := sizes[(c.Idx/250)%len(sizes)]
	if (c.Idx/250)%2 == 1 && (c.Idx/250) >= len(sizes) {
		return c03FragmentBits(c)
	}
	var v ngapType.NASPDU
	v.Value = make([]byte, n)
	c.R.Read(v.Value)
	o.Input = fmt.Sprintf("NAS-PDU (unconstrained OCTET STRING) of %d octets", n)
	o.Digest, o.Nontrivial = fw.HashS("frag", fmt.Sprint(n)), true
	o.Tag("fragmentation")
	var lib []byte
	var lerr error
	func() {
		defer func() {
			if r := recover(); r != nil {
				lerr = fmt.Errorf("panic: %v", r)
			}
		}()
		lib, lerr = aper.MarshalWithParams(v, "")
	}()
	ref, _ := per.Marshal(v, "")
	o.Count("fragmentation_cases", 1)
	if lerr != nil {
		o.Fail("frag-error", "library fails on an OCTET STRING of %d octets: %v", n, lerr)
		return
	}
	if !bytes.Equal(lib, ref) {
		// narrow key for the one known shape: exact multiple of 16K, library output lacks only the final zero-length determinant
		if n%16384 == 0 && len(ref) == len(lib)+1 && bytes.Equal(ref[:len(lib)], lib) && ref[len(ref)-1] == 0 {
			o.Fail("frag-16k-multiple", "length %d is a multiple of 16384: X.691 10.9.3.8 requires a final zero length determinant after the last 16K fragment; the library omits it (library %d octets, reference %d)", n, len(lib), len(ref))
			return
		}
		d := 0
		for d < len(lib) && d < len(ref) && lib[d] == ref[d] {
			d++
		}
		o.Fail("frag-mismatch", "OCTET STRING of %d octets: encodings differ at octet %d (library %d octets, reference %d octets; library % x / reference % x)", n, d, len(lib), len(ref), clip(lib[d:], 8), clip(ref[minInt(d, len(ref)):], 8))
	}
	return
}

// c03FragmentBits: the one NGAP BIT STRING whose length can need fragmentation, receiveStatusOfUL-PDCP-SDUs (SIZE(1..131072)).
func c03FragmentBits(c *fw.Case) (o fw.Outcome) {
	sizes := []int{16383, 16384, 16385, 20001, 32768, 49153, 65536, 65537, 100003, 131071, 131072}
	n := sizes[(c.Idx/500)%len(sizes)]
	var v ngapType.DRBStatusUL18
	b := make([]byte, (n+7)/8)
	c.R.Read(b)
	if rem := n % 8; rem != 0 {
		b[len(b)-1] &= 0xff << (8 - uint(rem))
	}
	v.ULCOUNTValue.PDCPSN18 = int64(c.R.Intn(1 << 18))
	v.ULCOUNTValue.HFNPDCPSN18 = int64(c.R.Intn(1 << 14))
	v.ReceiveStatusOfULPDCPSDUs = &aper.BitString{Bytes: b, BitLength: uint64(n)}
	o.Input = fmt.Sprintf("DRBStatusUL18 with a receive-status BIT STRING of %d bits", n)
	o.Digest, o.Nontrivial = fw.HashS("fragbits", fmt.Sprint(n)), true
	o.Tag("fragmentation-bits")
	compareEncodings(&o, v, "valueExt", fmt.Sprintf("DRBStatusUL18(%d bits)", n), false)
	o.Count("fragmentation_cases", 1)
	return
}

// ---------------------------------------------------------------- primitive sweep

func shapeValues(s leafShape, r *rand.Rand, all bool) []reflect.Value {
	p, _ := per.ParseTag(s.Tag)
	var out []reflect.Value
	switch s.Kind {
	case "int":
		var xs []int64
		if p.ValueLB != nil && p.ValueUB != nil {
			lb, ub := *p.ValueLB, *p.ValueUB
			if uint64(ub-lb) < 65536 && all {
				for x := lb; x <= ub; x++ {
					xs = append(xs, x)
				}
			} else {
				set := map[int64]bool{lb: true, ub: true}
				for k := uint(0); k < 50; k++ {
					for d := int64(-1); d <= 1; d++ {
						x := lb + (int64(1) << k) + d
						if x >= lb && x <= ub {
							set[x] = true
						}
					}
				}
				for i := 0; i < 40; i++ {
					set[lb+r.Int63n(ub-lb+1)] = true
				}
				for x := range set {
					xs = append(xs, x)
				}
			}
			if p.ValueExt {
				xs = append(xs, ub+1, ub+2, ub+127, ub+128, ub+255, ub+256, ub+65536, ub+(1<<32))
			}
		} else if p.ValueLB == nil {
			xs = []int64{0, 1, -1, 127, 128, -128, -129, 255, 256, 32767, 32768, -32768, -32769, 1 << 31, 1<<40 + 3, -(1 << 40)}
		} else {
			return nil // semi-constrained INTEGER does not occur in NGAP
		}
		sort.Slice(xs, func(i, j int) bool { return xs[i] < xs[j] })
		for _, x := range xs {
			v := reflect.New(s.Typ).Elem()
			v.SetInt(x)
			out = append(out, v)
		}
	case "enum":
		if p.ValueLB == nil || p.ValueUB == nil {
			return nil
		}
		for x := *p.ValueLB; x <= *p.ValueUB; x++ {
			v := reflect.New(s.Typ).Elem()
			v.SetUint(uint64(x))
			out = append(out, v)
		}
	case "bits", "octets", "string":
		var sizes []int
		lb, ub := int(bound64(p.SizeLB, 0)), int(bound64(p.SizeUB, -1))
		add := func(n int) {
			if n >= 0 {
				sizes = append(sizes, n)
			}
		}
		if ub >= 0 {
			if ub-lb <= 300 {
				for n := lb; n <= ub; n++ {
					add(n)
				}
			} else {
				for _, n := range []int{lb, lb + 1, lb + 2, lb + 3, 126, 127, 128, 129, 254, 255, 256, 257, ub - 1, ub} {
					if n >= lb && n <= ub && n <= 70000 {
						add(n)
					}
				}
			}
			if p.SizeExt {
				add(ub + 1)
				add(ub + 9)
				add(ub + 130)
			}
		} else {
			for _, n := range []int{0, 1, 2, 3, 7, 8, 9, 126, 127, 128, 129, 255, 256, 1000, 16383} {
				add(lb + n)
			}
		}
		for _, n := range sizes {
			for rep := 0; rep < 2; rep++ {
				v := reflect.New(s.Typ).Elem()
				switch s.Kind {
				case "bits":
					b := make([]byte, (n+7)/8)
					if rep == 0 {
						r.Read(b)
					} else {
						for i := range b {
							b[i] = 0xff
						}
					}
					if rem := n % 8; rem != 0 {
						b[len(b)-1] &= 0xff << (8 - uint(rem))
					}
					v.Field(0).SetBytes(b)
					v.Field(1).SetUint(uint64(n))
				case "octets":
					b := make([]byte, n)
					if rep == 0 {
						r.Read(b)
					} else {
						for i := range b {
							b[i] = 0xff
						}
					}
					v.SetBytes(b)
				case "string":
					b := make([]byte, n)
					for i := range b {
						b[i] = "Az09 -.?"[(i+rep)%8]
					}
					v.SetString(string(b))
				}
				out = append(out, v)
			}
		}
	}
	return out
}

func bound64(p *int64, d int64) int64 {
	if p == nil {
		return d
	}
	return *p
}

var bitStringType = reflect.TypeOf(aper.BitString{})

// synthetic SEQUENCE { pre BIT STRING (SIZE(k)), f <leaf> } so that the leaf starts at bit offset k
func synthStruct(s leafShape, k int) reflect.Type {
	fs := []reflect.StructField{}
	if k > 0 {
		fs = append(fs, reflect.StructField{Name: "Pre", Type: bitStringType, Tag: reflect.StructTag(fmt.Sprintf(`aper:"sizeLB:%d,sizeUB:%d"`, k, k))})
	}
	fs = append(fs, reflect.StructField{Name: "F", Type: s.Typ, Tag: reflect.StructTag(`aper:"` + s.Tag + `"`)})
	fs = append(fs, reflect.StructField{Name: "Post", Type: reflect.TypeOf(false)})
	return reflect.StructOf(fs)
}

func c03Primitive(c *fw.Case) (o fw.Outcome) {
	j := c.Idx / 10
	s := leafShapes[j%len(leafShapes)]
	round := j / len(leafShapes)
	vals := shapeValues(s, c.R, c.Thorough())
	o.Tag("shape:" + s.Kind + "[" + s.Tag + "]")
	o.Input = fmt.Sprintf("primitive %s[%s] round %d (%d candidate values) at bit offsets 0..7", s.Kind, s.Tag, round, len(vals))
	if len(vals) == 0 {
		o.Digest = fw.HashS("prim-empty", s.Kind, s.Tag)
		return
	}
	// this case takes every stride-th value starting at round
	rounds := 1
	if c.Thorough() {
		rounds = (240000/10)/len(leafShapes) - 1
	} else {
		rounds = (9000/10)/len(leafShapes) - 1
	}
	if rounds < 1 {
		rounds = 1
	}
	maxPer := 400
	if c.Thorough() {
		maxPer = 1200
	}
	n := 0
	for i := round % rounds; i < len(vals) && n < maxPer; i += rounds {
		for k := 0; k < 8; k++ {
			st := synthStruct(s, k)
			v := reflect.New(st).Elem()
			fi := 0
			if k > 0 {
				v.Field(0).Field(0).SetBytes([]byte{0xff})
				v.Field(0).Field(1).SetUint(uint64(k))
				fi = 1
			}
			v.Field(fi).Set(vals[i])
			v.Field(fi + 1).SetBool(true)
			before := o.Failed()
			compareEncodings(&o, v.Interface(), "", fmt.Sprintf("%s[%s]@bit%d", s.Kind, s.Tag, k), leafOutOfRoot(s, vals[i]))
			n++
			if !before && o.Failed() {
				o.Msg = fmt.Sprintf("value %v at bit offset %d: %s", vals[i].Interface(), k, o.Msg)
				break
			}
		}
		if o.Failed() {
			break
		}
	}
	o.Count("primitive_encodings_compared", int64(n))
	o.Digest = fw.HashS("prim", s.Kind, s.Tag, fmt.Sprint(round%rounds))
	o.Nontrivial = n >= 8
	return
}

// c03TwoLarge: a message with TWO large open types one after the other - the first beyond 64K (whatever an encoder keeps
// growing has grown by then), the second in the range where its length determinant is fragmented (16K and more, with a
// two-octet remainder or several fragments): UE RADIO CAPABILITY INFO INDICATION with a UE Radio Capability of 66 .. 140
// thousand octets and a UE Radio Capability for Paging of 16.5 .. 50 thousand. What one IE needs while it is put together
// must not depend on what the IE before it left behind.
func c03TwoLarge(c *fw.Case) (o fw.Outcome) {
	r := c.R
	n1 := pick(r, 66000, 74000, 100000, 131072+5, 65536+r.Intn(70000))
	n2 := pick(r, 16384+128, 16600, 20000, 24200, 32768+200, 49152+300, 16384+128+r.Intn(30000))
	var m ngapType.UERadioCapabilityInfoIndication
	add := func(id int64, f func(v *ngapType.UERadioCapabilityInfoIndicationIEsValue)) {
		ie := ngapType.UERadioCapabilityInfoIndicationIEs{}
		ie.Id.Value, ie.Criticality.Value = id, aper.Enumerated(r.Intn(3))
		f(&ie.Value)
		m.ProtocolIEs.List = append(m.ProtocolIEs.List, ie)
	}
	add(10, func(v *ngapType.UERadioCapabilityInfoIndicationIEsValue) {
		v.Present = ngapType.UERadioCapabilityInfoIndicationIEsPresentAMFUENGAPID
		v.AMFUENGAPID = &ngapType.AMFUENGAPID{Value: r.Int63n(1 << 40)}
	})
	add(85, func(v *ngapType.UERadioCapabilityInfoIndicationIEsValue) {
		v.Present = ngapType.UERadioCapabilityInfoIndicationIEsPresentRANUENGAPID
		v.RANUENGAPID = &ngapType.RANUENGAPID{Value: r.Int63n(1 << 32)}
	})
	add(117, func(v *ngapType.UERadioCapabilityInfoIndicationIEsValue) {
		v.Present = ngapType.UERadioCapabilityInfoIndicationIEsPresentUERadioCapability
		v.UERadioCapability = &ngapType.UERadioCapability{Value: rbytes(r, n1)}
	})
	add(118, func(v *ngapType.UERadioCapabilityInfoIndicationIEsValue) {
		v.Present = ngapType.UERadioCapabilityInfoIndicationIEsPresentUERadioCapabilityForPaging
		v.UERadioCapabilityForPaging = &ngapType.UERadioCapabilityForPaging{UERadioCapabilityForPagingOfNR: &ngapType.UERadioCapabilityForPagingOfNR{Value: rbytes(r, n2)}}
		if r.Intn(2) == 0 {
			v.UERadioCapabilityForPaging.UERadioCapabilityForPagingOfEUTRA = &ngapType.UERadioCapabilityForPagingOfEUTRA{Value: rbytes(r, pick(r, 1, 200, 16384, 17000))}
		}
	})
	var pdu ngapType.NGAPPDU
	pdu.Present = ngapType.NGAPPDUPresentInitiatingMessage
	pdu.InitiatingMessage = &ngapType.InitiatingMessage{}
	pdu.InitiatingMessage.ProcedureCode.Value = ngapType.ProcedureCodeUERadioCapabilityInfoIndication
	pdu.InitiatingMessage.Criticality.Value = 1
	pdu.InitiatingMessage.Value.Present = ngapType.InitiatingMessagePresentUERadioCapabilityInfoIndication
	pdu.InitiatingMessage.Value.UERadioCapabilityInfoIndication = &m
	what := fmt.Sprintf("UERadioCapabilityInfoIndication with capabilities of %d and %d octets", n1, n2)
	ref := compareEncodings(&o, pdu, pduTag, what, false)
	o.Tag("two-large-open-types")
	o.Digest, o.Nontrivial = fw.Hash(ref), len(ref) > n1
	o.Max("largest_encoding_octets", int64(len(ref)))
	o.Count("pdus_compared", 1)
	o.Input = what
	return
}
