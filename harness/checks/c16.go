package checks

import (
	"fmt"
	"math/big"
	"strconv"
	"strings"
	"time"

	"free5gclib/nas/security"
	stgutg "stgutgp"
	"tglib"

	"vh/fw"
	"vh/procdrv"
	"vh/refamf"
)

// C16 — distinct UE identities derived from the configured IMSI.
// Monitor: population-level set membership over the UE contexts returned by stgutg.CreateUE,
// plus the capability oracle (exactly the chosen NEA / NIA bit advertised) over all 4x4 algorithm pairs.
func init() {
	fw.Register(&fw.Check{
		ID:    "C16",
		Level: "exploration",
		Rule: "case = (initial IMSI of 14/15 digits with 2- or 3-digit MNC, population N in {1,2,3,10,100,1000,10000} that the MSIN can accommodate, K, OP, OPc); two cases in five place the initial MSIN so that the population walks across a 10^j carry, j cycling through 1..MSIN length-1 by case index; one case in six makes the numeric value of the IMSI walk across a multiple of 2^31 / 2^32 / 2^33 / 2^40 / 2^48 inside a population of up to 10000; " +
			"every case creates N UEs with stgutg.CreateUE and checks pairwise distinct SUPI / RAN-UE-NGAP-ID, PLMN prefix and digit count, credentials; " +
			"one case in eighty runs the emulator PROCESS (test mode, 2..4 registrations, initial MSIN placed on a 10^j carry) against the reference AMF, which checks RAN-UE-NGAP-IDs and SUCIs of the Initial UE Messages; one case in eight instead sweeps all 16 (NEA,NIA) pairs through NewRanUeContext+GetUESecurityCapability. One process population of 51..66 UEs per run (101..130 and 257..264 more in thorough). distinct = hash(IMSI,N); non-trivial = N>=2 or capability sweep",
		Assumptions: []string{"SUPI text form is imsi-<digits>", "population is bounded by 10 000 as the property says"},
		N: func(t string) int {
			if t == "thorough" {
				return 30000
			}
			return 2400
		},
		Batch: 50,
		Stall: 120 * time.Second,
		Run:   runC16,
	})
}

// runC16Main: the identities as the emulator PROCESS produces them (main() creates the UEs): test mode with N registrations
// against the reference AMF, which requires of every Initial UE Message a RAN-UE-NGAP-ID not seen before and a SUCI that is
// the null-scheme encoding, in the configured PLMN and with the configured number of digits, of initial IMSI + index.
// The initial MSIN is placed so that the small population crosses a 10^j carry (j by case index) or a 2^p boundary.
func runC16Main(c *fw.Case) (o fw.Outcome) {
	r := c.R
	cfg := genEmuConfig(r)
	n := 2 + r.Intn(3)
	k0 := c.Idx / 80
	switch { // by index: populations beyond the sizes a loop is likely to be cut into (one second and more per UE: few of them)
	case k0 == 0:
		n = 51 + r.Intn(16)
	case k0 == 1 && c.Thorough():
		n = 101 + r.Intn(30)
	case k0 == 2 && c.Thorough():
		n = 257 + r.Intn(8)
	}
	if k0%5 == 4 && len(cfg.MNC) == 3 { // by index: the longest MSIN (ten digits: 15-digit IMSI, 2-digit MNC) with its highest carry in every run
		cfg.MNC = cfg.MNC[:2]
	}
	if k0%5 == 4 {
		cfg.IMSI = cfg.MCC + cfg.MNC + digits(r, 15-3-len(cfg.MNC))
	}
	mncLen := len(cfg.MNC)
	msinLen := len(cfg.IMSI) - 3 - mncLen
	limit := int64(1)
	for i := 0; i < msinLen; i++ {
		limit *= 10
	}
	k := c.Idx / 80
	j := 1 + k%(msinLen-1)
	if k0%5 == 4 {
		j = msinLen - 1
	}
	p10 := int64(1)
	for i := 0; i < j; i++ {
		p10 *= 10
	}
	back := int64(r.Intn(n - 1))
	msin := (r.Int63n(limit/p10)+1)*p10 - 1 - back
	if k%4 == 3 || msin < 0 || msin+int64(n) > limit {
		msin = p10 - 1 - back // the lowest carry of that order: leading zeros in front of it
	}
	if msin < 0 || msin+int64(n) > limit {
		msin = limit - int64(n)
	}
	cfg.IMSI = cfg.MCC + cfg.MNC + fmt.Sprintf("%0*d", msinLen, msin)
	if k%3 == 1 && msinLen > len(cfg.MCC+cfg.MNC)+1 {
		// the digits of the PLMN occur AGAIN inside the MSIN (of the first UE, or of one reached by counting up): an identity
		// is split by position, never by searching for its parts
		plmn := cfg.MCC + cfg.MNC
		m := []byte(fmt.Sprintf("%0*d", msinLen, msin))
		at := r.Intn(msinLen - len(plmn))
		copy(m[at:], plmn)
		if r.Intn(2) == 0 { // ... reached by the second UE
			v, _ := strconv.ParseInt(string(m), 10, 64)
			if v > 0 {
				m = []byte(fmt.Sprintf("%0*d", msinLen, v-1))
			}
		}
		cfg.IMSI = plmn + string(m)
		o.Tag("plmn-digits-inside-msin")
	}
	cfg.Reg, cfg.Pdu, cfg.Svc, cfg.Rel, cfg.Dereg = n, 0, 0, 0, 0
	cfg.UeNumber = n
	ch := genChoices(r, n)
	o.Tag("emulator-process", fmt.Sprintf("process-carry-10^%d", j), fmt.Sprintf("mnc%d", mncLen))
	o.Input = fmt.Sprintf("emulator process, test mode, %d registrations from initial IMSI %s (MSIN %d digits, carry of order 10^%d inside the population); config=%s", n, cfg.IMSI, msinLen, j, cfgSummary(cfg))
	o.Digest, o.Nontrivial = fw.HashS("c16-main", cfg.IMSI, fmt.Sprint(n)), true
	res := procdrv.Run(workDir(), emuPath(), procdrv.Spec{Cfg: cfg, Choices: ch, Fault: refamf.Fault{At: -1}, Args: []string{"-t"}, Watchdog: 20*time.Second + 3*nominalDuration(cfg),
		KillWhen: func(a *refamf.AMF) bool { return a.NViolations() > 0 }}) // an identity the AMF refuses ends the run at once
	judgeRun(&o, res, true)
	if o.Failed() || o.Verdict == fw.Inconclusive {
		return
	}
	if res.AMF.RegDone != n {
		o.Fail("registrations-missing", "%d registration(s) completed at the AMF, %d configured\n conversation:%s", res.AMF.RegDone, n, conversationSummary(res.AMF, 60))
		return
	}
	o.Count("process_populations", 1)
	o.Count("process_ues_identified", int64(n))
	return
}

func runC16(c *fw.Case) (o fw.Outcome) {
	r := c.R
	if c.Idx%80 == 39 {
		return runC16Main(c)
	}
	if c.Idx%8 == 7 {
		return runC16Caps(c)
	}
	mncLen := 2 + r.Intn(2)
	total := 14 + r.Intn(2)
	if r.Intn(10) == 0 {
		total = 11 + r.Intn(5)
	}
	msinLen := total - 3 - mncLen
	ns := []int{1, 2, 3, 10, 100, 1000}
	if c.Thorough() && c.Idx%30 == 0 || !c.Thorough() && c.Idx%80 == 0 {
		ns = []int{10000}
	}
	n := ns[r.Intn(len(ns))]
	// MSIN such that msin + n - 1 still has msinLen digits
	limit := int64(1)
	for i := 0; i < msinLen; i++ {
		limit *= 10
	}
	if int64(n) > limit {
		n = int(limit)
	}
	var msin int64
	binaryBoundary := false
	if c.Idx%6 == 5 && msinLen >= 9 { // the NUMERIC value of the IMSI walks across a multiple of 2^p (32-bit / 31-bit / float53 truncation)
		n = pick(r, 2, 100, 10000, 10000, 10000)
		if int64(n) > limit {
			n = int(limit)
		}
		binaryBoundary = true
	}
	switch r.Intn(5) {
	case 0:
		msin = limit - int64(n) // ends exactly at 99..9
	case 1:
		msin = 0
	case 2, 3: // the population walks across a 10^j carry inside the MSIN, for every j in turn (index-driven)
		j := 1 + (c.Idx/5)%(msinLen-1)
		k := int64(1)
		for i := 0; i < j; i++ {
			k *= 10
		}
		back := int64(0)
		if n > 1 {
			back = int64(r.Intn(n - 1)) // 0 .. n-2: the carry happens inside the population
		}
		msin = (r.Int63n(limit/k)+1)*k - 1 - back
		if msin < 0 || msin+int64(n) > limit {
			msin = k - 1 - back // the lowest carry of that order
			if msin < 0 || msin+int64(n) > limit {
				msin = r.Int63n(limit - int64(n) + 1)
			}
		}
		if n > 1 {
			o.Tag(fmt.Sprintf("carry-10^%d", j))
		}
	default:
		msin = r.Int63n(limit - int64(n) + 1)
	}
	plmn := digits(r, 3+mncLen)
	if r.Intn(4) == 0 {
		plmn = "0" + plmn[1:] // leading zero in the MCC
	}
	if r.Intn(6) == 0 {
		plmn = "00" + plmn[2:]
	}
	if binaryBoundary {
		p := uint(pick(r, 31, 32, 32, 32, 33, 40, 48))
		base := new(big.Int)
		base.SetString(plmn+strings.Repeat("0", msinLen), 10) // numeric value of the IMSI with MSIN 0
		step := new(big.Int).Lsh(big.NewInt(1), p)
		// first multiple of 2^p above base + a random offset inside the MSIN space
		off := new(big.Int).Rand(r, big.NewInt(limit-int64(n)))
		t := new(big.Int).Add(base, off)
		t.Div(t, step).Add(t, big.NewInt(1)).Mul(t, step)
		back := int64(0)
		if n > 1 {
			back = int64(r.Intn(n - 1))
		}
		t.Sub(t, big.NewInt(back+1)) // UE back+1 is the first one at or above the multiple
		t.Sub(t, base)
		if t.Sign() >= 0 && t.IsInt64() && t.Int64()+int64(n) <= limit {
			msin = t.Int64()
			o.Tag(fmt.Sprintf("numeric-imsi-crosses-2^%d", p))
		}
	}
	imsi := plmn + fmt.Sprintf("%0*d", msinLen, msin)
	credClass := func() string { // credential STRINGS as configuration files carry them: any 32 hex digits are a value, also all zeros / all f
		s := hexs(rbytes(r, 16))
		switch r.Intn(10) {
		case 0:
			return strings.Repeat("0", 32)
		case 1:
			return pick(r, strings.Repeat("f", 32), strings.Repeat("F", 32))
		case 2:
			z := 1 + r.Intn(31)
			return strings.Repeat("0", z) + s[z:]
		case 3:
			return strings.ToUpper(s)
		}
		return s
	}
	k, op, opc := credClass(), credClass(), credClass()
	switch r.Intn(3) {
	case 0:
		op = ""
	case 1:
		opc = ""
	}
	o.Input = kv("imsi", imsi, "mncLen", mncLen, "N", n, "k", k, "op", op, "opc", opc)
	o.Digest = fw.HashS(imsi, strconv.Itoa(n))
	o.Nontrivial = n >= 2
	o.Tag(fmt.Sprintf("N=%d", n), fmt.Sprintf("digits=%d", total), fmt.Sprintf("mnc=%d", mncLen))
	if imsi[0] == '0' {
		o.Tag("leading-zero-mcc")
	}
	supis := make(map[string]int, n)
	rans := make(map[int64]int, n)
	for i := 0; i < n; i++ {
		ue := stgutg.CreateUE(imsi, i, k, opc, op)
		if ue == nil {
			o.Fail("nil-ue", "CreateUE(%s,%d) returned nil", imsi, i)
			return
		}
		o.Count("ues_created", 1)
		if j, dup := supis[ue.Supi]; dup {
			o.Fail("supi-not-distinct", "UE %d and UE %d created from initial IMSI %s have the same SUPI %s", j, i, imsi, ue.Supi)
			return
		}
		supis[ue.Supi] = i
		if j, dup := rans[ue.RanUeNgapId]; dup {
			o.Fail("ranid-not-distinct", "UE %d and UE %d (IMSI %s) have the same RAN-UE-NGAP-ID %d", j, i, imsi, ue.RanUeNgapId)
			return
		}
		rans[ue.RanUeNgapId] = i
		if ue.RanUeNgapId < 0 || ue.RanUeNgapId > 0xffffffff {
			o.Fail("ranid-range", "UE %d RAN-UE-NGAP-ID %d outside 0..2^32-1", i, ue.RanUeNgapId)
			return
		}
		if !strings.HasPrefix(ue.Supi, "imsi-") {
			o.Fail("supi-form", "UE %d SUPI %q is not imsi-<digits>", i, ue.Supi)
			return
		}
		d := strings.TrimPrefix(ue.Supi, "imsi-")
		if len(d) != len(imsi) {
			o.Fail("supi-digit-count", "UE %d SUPI %q has %d digits, the configured IMSI %s has %d", i, ue.Supi, len(d), imsi, len(imsi))
			return
		}
		for _, ch := range d {
			if ch < '0' || ch > '9' {
				o.Fail("supi-form", "UE %d SUPI %q contains a non-digit", i, ue.Supi)
				return
			}
		}
		if d[:3+mncLen] != plmn {
			o.Fail("supi-left-plmn", "UE %d SUPI %q left the configured PLMN %s", i, ue.Supi, plmn)
			return
		}
		if want := new(big.Int); true { // observation, not a verdict: no property states SUPI_i = initial IMSI + i
			want.SetString(imsi, 10)
			want.Add(want, big.NewInt(int64(i)))
			if fmt.Sprintf("%0*s", len(imsi), want.String()) == d {
				o.Count("observation:supi_is_initial_plus_index", 1)
			} else {
				o.Count("observation:supi_is_not_initial_plus_index", 1)
			}
		}
		if i == 0 && d != imsi {
			o.Fail("supi-index0", "UE 0 has SUPI %q, configured initial IMSI is %s", ue.Supi, imsi)
			return
		}
		as := ue.AuthenticationSubs
		if as.PermanentKey == nil || as.PermanentKey.PermanentKeyValue != k {
			o.Fail("cred-k", "UE %d does not carry the configured K", i)
			return
		}
		if as.Opc == nil || as.Opc.OpcValue != opc {
			o.Fail("cred-opc", "UE %d does not carry the configured OPc", i)
			return
		}
		if as.Milenage == nil || as.Milenage.Op == nil || as.Milenage.Op.OpValue != op {
			o.Fail("cred-op", "UE %d does not carry the configured OP", i)
			return
		}
		if msg := capMismatch(ue); msg != "" {
			o.Fail("capability", "UE %d: %s", i, msg)
			return
		}
	}
	o.Max("largest_population", int64(n))
	return
}

// capMismatch decodes the UE security capability IE independently (TS 24.501 9.11.3.54:
// octet 3 = 5G-EA0..EA7 from bit 8 down, octet 4 = 5G-IA0..IA7) and compares with the context's algorithms.
func capMismatch(ue *tglib.RanUeContext) string {
	cap := ue.GetUESecurityCapability()
	if cap == nil {
		return "GetUESecurityCapability returned nil"
	}
	if cap.Iei != 0x2E {
		return fmt.Sprintf("capability IEI %#x, want 0x2E", cap.Iei)
	}
	if int(cap.Len) != len(cap.Buffer) || len(cap.Buffer) < 2 {
		return fmt.Sprintf("capability Len %d / buffer %x inconsistent", cap.Len, cap.Buffer)
	}
	if m := retainCheck("capability", cap.Buffer, ue.Supi); m != "" {
		return "the capability IE handed out for an earlier UE changed: " + m
	}
	wantEA := byte(0x80) >> ue.CipheringAlg
	wantIA := byte(0x80) >> ue.IntegrityAlg
	if cap.Buffer[0] != wantEA || cap.Buffer[1] != wantIA {
		return fmt.Sprintf("advertises 5G-EA=%08b 5G-IA=%08b but will use NEA%d/NIA%d (want %08b / %08b)", cap.Buffer[0], cap.Buffer[1], ue.CipheringAlg, ue.IntegrityAlg, wantEA, wantIA)
	}
	for _, b := range cap.Buffer[2:] {
		if b != 0 {
			return fmt.Sprintf("advertises EPS algorithms %x that the emulator never uses", cap.Buffer[2:])
		}
	}
	return ""
}

func runC16Caps(c *fw.Case) (o fw.Outcome) {
	supi := "imsi-" + digits(c.R, 15)
	o.Input = "capability sweep over all (NEA0..3, NIA0..3) for " + supi
	o.Digest = fw.HashS("caps", supi)
	o.Nontrivial = true
	o.Tag("capability-sweep")
	for ea := uint8(0); ea < 4; ea++ {
		for ia := uint8(0); ia < 4; ia++ {
			ue := tglib.NewRanUeContext(supi, int64(c.R.Intn(1<<20)), ea, ia)
			o.Count("capability_pairs", 1)
			if msg := capMismatch(ue); msg != "" {
				o.Fail("capability", "NEA%d/NIA%d: %s", ea, ia, msg)
				return
			}
			// ... and still after the context has been through an authentication: what a UE advertised before the keys
			// existed is what it uses afterwards
			k, opc := rbytes(c.R, 16), rbytes(c.R, 16)
			ue.AuthenticationSubs = tglib.GetAuthSubscription(hexs(k), hexs(opc), "")
			var autn [16]byte
			copy(autn[:], rbytes(c.R, 16))
			func() {
				defer func() { recover() }()
				ue.DeriveRESstarAndSetKey(ue.AuthenticationSubs, autn, rbytes(c.R, 16), "5G:mnc001.mcc001.3gppnetwork.org", "01", "001")
			}()
			if ue.CipheringAlg != ea || ue.IntegrityAlg != ia {
				o.Fail("capability-after-authentication", "a context created with NEA%d/NIA%d holds NEA%d/NIA%d after DeriveRESstarAndSetKey", ea, ia, ue.CipheringAlg, ue.IntegrityAlg)
				return
			}
			if msg := capMismatch(ue); msg != "" {
				o.Fail("capability-after-authentication", "NEA%d/NIA%d after DeriveRESstarAndSetKey: %s", ea, ia, msg)
				return
			}
		}
	}
	// the emulator's own choice
	ue := stgutg.CreateUE(strings.TrimPrefix(supi, "imsi-"), 0, "00", "00", "")
	if ue.CipheringAlg != security.AlgCiphering128NEA0 && ue.CipheringAlg > 3 || ue.IntegrityAlg > 3 {
		o.Fail("capability", "CreateUE chose unknown algorithms %d/%d", ue.CipheringAlg, ue.IntegrityAlg)
	}
	return
}
