package checks

import (
	"encoding/json"
	"fmt"
	"math/rand"
	"net"
	"os"
	"path/filepath"
	"strings"
	"time"

	"vh/fw"
	"vh/procdrv"
	"vh/ref/sec"
	"vh/refamf"
)

func emuPath() string { return filepath.Join(os.Getenv("VERIF_W"), "bin", "stgutgmain") }
func workDir() string { return os.Getenv("VERIF_W") }

// genEmuConfig draws a valid subscriber / gNB configuration.
func genEmuConfig(r *rand.Rand) procdrv.EmuConfig {
	var c procdrv.EmuConfig
	mncLen := 2 + r.Intn(2)
	total := 15
	if r.Intn(4) == 0 {
		total = 14
	}
	c.MCC = digits(r, 3)
	c.MNC = digits(r, mncLen)
	if r.Intn(3) == 0 {
		c.MCC = "0" + c.MCC[1:]
	}
	if r.Intn(3) == 0 {
		c.MNC = "0" + c.MNC[1:]
	}
	if r.Intn(4) == 0 { // digit classes that arithmetic on identity strings gets wrong: all zeros, zeros in front, nines, octal-looking
		c.MCC = pick(r, "000", "001", "009", "090", "460", "999", "909", c.MCC)
		if mncLen == 2 {
			c.MNC = pick(r, "00", "01", "08", "09", "10", "90", "99", c.MNC)
		} else {
			c.MNC = pick(r, "000", "001", "008", "010", "012", "089", "100", "900", "999", c.MNC)
		}
	}
	msinLen := total - 3 - mncLen
	// keep the last four digits + population below 256 in the main sweep (PDU session identity is derived from them)
	tail := 1 + r.Intn(200)
	head := digits(r, msinLen-4)
	if r.Intn(4) == 0 { // MSIN starting with zeros / nines
		z := pick(r, "0", "00", "000", "9", "09")
		head = z + head[len(z):]
	}
	if hn := c.MCC + c.MNC; r.Intn(6) == 0 && len(head) >= len(hn) { // the digits of the home network once more, inside the MSIN
		at := r.Intn(len(head) - len(hn) + 1)
		head = head[:at] + hn + head[at+len(hn):]
	}
	c.IMSI = c.MCC + c.MNC + head + fmt.Sprintf("%04d", tail)
	k, op := rbytes(r, 16), rbytes(r, 16)
	c.K = hexs(k)
	opc := sec.ComputeOPc(k, op)
	switch r.Intn(3) {
	case 0:
		c.OP, c.OPC = hexs(op), ""
	case 1:
		c.OP, c.OPC = "", hexs(opc)
	default:
		c.OP, c.OPC = hexs(op), hexs(opc)
	}
	if r.Intn(2) == 0 {
		c.K, c.OP, c.OPC = strings.ToUpper(c.K), strings.ToUpper(c.OP), strings.ToUpper(c.OPC)
	}
	c.GnbBits = uint64(22 + r.Intn(11))
	c.GnbID = make([]byte, (c.GnbBits+7)/8)
	for i := range c.GnbID {
		c.GnbID[i] = byte(r.Intn(128))
	}
	if r.Intn(5) == 0 { // an identifier whose octets happen to read as text in some notation (hexadecimal, decimal, a YAML keyword): it is still these octets
		c.GnbID = textOctets(r, len(c.GnbID))
	}
	n := pick(r, 1, 2, 7, 20, 150, 1+r.Intn(150))
	nb := make([]byte, n)
	for i := range nb {
		nb[i] = "ABCDEFGHIJKLMNOPQRSTUVWXYZabcdefghijklmnopqrstuvwxyz0123456789-."[r.Intn(64)]
	}
	c.GnbName = string(nb)
	switch r.Intn(8) {
	case 0: // blanks at the edges are characters of the name (PrintableString admits the space)
		c.GnbName = " " + c.GnbName
	case 1:
		c.GnbName = c.GnbName + " "
	case 2:
		c.GnbName = "  " + c.GnbName + "  "
	}
	if len(c.GnbName) > 150 {
		c.GnbName = c.GnbName[:150]
	}
	if r.Intn(12) == 0 { // the values the library's builders carry as built-in defaults: a configured value equal to a default is still configured
		c.GnbID, c.GnbBits = []byte{0x45, 0x46, 0x47}, 24
	}
	c.SST = int32(1 + r.Intn(255))
	c.SD = sdString(r)
	if r.Intn(10) == 0 {
		c.SST, c.SD = 1, "010203" // the builders' default slice
	}
	c.GnbGTP = pick(r, net.IP(rbytes(r, 4)), ipv4Class(r)).String()
	c.AmfIP, c.StgIP = "192.0.2."+fmt.Sprint(1+r.Intn(250)), "192.0.2."+fmt.Sprint(1+r.Intn(250))
	c.AmfPort, c.StgPort = 1024+r.Intn(60000), 1024+r.Intn(60000)
	if r.Intn(8) == 0 { // an address VALUE that reads as address-and-port: the port is the port key's business, the address key holds a string
		shaped := func(ip string) string {
			return pick(r, ip+":"+fmt.Sprint(1024+r.Intn(60000)), "[2001:db8::"+fmt.Sprint(1+r.Intn(9))+"]:"+fmt.Sprint(1024+r.Intn(60000)), "["+ip+"]", ip+":")
		}
		if r.Intn(2) == 0 {
			c.AmfIP = shaped(c.AmfIP)
		} else {
			c.StgIP = shaped(c.StgIP)
		}
	}
	if r.Intn(8) == 0 { // a HOST NAME where an address may stand (the SCTP layer resolves names itself): the name is the value
		name := pick(r, "localhost", "LocalHost", "LOCALHOST", "localhost.", hostsName(r), "amf.5gc.mnc001.mcc001.3gppnetwork.org", "no-such-host.invalid")
		if r.Intn(2) == 0 {
			c.AmfIP = name
		} else {
			c.StgIP = name
		}
	}
	c.DLIface, c.ULIface = "verif-none0", "verif-none1"
	c.UeNumber = 1
	if r.Intn(5) == 0 { // two keys that happen to hold the same value are still two keys
		switch r.Intn(4) {
		case 0:
			c.ULIface = c.DLIface
		case 1:
			c.StgIP = c.AmfIP
		case 2:
			c.StgPort = c.AmfPort
		default:
			c.ULIface, c.StgIP = c.DLIface, c.AmfIP
		}
	}
	c.QuoteStyle = r.Intn(3)
	if r.Intn(6) == 0 { // a TAB inside a value, escaped or as the character itself: white space inside a scalar is content
		c.LiteralTab = r.Intn(3) != 0
		if r.Intn(2) == 0 && len(c.GnbName) < 149 {
			at := r.Intn(len(c.GnbName) + 1)
			c.GnbName = c.GnbName[:at] + "\t" + c.GnbName[at:]
		} else {
			c.GnbID[r.Intn(len(c.GnbID))] = 0x09
		}
	}
	return c
}

var amfIDCorners = []int64{0, 1, 255, 256, 65535, 65536, 1<<24 - 1, 1 << 24, 1<<32 - 1, 1 << 32, 1<<40 - 1}

func genChoices(r *rand.Rand, nUE int) refamf.Choices {
	ch := refamf.Choices{R: rand.New(rand.NewSource(r.Int63()))}
	seen := map[int64]bool{}
	for len(ch.AmfIDs) < maxInt(nUE, 1) {
		id := amfIDCorners[r.Intn(len(amfIDCorners))]
		if r.Intn(3) == 0 {
			id = r.Int63n(1 << 40)
		}
		if !seen[id] {
			seen[id] = true
			ch.AmfIDs = append(ch.AmfIDs, id)
		}
	}
	ch.NgKSI = byte(r.Intn(7))
	ch.AmfName = "amf" + digits(r, 3)
	ch.ExtraDLIEs = r.Intn(2) == 0
	ch.RegAcceptOpts = r.Intn(32)
	ch.QosRulesLen = pick(r, 0, 1, 9, 127, 128, 255, 256, 1200, r.Intn(300))
	ch.AcceptOptMask = r.Intn(16)
	ch.UEIPBase = pick(r, net.IPv4(10, 45, 0, 1), net.IPv4(10, 0, 0, 0), net.IPv4(172, 16, 255, 200), net.IP(rbytes(r, 4)), ipv4Class(r))
	ch.UPF = pick(r, net.IPv4(192, 168, 61, 4), net.IPv4(0, 0, 0, 0), net.IPv4(255, 255, 255, 255), net.IP(rbytes(r, 4)), ipv4Class(r))
	ch.TEIDBase = pick(r, uint32(0), 1, 1<<31, 1<<32-16, r.Uint32())
	ch.WithAMBR = r.Intn(2) == 0
	ch.BackupAMFName = r.Intn(3) == 0
	ch.AfterRegMsg = pick(r, 0, 0, 0, 1, 2, 3)
	ch.SetupReqLen = pick(r, 0, 0, 0, 0, 2048, 2048, 2047, 1024, 600+r.Intn(1400))
	ch.TrailingNewerIE = pick(r, 0, 0, 1, 2, 3)
	ch.TrailingValue = rbytes(r, 1+r.Intn(12))
	ch.TrailingValue[0] = pick(r, byte(0x40), 0x80, 0xc1, 0xff, byte(len(ch.TrailingValue)-1), ch.TrailingValue[0]) // read as a length it would not fit
	ch.NGSetupRespLen = pick(r, 0, 0, 0, 0, 2048, 2048, 2047, 1024, 512, 300+r.Intn(1700))
	return ch
}

func nominalDuration(c procdrv.EmuConfig) time.Duration {
	min := func(a, b int) int {
		if a < b {
			return a
		}
		return b
	}
	pdu := min(c.Reg, c.Pdu)
	s := 1.1*float64(c.Reg) + 1.1*float64(pdu) + 2.1*float64(min(pdu, c.Svc)) + 2.2*float64(min(pdu, c.Rel)) + 1.6*float64(min(c.Reg, c.Dereg))
	return time.Duration(s*float64(time.Second)) + 2*time.Second
}

// conversationSummary renders the recorded history compactly for replay files and evidence samples.
func conversationSummary(a *refamf.AMF, max int) string {
	var sb strings.Builder
	for i, e := range a.Events {
		if i >= max {
			fmt.Fprintf(&sb, " ...(%d more)", len(a.Events)-max)
			break
		}
		arrow := "<-"
		if e.Dir == "up" {
			arrow = "->"
		}
		fmt.Fprintf(&sb, " %s%s", arrow, e.NGAP)
		if e.NAS != "" {
			fmt.Fprintf(&sb, "{%s", e.NAS)
			if e.Count >= 0 {
				fmt.Fprintf(&sb, " c%d", e.Count)
			}
			sb.WriteByte('}')
		}
		if e.Note != "" {
			fmt.Fprintf(&sb, "[%s]", e.Note)
		}
	}
	return sb.String()
}

func cfgSummary(c procdrv.EmuConfig) string {
	b, _ := json.Marshal(map[string]any{"imsi": c.IMSI, "mcc": c.MCC, "mnc": c.MNC, "k": c.K, "op": c.OP, "opc": c.OPC, "gnb_id": hexs(c.GnbID), "gnb_bits": c.GnbBits,
		"gnb_name": c.GnbName, "sst": c.SST, "sd": c.SD, "gnb_gtp": c.GnbGTP, "counts": []int{c.Reg, c.Pdu, c.Svc, c.Rel, c.Dereg}})
	return string(b)
}

// judgeRun applies the verdict rules shared by C01 / C02: reference-AMF violations, emulator exit status, banner.
func judgeRun(o *fw.Outcome, res *procdrv.Result, wantBanner bool) {
	a := res.AMF
	for k, n := range a.Observ {
		o.Count("observation:"+k, int64(n))
	}
	o.Count("uplink_messages", int64(a.ULRecv))
	o.Count("downlink_messages", int64(a.DLSent))
	for _, e := range a.Events {
		if e.Dir == "up" {
			o.Tag("up:" + e.NGAP)
			if e.NAS != "" {
				o.Tag("nas:" + e.NAS)
			}
		}
	}
	if res.Err != nil {
		o.Inconcl("could not run the emulator: %v", res.Err)
		return
	}
	if len(a.Violations) > 0 {
		v := a.Violations[0]
		o.Fail(v.Key, "reference AMF rejects message %d of the conversation: %s\n conversation:%s\n emulator stdout tail: %s", v.Event, v.Msg, conversationSummary(a, 60), tail(res.Stdout, 400))
		return
	}
	if res.TimedOut {
		if strings.Contains(res.BlockedIn, "recvmsg") && !strings.HasPrefix(res.BlockedIn, "unstable") {
			o.Fail("emulator-stuck", "the AMF behaved conformantly and is quiescent, but the emulator is blocked in %s after %v\n conversation:%s\n stdout tail: %s", res.BlockedIn, res.Duration.Round(time.Second), conversationSummary(a, 60), tail(res.Stdout, 300))
		} else {
			o.Inconcl("watchdog fired after %v (emulator in %q)", res.Duration.Round(time.Second), res.BlockedIn)
		}
		return
	}
	if wantBanner {
		if res.ExitCode != 0 || res.Signaled {
			o.Fail("emulator-failed", "a conformant AMF accepted every message, yet the emulator exited with status %d\n conversation:%s\n stdout tail: %s", res.ExitCode, conversationSummary(a, 60), tail(res.Stdout, 600))
			return
		}
		if !strings.Contains(res.Stdout, ">> All tests finished") {
			o.Fail("no-completion-banner", "exit status 0 without the completion banner\n stdout tail: %s", tail(res.Stdout, 300))
			return
		}
	}
}

func tail(s string, n int) string {
	if len(s) > n {
		s = "…" + s[len(s)-n:]
	}
	return strings.ReplaceAll(s, "\n", " | ")
}

// textOctets: n octets that read as text in a notation some layer might be tempted to interpret.
func textOctets(r *rand.Rand, n int) []byte {
	var alphabet string
	switch r.Intn(5) {
	case 0:
		alphabet = "0123456789abcdef"
	case 1:
		alphabet = "0123456789ABCDEF"
	case 2:
		alphabet = "0123456789"
	case 3:
		alphabet = "abcdefABCDEF"
	default:
		if n == 4 {
			return []byte(pick(r, "true", "null", "0x10", "1e10", "0b01", "0o17", "cafe", "BEEF", "1234", "+123", "-001", "12.5", "NULL", "True"))
		}
		return []byte(pick(r, "yes", "off", "0x1", "1e3", "abc", "ABC", "123", "-12", "1.5", "~~~", "nan", "NaN", "inf"))[:n]
	}
	b := make([]byte, n)
	for i := range b {
		b[i] = alphabet[r.Intn(len(alphabet))]
	}
	return b
}

// hostsName: a name this machine's hosts file resolves (whatever it is called here), or "localhost".
func hostsName(r *rand.Rand) string {
	b, err := os.ReadFile("/etc/hosts")
	if err != nil {
		return "localhost"
	}
	var names []string
	for _, l := range strings.Split(string(b), "\n") {
		if i := strings.IndexByte(l, '#'); i >= 0 {
			l = l[:i]
		}
		if f := strings.Fields(l); len(f) >= 2 {
			names = append(names, f[1:]...)
		}
	}
	if len(names) == 0 {
		return "localhost"
	}
	return names[r.Intn(len(names))]
}
