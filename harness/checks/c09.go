package checks

import (
	"bytes"
	"encoding/base64"
	"fmt"
	"math/rand"
	"reflect"

	"free5gclib/nas/nasMessage"
	"free5gclib/nas/nasTestpacket"
	"free5gclib/nas/nasType"
	"free5gclib/openapi/models"
	"tglib"

	"vh/fw"
	"vh/gen/nasdesc"
	refnas "vh/ref/nas"
)

// C09 — the wire layout of every message follows the TS 24.501 tables (ref/nas, typed in from the specification):
// message-type octet, mandatory part, and for every (message, optional IE) pair the IEI, format and length-field
// width, in both directions (library-built bytes walked by the reference parser, reference-built bytes decoded by the
// library); the emulator's own constructors are parsed to the intended field values.
func init() {
	fw.Register(&fw.Check{
		ID:    "C09",
		Level: "exploration",
		Rule: "idx mod P (P = number of (message, optional IE) pairs + 45 mandatory-only cases): the library builds the message with exactly that IE present (content length = table minimum, table maximum capped by capacity, or random in between, by round) " +
			"and ref/nas.Parse must find that IE with the tabulated IEI / format / length width and the same content, and the mandatory fields with the same content; conversely ref/nas.Encode builds the message and the library must decode the member with the same content. " +
			"Every 4th round instead drives the emulator's constructors (registration, authentication, security mode, UL NAS transport, PDU session, service, deregistration) with random arguments and compares the parsed fields with the arguments. " +
			"distinct = hash(message, IE, encoding); all non-trivial. The pair enumeration is complete in every tier",
		Assumptions: []string{
			"ref/nas tables are this framework's reading of TS 24.501 Release 15 clauses 8.2/8.3; where the IEI changed between Release-15 versions the table admits the documented set",
			"value lengths are chosen inside the table's range intersected with the representation's capacity",
		},
		N: func(t string) int {
			if t == "thorough" {
				return 204 * 4000
			}
			return 204 * 100
		},
		Batch:      2040,
		Init:       refnas.SelfTest,
		Run:        runC09,
		Exhaustive: func(string) bool { return true },
	})
}

type c09Pair struct {
	d   *nasdesc.Msg
	opt int // index into d.Optionals(), -1 = mandatory part only
}

var c09Pairs []c09Pair

func c09Enumerate() ([]c09Pair, error) {
	if c09Pairs != nil {
		return c09Pairs, nil
	}
	ds, err := nasdesc.Load()
	if err != nil {
		return nil, err
	}
	for i := range ds {
		if ds[i].Name == "SecurityProtected5GSNASMessage" {
			continue
		}
		c09Pairs = append(c09Pairs, c09Pair{&ds[i], -1})
		for j := range ds[i].Optionals() {
			c09Pairs = append(c09Pairs, c09Pair{&ds[i], j})
		}
	}
	return c09Pairs, nil
}

func runC09(c *fw.Case) (o fw.Outcome) {
	pairs, err := c09Enumerate()
	if err != nil {
		o.Inconcl("descriptors: %v", err)
		return
	}
	round := c.Idx / len(pairs)
	if round%4 == 3 {
		return c09OnPath(c)
	}
	p := pairs[c.Idx%len(pairs)]
	d := p.d
	r := c.R
	td := refnas.LookupName(d.Name)
	o.Nontrivial = true
	if td == nil {
		o.Fail("no-table:"+d.Name, "TS 24.501 has no message %s in the reference tables", d.Name)
		return
	}
	epd := byte(0x7e)
	if d.Gsm {
		epd = 0x2e
	}
	if td.EPD != epd || td.MsgType != d.MsgType {
		o.Fail("message-type:"+d.Name, "%s: library uses EPD %#x / message type %#x, TS 24.501 table 9.7.1/9.7.2 says %#x / %#x", d.Name, epd, d.MsgType, td.EPD, td.MsgType)
		return
	}
	opts := d.Optionals()
	var mem *nasdesc.Member
	var tie *refnas.OptIE
	what := d.Name + " (mandatory part)"
	if p.opt >= 0 {
		mem = &opts[p.opt]
		what = d.Name + "." + mem.Name
		tie = td.OptByName(mem.Name)
		if tie == nil {
			o.Fail("no-table-entry:"+what, "%s: the TS 24.501 table of %s has no optional IE %s", what, d.Name, mem.Name)
			return
		}
	}
	o.Tag("pair:" + what)
	// length policy: table range intersected with capacity; which end depends on the round
	chooseLen := func(lo, hi, capn int) int {
		if hi > capn {
			hi = capn
		}
		if lo > hi {
			return -2 // not representable
		}
		switch round % 3 {
		case 0:
			return lo
		case 1:
			return hi
		}
		return lo + r.Intn(hi-lo+1)
	}
	unrepresentable := ""
	lenOf := func(m nasdesc.Member) int {
		capn := memberCapacity(m.Type)
		if capn == 0 {
			return -1
		}
		if m.Optional {
			if t := td.OptByName(m.Name); t != nil {
				lo, hi := t.Bounds()
				if n := chooseLen(lo, hi, capn); n != -2 {
					return n
				}
				unrepresentable = fmt.Sprintf("%s: table range %d..%d, capacity %d", m.Name, lo, hi, capn)
			}
			return -1
		}
		for i := range td.Mandatory {
			if td.Mandatory[i].Name == m.Name && td.Mandatory[i].Fmt != refnas.FmtV {
				lo, hi := td.Mandatory[i].Bounds()
				if n := chooseLen(lo, hi, capn); n != -2 {
					return n
				}
				unrepresentable = fmt.Sprintf("%s: table range %d..%d, capacity %d", m.Name, lo, hi, capn)
			}
		}
		return -1
	}
	mask := uint64(0)
	if p.opt >= 0 {
		mask = 1 << uint(p.opt)
	}
	nv := genNas(r, d, mask, lenOf)
	if unrepresentable != "" {
		o.Fail("capacity:"+what, "%s: the library's representation cannot hold a length the table allows (%s)", what, unrepresentable)
		return
	}
	b, err := nasEncodeVia(nv)
	o.Digest = fw.Hash([]byte(what), b)
	o.Input = fmt.Sprintf("%s round %d: library encoding %x", what, round, clip(b, 100))
	if err != nil {
		o.Fail("encode-error:"+what, "%v", err)
		return
	}
	// ---- direction 1: library bytes walked by the table-driven reference parser
	pp, perr := refnas.Parse(b)
	o.Count("library_messages_parsed", 1)
	if perr != nil {
		o.Fail("layout:"+what, "library encoding of %s does not follow the TS 24.501 table: %v\n %x", what, perr, clip(b, 200))
		return
	}
	if pp.Def.Name != d.Name {
		o.Fail("layout:"+what, "library encoding of %s parses as %s", what, pp.Def.Name)
		return
	}
	v := nv.Msg.Elem()
	mi := 0
	for _, m := range d.Members[d.HeaderLen:] {
		if m.Optional {
			continue
		}
		if mi >= len(pp.Mand) || td.Mandatory[mi].Name != m.Name {
			o.Fail("mandatory-order:"+what, "mandatory member %d of %s is %s in the library, the table has %v", mi, d.Name, m.Name, td.Mandatory)
			return
		}
		if got, want := pp.Mand[mi], memberContent(v.Field(m.Index)); !bytes.Equal(got, want) {
			o.Fail("mandatory:"+d.Name+"."+m.Name, "mandatory field %s of %s: the TS 24.501 parser reads %x, the library member holds %x\n %x", m.Name, d.Name, clip(got, 40), clip(want, 40), clip(b, 200))
			return
		}
		mi++
	}
	if p.opt >= 0 {
		if len(pp.Opt) != 1 {
			o.Fail("layout:"+what, "%s: expected exactly one optional IE on the wire, the TS 24.501 parser finds %d", what, len(pp.Opt))
			return
		}
		want := memberContent(v.Field(mem.Index).Elem())
		got := pp.Opt[0].Val
		if tie.Fmt == refnas.FmtTV1 {
			want = []byte{want[0] & 0x0f}
		}
		okIEI := false
		for _, x := range tie.IEI {
			if x == pp.Opt[0].IEI {
				okIEI = true
			}
		}
		if !okIEI {
			o.Fail("iei:"+what, "%s goes on the wire with IEI %#x, TS 24.501 says %x", what, pp.Opt[0].IEI, tie.IEI)
			return
		}
		if _, ln, oc, _ := memberFields(mem.Type); ln < 0 && oc >= 0 && mem.Type.Field(oc).Type.Kind() == reflect.Array && len(got) < len(want) && bytes.Equal(got, want[:len(got)]) {
			want = want[:len(got)] // the fixed backing array is larger than the value the table defines: spare octets are not on the wire
		}
		if !bytes.Equal(got, want) {
			o.Fail("ie-content:"+what, "%s: the TS 24.501 parser reads value %x, the library member holds %x", what, clip(got, 40), clip(want, 40))
			return
		}
	} else if len(pp.Opt) != 0 {
		o.Fail("layout:"+what, "%s: optional IEs on the wire although none was set", what)
		return
	}
	// ---- direction 2: reference-built bytes decoded by the library
	rp := &refnas.Parsed{Def: td, SHT: 0, PSI: byte(r.Intn(256)), PTI: byte(r.Intn(256))}
	for i := range td.Mandatory {
		f := &td.Mandatory[i]
		n := f.Len
		if f.Fmt != refnas.FmtV {
			lo, hi := f.Bounds()
			capn := 1 << 20
			for _, m := range d.Members {
				if m.Name == f.Name {
					capn = memberCapacity(m.Type)
				}
			}
			n = chooseLen(lo, hi, capn)
			if n < 0 {
				n = lo
			}
		}
		rp.Mand = append(rp.Mand, rbytes(r, n))
	}
	var ieVal []byte
	if p.opt >= 0 {
		lo, hi := tie.Bounds()
		n := chooseLen(lo, hi, maxInt(memberCapacity(mem.Type), 1))
		if n < 0 {
			n = lo
		}
		ieVal = rbytes(r, n)
		iei := tie.IEI[0]
		for _, x := range tie.IEI { // where TS 24.501 changed the IEI between Release-15 versions, speak the library's dialect
			if mem.HasIEI && x == mem.IEI {
				iei = x
			}
		}
		switch tie.Fmt {
		case refnas.FmtTV1:
			ieVal = []byte{byte(r.Intn(16))}
		case refnas.FmtT:
			ieVal = nil
		}
		rp.Opt = []refnas.IEVal{{IEI: iei, Val: ieVal}}
	}
	rb, err := refnas.Encode(rp)
	if err != nil {
		o.Inconcl("reference encoder: %v", err)
		return
	}
	dv, err := nasDecodeVia(d, rb)
	o.Count("reference_messages_decoded", 1)
	if err != nil {
		o.Fail("ref-rejected:"+what, "a TS 24.501 encoding of %s is rejected by the library: %v\n %x", what, err, clip(rb, 200))
		return
	}
	mi = 0
	for _, m := range d.Members[d.HeaderLen:] {
		if m.Optional {
			continue
		}
		if got := memberContent(dv.Elem().Field(m.Index)); !bytes.Equal(got, rp.Mand[mi]) {
			o.Fail("ref-mandatory:"+d.Name+"."+m.Name, "mandatory field %s of a TS 24.501 encoded %s: the library decodes %x, the encoder put %x\n %x", m.Name, d.Name, clip(got, 40), clip(rp.Mand[mi], 40), clip(rb, 200))
			return
		}
		mi++
	}
	for j, m := range opts {
		f := dv.Elem().Field(m.Index)
		if j != p.opt {
			if !f.IsNil() {
				o.Fail("ref-spurious:"+what, "decoding a TS 24.501 encoded %s: the library reports IE %s that was not sent\n %x", what, m.Name, clip(rb, 200))
				return
			}
			continue
		}
		if f.IsNil() {
			o.Fail("ref-ie-missed:"+what, "the library does not recognise %s (IEI %#x, %s) in a TS 24.501 encoding\n %x", what, rp.Opt[0].IEI, tie.Fmt, clip(rb, 200))
			return
		}
		got := memberContent(f.Elem())
		want := ieVal
		if tie.Fmt == refnas.FmtTV1 {
			got = []byte{got[0] & 0x0f}
		}
		if len(got) > len(want) && bytes.Equal(got[:len(want)], want) && bytes.Equal(got[len(want):], make([]byte, len(got)-len(want))) {
			got = got[:len(want)] // zero spare octets of a fixed backing array
		}
		if !bytes.Equal(got, want) && !(len(want) == 0 && len(got) == 0) {
			o.Fail("ref-ie-content:"+what, "%s sent per TS 24.501 with value %x (%s, IEI %#x) is decoded by the library as %x\n %x", what, clip(want, 40), tie.Fmt, rp.Opt[0].IEI, clip(got, 40), clip(rb, 200))
			return
		}
	}
	return
}

// ---------------------------------------------------------------- the emulator's own constructors

func c09OnPath(c *fw.Case) (o fw.Outcome) {
	r := c.R
	o.Nontrivial = true
	kind := c.Idx % 9
	type expect struct {
		name string
		got  []byte
		want []byte
	}
	var b []byte
	var exps func(p *refnas.Parsed) []expect
	must := func(p *refnas.Parsed, name string) []byte { v, _ := p.Get(name); return v }
	var label string
	switch kind {
	case 0: // Registration Request
		label = "RegistrationRequest"
		imsi := digits(r, 15)
		ue := tglib.NewRanUeContext("imsi-"+imsi, 1, uint8(r.Intn(3)), uint8(1+r.Intn(2)))
		suciB := append([]byte{0x01}, rbytes(r, 7+r.Intn(6))...)
		suci := nasType.MobileIdentity5GS{Len: uint16(len(suciB)), Buffer: suciB}
		// every argument over the whole range its IE allows (TS 24.501 9.11.3): a constructor is right only if what the
		// caller hands over is what the independent parser reads back, also at the longest legal value of each IE
		cap := ue.GetUESecurityCapability()
		if r.Intn(3) == 0 {
			n := 2 + r.Intn(7)
			cap = &nasType.UESecurityCapability{Iei: nasMessage.RegistrationRequestUESecurityCapabilityType, Len: uint8(n), Buffer: cornerBytes(r, n)}
		}
		var c5 *nasType.Capability5GMM
		var c5want []byte
		switch r.Intn(3) {
		case 0:
			c5, c5want = ue.Get5GMMCapability(), []byte{0x07}
		case 1:
			n := 1 + c.Idx/9%13 // every legal length 1..13 in turn
			c5 = nasType.NewCapability5GMM(nasMessage.RegistrationRequestCapability5GMMType)
			c5want = cornerBytes(r, n)
			c5.SetLen(uint8(n))
			copy(c5.Octet[:], c5want)
		}
		var nssai *nasType.RequestedNSSAI
		if r.Intn(3) == 0 {
			n := []int{2, 3, 5, 6, 9, 40, 71, 72}[r.Intn(8)]
			nssai = &nasType.RequestedNSSAI{Iei: nasMessage.RegistrationRequestRequestedNSSAIType, Len: uint8(n), Buffer: cornerBytes(r, n)}
		}
		var uds *nasType.UplinkDataStatus
		if r.Intn(3) == 0 {
			n := []int{2, 2, 3, 32}[r.Intn(4)]
			uds = &nasType.UplinkDataStatus{Iei: nasMessage.RegistrationRequestUplinkDataStatusType, Len: uint8(n), Buffer: cornerBytes(r, n)}
		}
		regType := uint8(1 + r.Intn(4))
		var cont []byte
		switch r.Intn(4) {
		case 0:
			cont = rbytes(r, 1+r.Intn(60))
		case 1:
			cont = blockyBytes(r, []int{127, 128, 255, 256, 257, 1000, 2000, 4095}[r.Intn(8)])
		}
		if cont != nil {
			cont = shapeBytes(r, "NASMessageContainer", cont)
		}
		b = nasTestpacket.GetRegistrationRequest(regType, suci, nssai, cap, c5, cont, uds)
		exps = func(p *refnas.Parsed) []expect {
			e := []expect{
				{"5GS registration type | ngKSI", p.MandByName("NgksiAndRegistrationType5GS"), []byte{0x70 | 0x08 | regType}},
				{"5GS mobile identity", p.MandByName("MobileIdentity5GS"), suciB},
				{"UE security capability (2E)", must(p, "UESecurityCapability"), cap.Buffer},
			}
			opt := func(name, label string, want []byte, present bool) {
				v, ok := p.Get(name)
				switch {
				case present:
					e = append(e, expect{fmt.Sprintf("%s of %d octets", label, len(want)), v, want})
				case ok:
					e = append(e, expect{label + " that the caller did not supply", v, nil})
				}
			}
			opt("Capability5GMM", "5GMM capability (10)", c5want, c5 != nil)
			opt("NASMessageContainer", "NAS message container (71)", cont, cont != nil)
			if nssai != nil {
				opt("RequestedNSSAI", "requested NSSAI (2F)", nssai.Buffer, true)
			} else {
				opt("RequestedNSSAI", "requested NSSAI (2F)", nil, false)
			}
			if uds != nil {
				opt("UplinkDataStatus", "uplink data status (40)", uds.Buffer, true)
			} else {
				opt("UplinkDataStatus", "uplink data status (40)", nil, false)
			}
			return e
		}
	case 1: // Authentication Response
		label = "AuthenticationResponse"
		res := cornerBytes(r, 16)
		if r.Intn(4) == 0 { // the EAP-AKA' flavour: no RES*, an EAP message handed over in base64
			eap := blockyBytes(r, []int{4, 5, 40, 255, 256, 1000, 1500}[r.Intn(7)])
			b = nasTestpacket.GetAuthenticationResponse(nil, base64.StdEncoding.EncodeToString(eap))
			exps = func(p *refnas.Parsed) []expect {
				e := []expect{{"EAP message (78)", must(p, "EAPMessage"), eap}}
				if v, ok := p.Get("AuthenticationResponseParameter"); ok {
					e = append(e, expect{"authentication response parameter that was not supplied", v, nil})
				}
				return e
			}
			break
		}
		b = nasTestpacket.GetAuthenticationResponse(res, "")
		exps = func(p *refnas.Parsed) []expect {
			return []expect{{"authentication response parameter (2D)", must(p, "AuthenticationResponseParameter"), res}}
		}
	case 2: // Security Mode Complete
		label = "SecurityModeComplete"
		cont := rbytes(r, 1+r.Intn(80))
		if r.Intn(3) == 0 {
			cont = blockyBytes(r, []int{127, 128, 255, 256, 257, 1000, 2000, 4095}[r.Intn(8)])
		}
		cont = shapeBytes(r, "NASMessageContainer", cont) // what the container really carries: a NAS message, plain or protected
		b = nasTestpacket.GetSecurityModeComplete(cont)
		exps = func(p *refnas.Parsed) []expect {
			e := []expect{{"NAS message container (71)", must(p, "NASMessageContainer"), cont}}
			if v, ok := p.Get("IMEISV"); !ok || len(v) != 9 {
				e = append(e, expect{"IMEISV (77) of 9 octets", v, make([]byte, 9)})
			}
			return e
		}
	case 3, 4: // UL NAS TRANSPORT (PDU session establishment request / release request / release complete)
		psi := uint8(r.Intn(256))
		sn := models.Snssai{Sst: int32(r.Intn(256)), Sd: sdString(r)}
		dnnS := "internet"
		if r.Intn(2) == 0 {
			dnnS = string(bytes.Repeat([]byte{byte('a' + r.Intn(26))}, pick(r, 1, 2, 30, 63, 98, 99, 1+r.Intn(99)))) // the IE value (length octet + label) is at most 100 octets
		}
		if r.Intn(5) == 0 { // the full DNN of TS 23.003 9.1: network identifier + operator identifier (".mncDDD.mccDDD.gprs"), any letter case
			ni := pick(r, "internet", "ims", "a", string(bytes.Repeat([]byte{'x'}, 1+r.Intn(60))))
			dnnS = ni + pick(r, ".mnc", ".MNC", ".Mnc") + digits(r, 3) + pick(r, ".mcc", ".MCC") + digits(r, 3) + pick(r, ".gprs", ".GPRS")
		}
		reqType := uint8(pick(r, int(nasMessage.ULNASTransportRequestTypeInitialRequest), 1+r.Intn(5)))
		wantSn := []byte{byte(sn.Sst)}
		if sn.Sd != "" {
			var sd [3]byte
			fmt.Sscanf(sn.Sd, "%02x%02x%02x", &sd[0], &sd[1], &sd[2])
			wantSn = append(wantSn, sd[:]...)
		}
		var innerType byte
		withSlice := true
		switch r.Intn(3) {
		case 0:
			label, innerType = "ULNASTransport(EstablishmentRequest)", 0xc1
			b = nasTestpacket.GetUlNasTransport_PduSessionEstablishmentRequest(psi, reqType, dnnS, &sn)
		case 1:
			label, innerType, withSlice = "ULNASTransport(ReleaseRequest)", 0xd1, false
			b = nasTestpacket.GetUlNasTransport_PduSessionReleaseRequest(psi)
		default:
			label, innerType = "ULNASTransport(ReleaseComplete)", 0xd4
			b = nasTestpacket.GetUlNasTransport_PduSessionReleaseComplete(psi, reqType, dnnS, &sn)
		}
		exps = func(p *refnas.Parsed) []expect {
			cont := p.MandByName("PayloadContainer")
			e := []expect{
				{"payload container type", p.MandByName("SpareHalfOctetAndPayloadContainerType"), []byte{0x01}},
				{"PDU session ID (12)", must(p, "PduSessionID2Value"), []byte{psi}},
			}
			if withSlice {
				e = append(e, expect{"S-NSSAI (22)", must(p, "SNSSAI"), wantSn})
				e = append(e, expect{"DNN (25)", must(p, "DNN"), append([]byte{byte(len(dnnS))}, dnnS...)})
				if v, ok := p.Get("RequestType"); !ok || len(v) != 1 || v[0]&7 != reqType {
					e = append(e, expect{"request type (8-)", v, []byte{reqType}})
				}
			}
			ip, err := refnas.Parse(cont)
			if err != nil {
				e = append(e, expect{"payload container is a 5GSM message (" + err.Error() + ")", cont, nil})
				return e
			}
			e = append(e, expect{"5GSM message type in the container", []byte{ip.Def.MsgType}, []byte{innerType}})
			e = append(e, expect{"PDU session identity in the 5GSM header", []byte{ip.PSI}, []byte{psi}})
			return e
		}
	case 5: // Service Request
		label = "ServiceRequest"
		st := uint8(r.Intn(16))
		b = nasTestpacket.GetServiceRequest(st)
		exps = func(p *refnas.Parsed) []expect {
			v := p.MandByName("ServiceTypeAndNgksi")
			e := []expect{}
			if len(v) != 1 || v[0]>>4 != st {
				e = append(e, expect{"service type (bits 8-5 of the ngKSI octet)", v, []byte{st << 4}})
			}
			if id := p.MandByName("TMSI5GS"); len(id) != 7 {
				e = append(e, expect{"5G-S-TMSI (LV-E, 7 octets)", id, make([]byte, 7)})
			}
			return e
		}
	case 6: // Deregistration Request
		label = "DeregistrationRequest"
		suciB := append([]byte{0x01}, rbytes(r, 7+r.Intn(6))...)
		suci := nasType.MobileIdentity5GS{Len: uint16(len(suciB)), Buffer: suciB}
		so := uint8(r.Intn(2))
		at := uint8(1 + r.Intn(3))
		b = nasTestpacket.GetDeregistrationRequest(at, so, 4, suci)
		exps = func(p *refnas.Parsed) []expect {
			v := p.MandByName("NgksiAndDeregistrationType")
			e := []expect{{"5GS mobile identity", p.MandByName("MobileIdentity5GS"), suciB}}
			if len(v) != 1 || v[0]&3 != at || (v[0]>>3)&1 != so {
				e = append(e, expect{"de-registration type (switch off, access type)", v, []byte{so<<3 | at}})
			}
			return e
		}
	case 7: // Registration Complete
		label = "RegistrationComplete"
		var sor []byte
		if r.Intn(2) == 0 {
			sor = cornerBytes(r, 17) // 8.2.8: a type 6 IE of exactly 20 octets in this message
		}
		b = nasTestpacket.GetRegistrationComplete(sor)
		exps = func(p *refnas.Parsed) []expect {
			v, ok := p.Get("SORTransparentContainer")
			if sor != nil {
				return []expect{{"SOR transparent container (73)", v, sor}}
			}
			if ok {
				return []expect{{"SOR transparent container that was not supplied", v, nil}}
			}
			return nil
		}
	default: // PDU session establishment request alone
		label = "PDUSessionEstablishmentRequest"
		psi := uint8(r.Intn(256))
		b = nasTestpacket.GetPduSessionEstablishmentRequest(psi)
		exps = func(p *refnas.Parsed) []expect {
			return []expect{{"PDU session identity", []byte{p.PSI}, []byte{psi}}}
		}
	}
	o.Tag("constructor:" + label)
	o.Digest = fw.Hash([]byte(label), b)
	o.Input = label + " " + hexs(clip(b, 120))
	p, err := refnas.Parse(b)
	o.Count("constructor_messages_parsed", 1)
	if err != nil {
		o.Fail("constructor-layout:"+label, "the emulator's %s does not parse per TS 24.501: %v\n %x", label, err, clip(b, 200))
		return
	}
	for _, e := range exps(p) {
		if !bytes.Equal(e.got, e.want) {
			o.Fail("constructor-field:"+label, "%s: %s is %x on the wire, intended %x\n %x", label, e.name, clip(e.got, 40), clip(e.want, 40), clip(b, 200))
			return
		}
	}
	_ = reflect.TypeOf
	_ = rand.Int
	return
}
