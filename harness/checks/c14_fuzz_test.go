package checks

import (
	"math/rand"
	"runtime/debug"
	"testing"
	"time"

	"free5gclib/ngap"

	"vh/ref/per"
)

// FuzzNgapDecoder is the coverage-guided workload source of C14's thorough tier (Go native fuzzing, stdlib only).
// Seeds: canonical encodings of generated PDUs of every message type. Oracle: the same crash / allocation / slow-call
// monitors as the mutation sweep.
func FuzzNgapDecoder(f *testing.F) {
	harvest()
	r := rand.New(rand.NewSource(1))
	for i, m := range ngapMessages() {
		for k := 0; k < 2; k++ {
			pdu, _ := genPDU(r, m, 30+r.Intn(150), false)
			if b, err := per.Marshal(pdu, pduTag); err == nil && len(b) <= 4096 {
				f.Add(b)
			}
		}
		_ = i
	}
	f.Fuzz(func(t *testing.T, in []byte) {
		if len(in) > 4096 {
			return
		}
		a0 := heapAllocs()
		t0 := time.Now()
		func() {
			defer func() {
				if rec := recover(); rec != nil {
					t.Fatalf("ngap.Decoder panicked: %v\n%s", rec, debug.Stack())
				}
			}()
			ngap.Decoder(append([]byte(nil), in...))
		}()
		if d := heapAllocs() - a0; d > c14AllocBound {
			t.Fatalf("ngap.Decoder allocated %d bytes for a %d-octet input", d, len(in))
		}
		if d := time.Since(t0); d > 3*time.Second {
			t.Fatalf("ngap.Decoder needed %v for a %d-octet input", d, len(in))
		}
	})
}
