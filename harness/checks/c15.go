package checks

import (
	"bytes"
	"encoding/hex"
	"fmt"
	"os"

	"free5gclib/CommonConsumerTestData/UDM/TestGenAuthData"
	"free5gclib/milenage"

	"vh/fw"
	"vh/ref/sec"
)

// C15 — the Milenage library equals TS 35.206 (independent implementation in ref/sec) and its AUTN check accepts
// exactly the valid, fresh AUTNs; resynchronisation tokens are accepted by the network-side check and carry the UE's SQN.
func init() {
	fw.Register(&fw.Check{
		ID:    "C15",
		Level: "exploration",
		Rule: "case = (K, OP, RAND, SQN_net, SQN_ue, AMF) with SQN pairs drawn from {equal, +-1, differing only in octet i (i by index), random}; each case compares F1, F2345, GenerateOPC, MilenageGenerate with ref/sec, " +
			"runs Milenage_check on the valid AUTN and on single-bit corruptions of every AUTN bit (all 128 in thorough, 32 sampled in quick) plus single-octet corruptions, " +
			"and on stale SQNs feeds the AUTS to Milenage_auts, also with every AUTS bit corrupted; case 0 is the TS 35.208 set recorded in the anchored test-data file (recorded outputs = library = reference, field by field). Calls with output subsets, with wider used output buffers, refused calls; consecutive cases resembling or algebraically related to their predecessor (same K, other OP, same first AES input); the first calls of every process use all-zero arguments. distinct = hash(inputs); all cases non-trivial",
		Assumptions: []string{
			"SQN comparison is the unsigned 48-bit integer order; a stale SQN with a bad MAC may be reported either as failure or as resynchronisation",
			"ref/sec Milenage self-tested against TS 35.207/208 sets 1-3 at start",
		},
		N: func(t string) int {
			if t == "thorough" {
				return 2000000
			}
			return 100000
		},
		Batch: 4000,
		Init:  c15Init,
		Run:   runC15,
	})
}

var c15K, c15OP, c15RAND [16]byte

var c15Prev struct {
	k, op, rnd [16]byte
	set        bool
}

func sqnLess(a, b []byte) bool { return bytes.Compare(a, b) < 0 }

// c15Anchored: the TS 35.208 test set recorded in the repository (the second file the property is anchored in) is one more
// input: the library's outputs for the recorded K / OP / RAND / SQN / AMF, the independent implementation's, and the
// outputs recorded next to them must be one and the same.
func c15Anchored() (o fw.Outcome) {
	ts := TestGenAuthData.MilenageTestSet19
	o.Input = fmt.Sprintf("recorded test set: %+v", ts)
	o.Digest, o.Nontrivial = fw.HashS("anchored-set", fmt.Sprintf("%+v", ts)), true
	o.Tag("anchored-test-set")
	hx := func(name, s string, n int) []byte {
		b, err := hex.DecodeString(s)
		if (err != nil || len(b) != n) && !o.Failed() {
			o.Fail("anchored-test-set:"+name, "recorded %s %q is not %d octets of hexadecimal", name, s, n)
		}
		return b
	}
	k, rnd, sqn, amf, op := hx("K", ts.K, 16), hx("RAND", ts.RAND, 16), hx("SQN", ts.SQN, 6), hx("AMF", ts.AMF, 2), hx("OP", ts.OP, 16)
	rec := map[string][]byte{"OPC": hx("OPC", ts.OPC, 16), "F1": hx("F1", ts.F1, 8), "F1star": hx("F1star", ts.F1star, 8), "F2": hx("F2", ts.F2, 8),
		"F3": hx("F3", ts.F3, 16), "F4": hx("F4", ts.F4, 16), "F5": hx("F5", ts.F5, 6), "F5star": hx("F5star", ts.F5star, 6)}
	if o.Failed() {
		return
	}
	opc := sec.ComputeOPc(k, op)
	macA, macS := sec.F1(k, opc, rnd, sqn, amf)
	res, ck, ik, ak, akS := sec.F2345(k, opc, rnd)
	ref := map[string][]byte{"OPC": opc, "F1": macA, "F1star": macS, "F2": res, "F3": ck, "F4": ik, "F5": ak, "F5star": akS}
	lOpc, _ := milenage.GenerateOPC(k, op)
	lA, lS := make([]byte, 8), make([]byte, 8)
	milenage.F1(opc, k, rnd, sqn, amf, lA, lS)
	lRes, lCk, lIk, lAk, lAkS := make([]byte, 8), make([]byte, 16), make([]byte, 16), make([]byte, 6), make([]byte, 6)
	milenage.F2345(opc, k, rnd, lRes, lCk, lIk, lAk, lAkS)
	lib := map[string][]byte{"OPC": lOpc, "F1": lA, "F1star": lS, "F2": lRes, "F3": lCk, "F4": lIk, "F5": lAk, "F5star": lAkS}
	for _, name := range []string{"OPC", "F1", "F1star", "F2", "F3", "F4", "F5", "F5star"} {
		if !bytes.Equal(rec[name], ref[name]) || !bytes.Equal(lib[name], ref[name]) {
			o.Fail("anchored-test-set:"+name, "for the recorded inputs %s is %x in the recorded set, %x from the library, %x per TS 35.206", name, rec[name], lib[name], ref[name])
			return
		}
		o.Count("anchored_fields_compared", 1)
	}
	// a resynchronisation token concealed with the recorded AK* carries the SQN it was built from
	auts := make([]byte, 14)
	for i := 0; i < 6; i++ {
		auts[i] = sqn[i] ^ rec["F5star"][i]
	}
	_, s0 := sec.F1(k, opc, rnd, sqn, []byte{0, 0})
	copy(auts[6:], s0)
	out := make([]byte, 6)
	if rr := milenage.Milenage_auts(opc, k, rnd, auts, out); rr != 0 || !bytes.Equal(out, sqn) {
		o.Fail("anchored-test-set:AUTS", "AUTS built from the recorded SQN, AK* and f1* over AMF 0000 is answered %d with SQN %x (recorded %x)", rr, out, sqn)
	}
	return
}

// c15Init: the oracle's self-test, then THE FIRST CALLS OF THIS PROCESS into the library, with all-zero K, OPc, RAND, SQN
// and AMF - the zero value of anything the library might remember between calls. Judged by the first case of the process.
var c15FirstCalls string

func c15Init() error {
	if err := sec.SelfTest(); err != nil {
		return err
	}
	z16, z6, z2 := make([]byte, 16), make([]byte, 6), make([]byte, 2)
	wRes, wCk, wIk, wAk, wAkS := sec.F2345(z16, z16, z16)
	wA, wS := sec.F1(z16, z16, z16, z6, z2)
	res, ck, ik, ak, akS, a, b := make([]byte, 8), make([]byte, 16), make([]byte, 16), make([]byte, 6), make([]byte, 6), make([]byte, 8), make([]byte, 8)
	if os.Getpid()%2 == 0 {
		milenage.F2345(z16, z16, z16, res, ck, ik, ak, akS)
		milenage.F1(z16, z16, z16, z6, z2, a, b)
	} else {
		milenage.F1(z16, z16, z16, z6, z2, a, b)
		milenage.F2345(z16, z16, z16, res, ck, ik, ak, akS)
	}
	if !bytes.Equal(res, wRes) || !bytes.Equal(ck, wCk) || !bytes.Equal(ik, wIk) || !bytes.Equal(ak, wAk) || !bytes.Equal(akS, wAkS) || !bytes.Equal(a, wA) || !bytes.Equal(b, wS) {
		c15FirstCalls = fmt.Sprintf("F1 / F2345 with all-zero K, OPc, RAND, SQN, AMF as the first calls of a process: res=%x ck=%x ik=%x ak=%x ak*=%x f1=%x f1*=%x; TS 35.206 gives %x %x %x %x %x %x %x", res, ck, ik, ak, akS, a, b, wRes, wCk, wIk, wAk, wAkS, wA, wS)
	}
	return nil
}

func runC15(c *fw.Case) (o fw.Outcome) {
	if c15FirstCalls != "" {
		o.Nontrivial, o.Digest = true, fw.HashS("first-calls", fmt.Sprint(c.Idx))
		o.Fail("first-call-of-a-process", "%s", c15FirstCalls)
		return
	}
	if c.Idx == 0 {
		return c15Anchored()
	}
	r := c.R
	// the caller's buffers for K, OP and RAND are re-used from case to case and overwritten in place, as a subscriber
	// loader does: results must depend on the contents, not on the identity of the slices
	k, op, rnd := c15K[:], c15OP[:], c15RAND[:]
	copy(k, cornerBytes(r, 16))
	copy(op, cornerBytes(r, 16))
	copy(rnd, cornerBytes(r, 16))
	if c.Idx%3 == 0 { // and sometimes fresh slices
		k, op, rnd = append([]byte(nil), k...), append([]byte(nil), op...), append([]byte(nil), rnd...)
	}
	if c.Idx%3 == 2 && c15Prev.set { // resembles the previous case: a subset of (K, OP, RAND) carried over, perhaps one bit away
		for i, f := range [][]byte{k, op, rnd} {
			if r.Intn(2) == 0 {
				copy(f, [][]byte{c15Prev.k[:], c15Prev.op[:], c15Prev.rnd[:]}[i])
				if r.Intn(3) == 0 {
					f[r.Intn(16)] ^= 1 << uint(r.Intn(8))
				}
			}
		}
		o.Tag("resembles-previous-case")
	}
	if c.Idx%24 == 14 && c15Prev.set {
		// ALGEBRAICALLY RELATED to the previous case: the same K, another OP, and a RAND chosen so that RAND xor OPc - the
		// input of the first AES pass of f1..f5* - is the previous case's. Everything after that pass depends on OPc again.
		copy(k, c15Prev.k[:])
		prevOpc, opcNow := sec.ComputeOPc(c15Prev.k[:], c15Prev.op[:]), sec.ComputeOPc(k, op)
		for i := range rnd {
			rnd[i] = c15Prev.rnd[i] ^ prevOpc[i] ^ opcNow[i]
		}
		o.Tag("same-first-aes-input-as-the-previous-case")
	}
	copy(c15Prev.k[:], k)
	copy(c15Prev.op[:], op)
	copy(c15Prev.rnd[:], rnd)
	c15Prev.set = true
	amf := rbytes(r, 2)
	sqnNet := rbytes(r, 6)
	sqnUE := append([]byte(nil), sqnNet...)
	mode := c.Idx % 12
	switch {
	case mode == 0: // equal
	case mode == 1: // net = ue + 1
		for i := 5; i >= 0; i-- {
			sqnNet[i]++
			if sqnNet[i] != 0 {
				break
			}
		}
	case mode == 2: // net = ue - 1
		for i := 5; i >= 0; i-- {
			sqnNet[i]--
			if sqnNet[i] != 0xff {
				break
			}
		}
	case mode >= 3 && mode <= 8: // differ only in octet i
		i := mode - 3
		for sqnUE[i] == sqnNet[i] {
			sqnUE[i] = byte(r.Intn(256))
		}
	default:
		sqnUE = rbytes(r, 6)
	}
	// caller-owned memory: one case in four passes its inputs as views into ONE record (random order, canary octets in
	// between, capacity reaching to the end of the record - what a slice of a larger buffer looks like). A callee that
	// appends to an argument writes into the caller's neighbouring fields; nothing but the output buffers may change.
	var arena, arenaWas []byte
	if c.Idx%4 == 1 {
		arena = bytes.Repeat([]byte{0x5a}, 160)
		fields := []*[]byte{&sqnNet, &rnd, &amf, &k, &op}
		r.Shuffle(len(fields), func(i, j int) { fields[i], fields[j] = fields[j], fields[i] })
		off := r.Intn(4)
		for _, f := range fields {
			n := len(*f)
			copy(arena[off:], *f)
			*f = arena[off : off+n] // capacity deliberately not limited
			off += n + r.Intn(3)
		}
		arenaWas = append([]byte(nil), arena...)
		o.Tag("arguments-are-views-into-one-record")
	}
	arenaIntact := func(after string) bool {
		if arena != nil && !bytes.Equal(arena, arenaWas) {
			o.Fail("caller-memory-overwritten", "after %s the caller's record holding SQN / RAND / AMF / K / OP (arguments are sub-slices of it) changed at octet %d: %x -> %x", after, firstDiff(arena, arenaWas), arenaWas, arena)
			return false
		}
		return true
	}
	o.Input = kv("k", hexs(k), "op", hexs(op), "rand", hexs(rnd), "amf", hexs(amf), "sqn_net", hexs(sqnNet), "sqn_ue", hexs(sqnUE))
	o.Digest = fw.Hash(k, op, rnd, amf, sqnNet, sqnUE)
	o.Nontrivial = true
	o.Tag(fmt.Sprintf("sqn-mode=%d", mode))

	// a call the library refuses (arguments of the wrong length) right before, with otherwise the same values: whatever
	// it does on its error path, the good calls that follow are judged as always
	if c.Idx%8 == 5 {
		func() {
			defer func() { recover() }()
			short := r.Intn(16)
			milenage.GenerateOPC(k[:short], op)
			milenage.F1(op, k[:short], rnd, sqnNet, amf, make([]byte, 8), make([]byte, 8))
			milenage.F2345(op, k, rnd[:short], make([]byte, 8), make([]byte, 16), make([]byte, 16), make([]byte, 6), make([]byte, 6))
		}()
		o.Count("refused_calls_before", 3)
	}
	// ---- functions against TS 35.206
	opc := sec.ComputeOPc(k, op)
	gotOpc, err := milenage.GenerateOPC(k, op)
	if err != nil || !bytes.Equal(gotOpc, opc) {
		o.Fail("opc", "GenerateOPC %x (err %v), TS 35.206 gives %x", gotOpc, err, opc)
		return
	}
	wMacA, wMacS := sec.F1(k, opc, rnd, sqnNet, amf)
	macA, macS := make([]byte, 8), make([]byte, 8)
	if err := milenage.F1(opc, k, rnd, sqnNet, amf, macA, macS); err != nil || !bytes.Equal(macA, wMacA) || !bytes.Equal(macS, wMacS) {
		o.Fail("f1", "F1: f1=%x f1*=%x (err %v), TS 35.206 gives %x / %x", macA, macS, err, wMacA, wMacS)
		return
	}
	if !arenaIntact("GenerateOPC / F1") {
		return
	}
	wRes, wCk, wIk, wAk, wAkS := sec.F2345(k, opc, rnd)
	res, ck, ik, ak, akS := make([]byte, 8), make([]byte, 16), make([]byte, 16), make([]byte, 6), make([]byte, 6)
	if err := milenage.F2345(opc, k, rnd, res, ck, ik, ak, akS); err != nil || !bytes.Equal(res, wRes) || !bytes.Equal(ck, wCk) || !bytes.Equal(ik, wIk) || !bytes.Equal(ak, wAk) || !bytes.Equal(akS, wAkS) {
		o.Fail("f2345", "F2345: res=%x ck=%x ik=%x ak=%x ak*=%x (err %v); TS 35.206 gives %x %x %x %x %x", res, ck, ik, ak, akS, err, wRes, wCk, wIk, wAk, wAkS)
		return
	}
	o.Count("function_comparisons", 3)
	// every SHAPE of call the library admits: an output the caller does not want is passed as nil (F1: 3 shapes, F2345:
	// 31 non-empty subsets); what is asked for must be right whatever else is left out
	if c.Idx%8 == 3 {
		for m := 1; m < 4; m++ {
			var a, b []byte
			if m&1 != 0 {
				a = make([]byte, 8)
			}
			if m&2 != 0 {
				b = make([]byte, 8)
			}
			if err := milenage.F1(opc, k, rnd, sqnNet, amf, a, b); err != nil || (a != nil && !bytes.Equal(a, wMacA)) || (b != nil && !bytes.Equal(b, wMacS)) {
				o.Fail("f1", "F1 asked for outputs %02b only: f1=%x f1*=%x (err %v), TS 35.206 gives %x / %x", m, a, b, err, wMacA, wMacS)
				return
			}
		}
		want := [][]byte{wRes, wCk, wIk, wAk, wAkS}
		for m := 1; m < 32; m++ {
			outs := make([][]byte, 5)
			for i := range outs {
				if m&(1<<uint(i)) != 0 {
					outs[i] = make([]byte, len(want[i]))
				}
			}
			err := milenage.F2345(opc, k, rnd, outs[0], outs[1], outs[2], outs[3], outs[4])
			for i := range outs {
				if err != nil || (outs[i] != nil && !bytes.Equal(outs[i], want[i])) {
					o.Fail("f2345", "F2345 asked for outputs %05b (res ck ik ak ak*, low bit first) only: output %d is %x (err %v), TS 35.206 gives %x", m, i, outs[i], err, want[i])
					return
				}
			}
			o.Count("output_subsets", 1)
		}
	}
	// ---- generation
	autn := make([]byte, 16)
	gIk, gCk, gAk, gRes := make([]byte, 16), make([]byte, 16), make([]byte, 6), make([]byte, 8)
	resLen := uint(8)
	milenage.MilenageGenerate(opc, amf, k, sqnNet, rnd, autn, gIk, gCk, gAk, gRes, &resLen)
	if !arenaIntact("F2345 / MilenageGenerate") {
		return
	}
	wAutn := sec.GenerateAUTN(k, opc, rnd, sqnNet, amf)
	if resLen != 8 || !bytes.Equal(autn, wAutn) || !bytes.Equal(gRes, wRes) || !bytes.Equal(gCk, wCk) || !bytes.Equal(gIk, wIk) {
		o.Fail("generate", "MilenageGenerate: autn=%x res=%x (len %d); reference autn=%x res=%x", autn, gRes, resLen, wAutn, wRes)
		return
	}
	if c.Idx%8 == 5 {
		// output buffers WIDER than the values, holding what they held before (a scratch area the caller reuses: an earlier
		// CK, RES, AUTN): each value is written to the front of its buffer and is what TS 35.206 says, whatever lies behind it
		w := func(n int) []byte { return rbytes(r, n+pick(r, 1, 2, 8, 10, 16)) }
		xAutn, xIk, xCk, xAk, xRes := w(16), w(16), w(16), w(6), w(8)
		xLen := uint(8)
		milenage.MilenageGenerate(opc, amf, k, sqnNet, rnd, xAutn, xIk, xCk, xAk, xRes, &xLen)
		if xLen != 8 || !bytes.Equal(xAutn[:16], wAutn) || !bytes.Equal(xRes[:8], wRes) || !bytes.Equal(xCk[:16], wCk) || !bytes.Equal(xIk[:16], wIk) || !bytes.Equal(xAk[:6], wAk) {
			o.Fail("generate", "MilenageGenerate into wider, used buffers (autn %d, ik %d, ck %d, ak %d, res %d octets): autn=%x res=%x ak=%x (len %d); reference autn=%x res=%x ak=%x",
				len(xAutn), len(xIk), len(xCk), len(xAk), len(xRes), xAutn[:16], xRes[:8], xAk[:6], xLen, wAutn, wRes, wAk)
			return
		}
		yRes, yCk, yIk, yAk, yAkS := w(8), w(16), w(16), w(6), w(6)
		yA, yS := w(8), w(8)
		e1 := milenage.F2345(opc, k, rnd, yRes, yCk, yIk, yAk, yAkS)
		e2 := milenage.F1(opc, k, rnd, sqnNet, amf, yA, yS)
		if e1 != nil || e2 != nil || !bytes.Equal(yRes[:8], wRes) || !bytes.Equal(yCk[:16], wCk) || !bytes.Equal(yIk[:16], wIk) || !bytes.Equal(yAk[:6], wAk) || !bytes.Equal(yAkS[:6], wAkS) || !bytes.Equal(yA[:8], wMacA) || !bytes.Equal(yS[:8], wMacS) {
			o.Fail("f2345", "F1 / F2345 into wider, used buffers: res=%x ck=%x ik=%x ak=%x ak*=%x f1=%x f1*=%x (err %v %v); TS 35.206 gives %x %x %x %x %x %x %x", yRes[:8], yCk[:16], yIk[:16], yAk[:6], yAkS[:6], yA[:8], yS[:8], e1, e2, wRes, wCk, wIk, wAk, wAkS, wMacA, wMacS)
			return
		}
		o.Count("wider_used_buffer_calls", 3)
	}
	if c.Idx%8 == 6 {
		// SQN and AMF handed over as VIEWS of the token buffer (a caller that keeps one AUTN buffer, de-conceals the SQN in
		// place and counts on from there): the inputs are read before the token is written
		tok := make([]byte, 16)
		copy(tok[0:6], sqnNet)
		copy(tok[6:8], amf)
		vIk, vCk, vAk, vRes := make([]byte, 16), make([]byte, 16), make([]byte, 6), make([]byte, 8)
		vLen := uint(8)
		milenage.MilenageGenerate(opc, tok[6:8], k, tok[0:6], rnd, tok, vIk, vCk, vAk, vRes, &vLen)
		if !bytes.Equal(tok, wAutn) || !bytes.Equal(vRes, wRes) {
			o.Fail("generate", "MilenageGenerate with SQN and AMF given as views of the AUTN buffer: autn=%x res=%x; reference autn=%x res=%x", tok, vRes, wAutn, wRes)
			return
		}
		o.Count("calls_with_inputs_aliasing_the_output", 1)
	}
	// ---- checking: the accept-iff-valid predicate
	fresh := sqnLess(sqnUE, sqnNet)
	check := func(a []byte) (ret int, res, ck, ik, auts []byte) {
		res, ck, ik, auts = make([]byte, 8), make([]byte, 16), make([]byte, 16), make([]byte, 14)
		rl := uint(0)
		ret = milenage.Milenage_check(opc, k, append([]byte(nil), sqnUE...), rnd, append([]byte(nil), a...), ik, ck, res, &rl, auts)
		o.Count("autn_checks", 1)
		return
	}
	if c.Idx%8 == 3 && fresh {
		for m := 0; m < 7; m++ { // the valid AUTN checked by a caller that wants only some of RES / CK / IK
			var bufs [3][]byte
			for i, n := range []int{8, 16, 16} {
				if m&(1<<uint(i)) != 0 {
					bufs[i] = make([]byte, n)
				}
			}
			rl := uint(0)
			var rr int
			func() {
				defer func() {
					if rec := recover(); rec != nil {
						rr = -99
					}
				}()
				rr = milenage.Milenage_check(opc, k, append([]byte(nil), sqnUE...), rnd, append([]byte(nil), autn...), bufs[2], bufs[1], bufs[0], &rl, make([]byte, 14))
			}()
			if rr == -99 {
				continue // a nil buffer the unchanged library does not admit in this position: not judged
			}
			if rr != 0 || (bufs[0] != nil && !bytes.Equal(bufs[0], wRes)) || (bufs[1] != nil && !bytes.Equal(bufs[1], wCk)) || (bufs[2] != nil && !bytes.Equal(bufs[2], wIk)) {
				o.Fail("valid-autn-rejected", "valid, fresh AUTN checked with output buffers %03b (res ck ik): return %d", m, rr)
				return
			}
			o.Count("check_output_subsets", 1)
		}
	}
	ret, cRes, cCk, cIk, auts := check(autn)
	switch {
	case fresh && ret != 0:
		o.Fail("valid-autn-rejected", "valid AUTN with SQN_net %x > SQN_ue %x rejected (return %d)", sqnNet, sqnUE, ret)
		return
	case fresh && (!bytes.Equal(cRes, wRes) || !bytes.Equal(cCk, wCk) || !bytes.Equal(cIk, wIk)):
		o.Fail("check-wrong-keys", "Milenage_check returned other RES/CK/IK than the generation")
		return
	case !fresh && ret == 0:
		o.Fail("stale-sqn-accepted", "AUTN with SQN_net %x <= SQN_ue %x accepted", sqnNet, sqnUE)
		return
	case !fresh && ret != -2:
		o.Fail("stale-sqn-no-resync", "stale SQN (net %x, ue %x) with a valid MAC returned %d instead of a resynchronisation", sqnNet, sqnUE, ret)
		return
	}
	if !fresh {
		wAuts := sec.GenerateAUTS(k, opc, rnd, sqnUE)
		if !bytes.Equal(auts, wAuts) {
			o.Fail("auts-wrong", "AUTS %x, TS 33.102 6.3.3 gives %x", auts, wAuts)
			return
		}
		out := make([]byte, 6)
		if rr := milenage.Milenage_auts(opc, k, rnd, auts, out); rr != 0 || !bytes.Equal(out, sqnUE) {
			o.Fail("auts-not-accepted", "network-side AUTS check returned %d with SQN %x, UE SQN is %x", rr, out, sqnUE)
			return
		}
		o.Count("auts_round_trips", 1)
		nb := 112
		step := 1
		if !c.Thorough() {
			step = 5
		}
		for b := c.Idx % step; b < nb; b += step {
			bad := append([]byte(nil), auts...)
			bad[b/8] ^= 0x80 >> uint(b%8)
			if rr := milenage.Milenage_auts(opc, k, rnd, bad, make([]byte, 6)); rr == 0 {
				o.Fail("forged-auts-accepted", "AUTS with bit %d flipped accepted", b)
				return
			}
			o.Count("auts_corruptions", 1)
		}
	}
	// corrupted AUTNs must never be accepted
	step := 1
	if !c.Thorough() {
		step = 4
	}
	for b := c.Idx % step; b < 128; b += step {
		bad := append([]byte(nil), autn...)
		bad[b/8] ^= 0x80 >> uint(b%8)
		if rr, _, _, _, _ := check(bad); rr == 0 {
			o.Fail("forged-autn-accepted", "AUTN with bit %d flipped (octet %d: %s) accepted; SQN_net %x SQN_ue %x", b, b/8, autnPart(b/8), sqnNet, sqnUE)
			return
		}
		o.Count("autn_corruptions", 1)
	}
	for oc := 0; oc < 16; oc++ {
		reps := 2
		if c.Thorough() {
			reps = 8
		}
		for j := 0; j < reps; j++ {
			bad := append([]byte(nil), autn...)
			x := byte(r.Intn(256))
			if x == bad[oc] {
				x ^= 0x55
			}
			bad[oc] = x
			if rr, _, _, _, _ := check(bad); rr == 0 {
				o.Fail("forged-autn-accepted", "AUTN with octet %d (%s) replaced by %02x accepted; SQN_net %x SQN_ue %x", oc, autnPart(oc), x, sqnNet, sqnUE)
				return
			}
			o.Count("autn_corruptions", 1)
		}
	}
	arenaIntact("Milenage_check / Milenage_auts")
	return
}

func autnPart(octet int) string {
	switch {
	case octet < 6:
		return "SQN xor AK"
	case octet < 8:
		return "AMF"
	}
	return "MAC-A"
}
