package checks

import (
	"bytes"
	"crypto/sha256"
	"fmt"
	"math/rand"
	"os"
	"runtime"
	"strings"
	"sync"
	"sync/atomic"
	"time"

	"free5gclib/milenage"
	"free5gclib/nas"
	"free5gclib/nas/nasMessage"
	"free5gclib/nas/nasTestpacket"
	"free5gclib/nas/security"
	"free5gclib/ngap"
	"free5gclib/openapi/models"
	"tglib"
	tp "tglib/ngapTestpacket"

	"vh/fw"
	"vh/gen/nasdesc"
	"vh/ref/sec"
)

// C20 — codecs and security functions used concurrently for different UEs. Two monitors: the Go race detector (the
// children of this check are the -race build; reports are collected from GORACE log files and keyed by the innermost
// code-under-test frames of the two accesses) and a determinism oracle (every operation's result under concurrency
// must equal its result in the sequential pre-run of the same scripts - the stateless-model linearizability check).
func init() {
	fw.Register(&fw.Check{
		ID:    "C20",
		Level: "exploration",
		Rule: "case = G goroutines (2, 4, 16, 64 by index), goroutine g owns UE context g (own keys, algorithm pair cycling through {NIA1,NIA2}x{NEA0,NEA1,NEA2}) and executes a seeded script (lock-step prefix of 3 rounds over all operation kinds, then one burst of 16 (quick) / 64 (thorough) consecutive operations per kind at the same script positions in every goroutine, then a mixed random tail of 60 / 400) of operations drawn from " +
			"NGAP build+encode, NGAP decode, plain NAS encode/decode, NAS protect (EncodeNasPduWithSecurity), NAS unprotect (NASDecode), key derivation (DeriveRESstarAndSetKey), NASEncrypt, NASMacCalculate, Milenage F1/F2345, and - generated inside the goroutine - any of the 77 NGAP message types (encode, decode, re-encode), the 25 transfer container types through aper.MarshalWithParams/UnmarshalWithParams, any of the 45 NAS message types with a random optional-IE subset, the 64 builders that do not write the announced PLMN, the identity / conversion helpers (EncodeSuci, CreateUE, capability, PLMN, S-NSSAI, AMF id, transport address, PCO, DNN) the two hand-written extractors on reference-built messages, values of 16K octets and more, the exported algorithm functions NEA1 / NIA1 / NEA2 / NIA2 themselves and decodes of the most deeply nested message types; " +
			"GOMAXPROCS alternates between 2 and 16, Gosched calls are sprinkled by the script. Each case is a fresh process: the scripts run concurrently FIRST (caches and lazily built tables cold; a lock-step prefix makes every goroutine use each operation kind on identical inputs at the same time, so first uses collide), then one goroutine at a time for reference. Eight further cases are HOT LOOPS (the last one: 128 goroutines that decode their own deepest NGAP message back to back): 8 goroutines with related keys (equal leading octets; in every second loop IDENTICAL keys and pairs of goroutines issuing the same calls with the same inputs) run 12 000 (quick) / 120 000 (thorough) iterations of one or two cheap operation kinds (MAC+cipher, key derivation, Milenage, conversions, ...), for windows of a few instructions. distinct = hash(G, scripts); non-trivial = overlapping operations were observed",
		Assumptions: []string{
			"NG Setup (which writes the announced PLMN) is issued once before the goroutines start, as in the emulator",
			"'all interleavings' is approached by stress; the race detector's verdict is timing independent (happens-before), the determinism oracle's is not",
		},
		N: func(t string) int {
			if t == "thorough" {
				return 96 + 4*len(c20HotSets)
			}
			return 12 + len(c20HotSets)
		},
		Batch: 1,
		// one process in four is STARTED with a single P (what a one-CPU host or container gives): whatever the code reads
		// about its environment at start-up must not decide whether it synchronises
		ChildEnv: func(idx int) []string {
			if idx%4 == 3 {
				return []string{"GOMAXPROCS=1"}
			}
			return nil
		},
		Race:  true,
		Stall: 10 * time.Minute, // one case is one long stress run: the per-case stall monitor must not cut it

		Init: sec.SelfTest,
		Run:  runC20,
	})
}

type c20Actor struct {
	ue       *tglib.RanUeContext
	dlUE     *tglib.RanUeContext
	r        *rand.Rand
	k, opc   []byte
	amf      int64
	dlCount  uint32
	descs    []nasdesc.Msg
	builders []int
	deep     []byte     // the actor's deeply nested message (operation deeply-nested-decode), built at first use
	own, rc  *rand.Rand // own PRNG; PRNG seeded identically in every goroutine (lock-step prefix)
}

// c20Step runs operation i of the script: during the lock-step prefix the inputs come from the common-seeded PRNG.
func c20Step(a *c20Actor, i, prefix, kind int) [32]byte {
	if i < prefix {
		a.r = a.rc
	} else {
		a.r = a.own
	}
	return c20Op(a, kind)
}

var c20RefMu sync.Mutex

var c20OpNames = append([]string{"ngap-encode", "ngap-decode", "nas-plain", "nas-protect", "nas-unprotect", "key-derivation", "nas-encrypt", "nas-mac", "milenage"}, c20ExtNames...)

const c20BaseOps = 9

// c20Op executes operation kind for the actor and returns a digest of everything it produced.
func c20Op(a *c20Actor, kind int) [32]byte {
	fw.Beat()
	h := sha256.New()
	r := a.r
	switch kind {
	case 0:
		b, err := ngap.Encoder(tp.BuildUplinkNasTransport(a.amf, a.ue.RanUeNgapId, rbytes(r, 1+r.Intn(60))))
		fmt.Fprint(h, err)
		h.Write(b)
		b, err = ngap.Encoder(tp.BuildInitialUEMessage(a.ue.RanUeNgapId, rbytes(r, 1+r.Intn(60)), ""))
		fmt.Fprint(h, err)
		h.Write(b)
		b, err = tglib.GetPDUSessionResourceSetupResponse(a.amf, a.ue.RanUeNgapId, int64(r.Intn(256)), "10.0.0.1")
		fmt.Fprint(h, err)
		h.Write(b)
	case 1:
		b, _ := ngap.Encoder(tp.BuildUplinkNasTransport(a.amf, a.ue.RanUeNgapId, rbytes(r, 1+r.Intn(60))))
		pdu, err := ngap.Decoder(b)
		fmt.Fprint(h, err)
		if pdu != nil {
			b2, err := ngap.Encoder(*pdu)
			fmt.Fprint(h, err)
			h.Write(b2)
		}
	case 2:
		sn := models.Snssai{Sst: int32(r.Intn(256)), Sd: sdString(r)}
		b := nasTestpacket.GetUlNasTransport_PduSessionEstablishmentRequest(uint8(r.Intn(256)), nasMessage.ULNASTransportRequestTypeInitialRequest, "internet", &sn)
		h.Write(b)
		m := nas.NewMessage()
		err := m.PlainNasDecode(&b)
		fmt.Fprint(h, err)
		if err == nil {
			b2, err := m.PlainNasEncode()
			fmt.Fprint(h, err)
			h.Write(b2)
		}
	case 3:
		plain := nasTestpacket.GetSecurityModeComplete(rbytes(r, r.Intn(40)))
		b, err := tglib.EncodeNasPduWithSecurity(a.ue, plain, uint8(1+r.Intn(2)), true, false)
		fmt.Fprint(h, err, a.ue.ULCount.Get())
		h.Write(b)
	case 4:
		plain := []byte{0x7e, 0x00, 0x54, 0x43, 0x03, byte(r.Intn(256)), 2, 3}
		c20RefMu.Lock() // the reference keeps (unsynchronised) table-coverage counters: the monitor serialises its own state
		wire, _ := sec.ProtectNAS(a.dlUE.IntegrityAlg, a.dlUE.CipheringAlg, a.dlUE.KnasInt[:], a.dlUE.KnasEnc[:], a.dlCount, 1, 1, 2, true, plain)
		c20RefMu.Unlock()
		a.dlCount++
		m, err := tglib.NASDecode(a.dlUE, 2, wire)
		fmt.Fprint(h, err, a.dlUE.DLCount.Get())
		if err == nil && m != nil && m.GmmMessage != nil {
			b2, _ := m.PlainNasEncode()
			h.Write(b2)
		}
	case 5:
		ue := tglib.NewRanUeContext(a.ue.Supi, 1, a.ue.CipheringAlg, a.ue.IntegrityAlg)
		if r.Intn(2) == 0 {
			ue.AuthenticationSubs = tglib.GetAuthSubscription(hexs(a.k), hexs(a.opc), "")
		} else { // subscriber provisioned with OP only (a.opc serves as this actor's OP value): the other branch of the derivation
			ue.AuthenticationSubs = tglib.GetAuthSubscription(hexs(a.k), "", hexs(a.opc))
		}
		var autn [16]byte
		copy(autn[:], rbytes(r, 16))
		res := ue.DeriveRESstarAndSetKey(ue.AuthenticationSubs, autn, rbytes(r, 16), "5G:mnc001.mcc001.3gppnetwork.org", "01", "001")
		h.Write(res)
		h.Write(ue.Kamf)
		h.Write(ue.KnasInt[:])
		h.Write(ue.KnasEnc[:])
	case 6:
		msg := rbytes(r, 1+r.Intn(64))
		err := security.NASEncrypt(a.ue.CipheringAlg, a.ue.KnasEnc, r.Uint32()&0xffffff, 1, uint8(r.Intn(2)), msg)
		fmt.Fprint(h, err)
		h.Write(msg)
	case 7:
		mac, err := security.NASMacCalculate(a.ue.IntegrityAlg, a.ue.KnasInt, r.Uint32()&0xffffff, 1, uint8(r.Intn(2)), rbytes(r, 1+r.Intn(64)))
		fmt.Fprint(h, err)
		h.Write(mac)
	case 8:
		macA, macS := make([]byte, 8), make([]byte, 8)
		rnd := rbytes(r, 16)
		milenage.F1(a.opc, a.k, rnd, rbytes(r, 6), []byte{0x80, 0}, macA, macS)
		res, ck, ik, ak, aks := make([]byte, 8), make([]byte, 16), make([]byte, 16), make([]byte, 6), make([]byte, 6)
		milenage.F2345(a.opc, a.k, rnd, res, ck, ik, ak, aks)
		h.Write(bytes.Join([][]byte{macA, macS, res, ck, ik, ak, aks}, nil))
		// the vector-level entry points as well: generation (now and then a call the library REFUSES first - a RES buffer
		// that is too short - so that its error path runs next to other UEs' good calls), the UE-side check, resynchronisation
		sqnNet, sqnUE, amf := rbytes(r, 6), rbytes(r, 6), []byte{0x80, 0}
		autn, gIk, gCk, gAk, gRes := make([]byte, 16), make([]byte, 16), make([]byte, 16), make([]byte, 6), make([]byte, 8)
		if r.Intn(6) == 0 {
			short := uint(r.Intn(8))
			func() {
				defer func() { recover() }()
				milenage.MilenageGenerate(a.opc, amf, a.k, sqnNet, rnd, make([]byte, 16), make([]byte, 16), make([]byte, 16), make([]byte, 6), make([]byte, 8), &short)
			}()
		}
		rl := uint(8)
		milenage.MilenageGenerate(a.opc, amf, a.k, sqnNet, rnd, autn, gIk, gCk, gAk, gRes, &rl)
		cIk, cCk, cRes, auts := make([]byte, 16), make([]byte, 16), make([]byte, 8), make([]byte, 14)
		crl := uint(0)
		ret := milenage.Milenage_check(a.opc, a.k, sqnUE, rnd, autn, cIk, cCk, cRes, &crl, auts)
		fmt.Fprint(h, rl, ret, crl)
		h.Write(bytes.Join([][]byte{autn, gIk, gCk, gAk, gRes, cIk, cCk, cRes, auts}, nil))
		if ret == -2 {
			out := make([]byte, 6)
			fmt.Fprint(h, milenage.Milenage_auts(a.opc, a.k, rnd, auts, out))
			h.Write(out)
		}
	default:
		c20OpExt(a, kind-c20BaseOps, h)
	}
	var out [32]byte
	copy(out[:], h.Sum(nil))
	return out
}

// c20Related makes the key material of different UEs of one case RELATED (by case seed): independent, or equal except
// for the last octets, or equal except for the first octets, or differing in a single bit. Shared tables indexed by part
// of a key, and caches keyed by a prefix or a hash of it, only collide for related keys.
func c20Related(seed int64, g int, own []byte) []byte {
	base := rbytes(rand.New(rand.NewSource(seed^0x6b65)), len(own))
	switch seed % 5 {
	case 4:
		copy(own, base) // the very same value for every UE (the emulator's own UEs share one configured K / OPc)
	case 1:
		copy(own[:len(own)-2], base[:len(own)-2]) // same leading octets
	case 2:
		copy(own[2:], base[2:]) // same trailing octets
	case 3:
		copy(own, base)
		own[(g/8)%len(own)] ^= 1 << uint(g%8) // one bit apart
	}
	return own
}

func c20NewActor(seed int64, g int) *c20Actor {
	r := rand.New(rand.NewSource(seed + int64(g)*7919))
	iAlg := uint8(1 + g%2)
	cAlg := uint8((g / 2) % 3)
	a := &c20Actor{r: r, k: c20Related(seed, g, rbytes(r, 16)), opc: c20Related(seed+1, g, rbytes(r, 16)), amf: r.Int63n(1 << 40)}
	a.ue = tglib.NewRanUeContext("imsi-00101"+fmt.Sprintf("%010d", g+1), int64(g+1), cAlg, iAlg)
	copy(a.ue.KnasEnc[:], c20Related(seed+2, g, rbytes(r, 16)))
	copy(a.ue.KnasInt[:], c20Related(seed+3, g, rbytes(r, 16)))
	a.dlUE = tglib.NewRanUeContext(a.ue.Supi, int64(g+1), cAlg, iAlg)
	a.dlUE.KnasEnc, a.dlUE.KnasInt = a.ue.KnasEnc, a.ue.KnasInt
	a.descs, a.builders = c20Descs(), c20Builders()
	a.own, a.rc = a.r, rand.New(rand.NewSource(seed^0x5eed))
	return a
}

// hot loops: windows of a few instructions (a cache line replaced between "is it mine?" and "use it") need of the order
// of 10^5 overlapping calls of the SAME cheap operation; the mixed scripts give each kind a few hundred.
var c20HotSets = [][]int{{6, 7}, {5}, {8}, {12}, {0, 1}, {3, 4}, {2, 11}, {17}}

func runC20Hot(c *fw.Case, set []int) (o fw.Outcome) {
	G, iters := 8, 12000
	if c.Thorough() {
		iters = 120000
	}
	if len(set) == 1 && c20OpNames[set[0]] == "deeply-nested-decode" {
		G, iters = 128, iters/16 // MANY decodes in flight at once (goroutines are cheap), each inside its value most of the time
	}
	heavy := false
	for _, k := range set {
		if k <= 4 || k >= 9 {
			heavy = true
		}
	}
	if heavy {
		iters /= 8
	}
	old := runtime.GOMAXPROCS(16)
	defer runtime.GOMAXPROCS(old)
	seed := c.R.Int63()
	seed -= seed % 5
	seed += 1 // related keys: equal leading octets for K; the NAS keys get their own relation by seed+2 / seed+3
	// every second hot loop: all UEs hold IDENTICAL key material and goroutines 2j / 2j+1 are twins that issue the same
	// calls with the same inputs (only SUPI and ids differ) - state keyed by key or input BYTES is then truly shared
	twins := (c.Idx/len(c20HotSets)+c.Idx)%2 == 1
	twinFrom := G / 2 // the upper half of the goroutines are twins, the lower half keeps related keys
	for _, k := range set {
		if c20OpNames[k] == "key-derivation" { // keyed by derived key BYTES all the way down: only identical inputs share anything
			twins, twinFrom = true, 0
		}
	}
	names := ""
	for _, k := range set {
		names += c20OpNames[k] + " "
	}
	tp.BuildNGSetupRequest([]byte{0x00, 0xf1, 0x10})
	o.Input = fmt.Sprintf("hot loop: G=%d goroutines x %d iterations of { %s}, related keys, NIA2/NEA2 contexts, seed %d", G, iters, names, seed)
	o.Digest = fw.HashS(o.Input)
	o.Tag("hot-loop:" + strings.TrimSpace(names))
	mk := func(g int) *c20Actor {
		a := c20NewActor(seed, g)
		a.ue.IntegrityAlg, a.ue.CipheringAlg = 2, 2 // the cheap algorithms: the loop is about overlap, not about SNOW 3G under the race runtime
		a.dlUE.IntegrityAlg, a.dlUE.CipheringAlg = 2, 2
		for _, k := range [][]byte{a.ue.KnasInt[:], a.ue.KnasEnc[:]} { // same first octets for every UE of the case
			k[0], k[1] = byte(seed>>8), byte(seed>>16)
		}
		if twins && g >= twinFrom { // the upper half of the goroutines: identical keys, pairwise identical inputs; the lower half keeps related keys
			a0 := c20NewActor(seed, 0)
			a.k, a.opc, a.ue.KnasEnc, a.ue.KnasInt = a0.k, a0.opc, a0.ue.KnasEnc, a0.ue.KnasInt
			a.r = rand.New(rand.NewSource(seed + int64(g/2)*7919 + 1))
			a.own = a.r
		}
		a.dlUE.KnasEnc, a.dlUE.KnasInt = a.ue.KnasEnc, a.ue.KnasInt
		return a
	}
	if twins {
		o.Tag("hot-loop:identical-keys-and-twin-inputs")
	}
	got := make([][][32]byte, G)
	var wg sync.WaitGroup
	gate := make(chan struct{})
	for g := 0; g < G; g++ {
		wg.Add(1)
		go func(g int) {
			defer wg.Done()
			a := mk(g)
			got[g] = make([][32]byte, iters)
			<-gate
			for i := 0; i < iters; i++ {
				got[g][i] = c20Op(a, set[i%len(set)])
			}
		}(g)
	}
	close(gate)
	wg.Wait()
	o.Count("operations", int64(G*iters))
	o.Count("hot_loop_operations", int64(G*iters))
	o.Nontrivial = true
	for g := 0; g < G; g++ {
		a := mk(g)
		for i := 0; i < iters; i++ {
			if c20Op(a, set[i%len(set)]) != got[g][i] {
				k := set[i%len(set)]
				o.Fail("diverges:"+c20OpNames[k], "hot loop, goroutine %d, iteration %d (%s): the result under concurrency differs from the result of the same operation in the sequential run", g, i, c20OpNames[k])
				return
			}
		}
	}
	return
}

func runC20(c *fw.Case) (o fw.Outcome) {
	if os.Getenv("GOMAXPROCS") == "1" {
		defer func() { o.Tag("process-started-with-one-P") }()
	}
	base := 12
	if c.Thorough() {
		base = 96
	}
	if c.Idx >= base {
		return runC20Hot(c, c20HotSets[(c.Idx-base)%len(c20HotSets)])
	}
	G := []int{2, 4, 16, 64}[c.Idx%4]
	nk := len(c20OpNames)
	// script of every goroutine = lock-step prefix (same kinds, same inputs: first uses collide) + one BURST per operation
	// kind (all goroutines inside the same function for a sustained period, each on its own UE and inputs: check-then-act
	// windows on shared state need two callers in the same function at the same time) + a mixed random tail
	burst, tail := 16, 60
	if c.Thorough() {
		burst, tail = 64, 400
	}
	if G == 64 {
		burst, tail = burst/3+1, tail/4
	}
	prefix := 3 * nk
	// burst length per kind: the SNOW 3G users are slow under the race runtime, everything else gets four times as many
	blen := make([]int, nk)
	bsum := 0
	for k := range blen {
		blen[k] = 4 * burst
		switch c20OpNames[k] {
		case "nas-protect", "nas-unprotect":
			blen[k] = burst
		}
		bsum += blen[k]
	}
	steps := prefix + bsum + tail
	procs := []int{16, 2, 16}[(c.Idx/4)%3]
	old := runtime.GOMAXPROCS(procs)
	defer runtime.GOMAXPROCS(old)
	seed := c.R.Int63()
	scripts := make([][]int, G)
	sr := rand.New(rand.NewSource(seed))
	kindOrder := sr.Perm(nk)
	for g := range scripts {
		scripts[g] = make([]int, steps)
		for i := range scripts[g] {
			switch {
			case i < prefix:
				scripts[g][i] = (i + int(seed%7)) % nk
			case i < prefix+bsum:
				off := i - prefix
				for _, k := range kindOrder {
					if off < blen[k] {
						scripts[g][i] = k
						break
					}
					off -= blen[k]
				}
			default:
				scripts[g][i] = sr.Intn(nk)
			}
		}
	}
	tp.BuildNGSetupRequest([]byte{0x00, 0xf1, 0x10}) // NG Setup once, before the goroutines start
	o.Input = fmt.Sprintf("G=%d goroutines x %d operations, GOMAXPROCS=%d, script seed %d", G, steps, procs, seed)
	o.Digest = fw.HashS(o.Input)
	o.Tag(fmt.Sprintf("G=%d", G), fmt.Sprintf("GOMAXPROCS=%d", procs))
	// concurrent run with logical tickets for overlap accounting
	var ticket int64
	type span struct {
		kind       int
		start, end int64
	}
	spans := make([][]span, G)
	got := make([][][32]byte, G)
	var wg sync.WaitGroup
	startGate := make(chan struct{})
	for g := 0; g < G; g++ {
		wg.Add(1)
		go func(g int) {
			defer wg.Done()
			a := c20NewActor(seed, g)
			got[g] = make([][32]byte, steps)
			spans[g] = make([]span, steps)
			yr := rand.New(rand.NewSource(seed ^ int64(g)))
			<-startGate
			for i, k := range scripts[g] {
				s := atomic.AddInt64(&ticket, 1)
				got[g][i] = c20Step(a, i, prefix, k)
				e := atomic.AddInt64(&ticket, 1)
				spans[g][i] = span{k, s, e}
				if yr.Intn(4) == 0 {
					runtime.Gosched()
				}
			}
		}(g)
	}
	close(startGate)
	wg.Wait()
	// sequential reference run of the same scripts, AFTER the concurrent run: the concurrent run starts in a fresh process
	// with everything the library initialises lazily (caches filled on first use of a type, tables built on first call)
	// still cold, so that first uses collide
	want := make([][][32]byte, G)
	for g := 0; g < G; g++ {
		a := c20NewActor(seed, g)
		want[g] = make([][32]byte, steps)
		for i, k := range scripts[g] {
			want[g][i] = c20Step(a, i, prefix, k)
		}
	}
	o.Count("operations", int64(G*steps))
	// overlaps: operations of different goroutines whose ticket intervals intersect, per operation-kind pair
	pairs := map[[2]int]bool{}
	overlaps := int64(0)
	type ev struct {
		t    int64
		g, k int
		open bool
	}
	var evs []ev
	for g := range spans {
		for _, s := range spans[g] {
			evs = append(evs, ev{s.start, g, s.kind, true}, ev{s.end, g, s.kind, false})
		}
	}
	// tickets are unique, sort by ticket via counting into a dense slice
	order := make([]ev, len(evs)+2)
	for _, e := range evs {
		if int(e.t) < len(order) {
			order[e.t] = e
		}
	}
	openKinds := map[int]int{} // goroutine -> kind
	for _, e := range order {
		if e.t == 0 {
			continue
		}
		if e.open {
			for _, k2 := range openKinds {
				a, b := e.k, k2
				if a > b {
					a, b = b, a
				}
				pairs[[2]int{a, b}] = true
				overlaps++
			}
			openKinds[e.g] = e.k
		} else {
			delete(openKinds, e.g)
		}
	}
	o.Count("overlapping_operation_pairs_observed", overlaps)
	o.Max(fmt.Sprintf("distinct_operation_kind_pairs_overlapping_of_%d", len(c20OpNames)*(len(c20OpNames)+1)/2), int64(len(pairs)))
	o.Nontrivial = overlaps > 0
	// determinism oracle
	for g := 0; g < G; g++ {
		for i := range want[g] {
			if got[g][i] != want[g][i] {
				k := scripts[g][i]
				alg := fmt.Sprintf("NIA%d/NEA%d", 1+g%2, (g/2)%3)
				o.Fail("diverges:"+c20OpNames[k], "goroutine %d (%s), operation %d (%s): the result under concurrency differs from the result of the same operation in the sequential run", g, alg, i, c20OpNames[k])
				return
			}
		}
	}
	return
}
