package checks

import (
	"bytes"
	"fmt"
	"math/rand"
	"os"
	"reflect"
	"runtime/debug"
	"strings"
	"time"

	"free5gclib/aper"
	"free5gclib/ngap"
	"free5gclib/ngap/ngapType"

	"vh/fw"
	"vh/gen/ngapgen"
	"vh/ref/per"
)

// C04 — decode inverts encode; canonical encodings (from the independent encoder) are accepted, decoded to the value
// they denote and re-encoded to the same bytes.
func init() {
	fw.Register(&fw.Check{
		ID:    "C04",
		Level: "exploration",
		Rule: "idx%10 in 0..6: generated in-root PDU of message (idx cycles over all generatable (class,procedure) alternatives): Decoder(Encoder(v))==v, Decoder(ref/per.Marshal(v))==v, Encoder(Decoder(b))==b; " +
			"7: the same for a transfer / transparent container through aper.UnmarshalWithParams; 8: every presence combination of the OPTIONAL components of one SEQUENCE type (all 2^k for k<=10); " +
			"9: primitive sweep, decode of the reference encoding of each leaf shape at bit offsets 0..7. distinct = hash of the canonical encoding; non-trivial = longer than 4 octets",
		Assumptions: []string{
			"the reference encoder / decoder and the generator work from the schema snapshot harness/ref/per/ngap_schema_snapshot.json (see C03), the library from its live struct tags",
			"canonical encodings come from ref/per (self-tested at start); equality is field by field, nil and empty slices are equal, BIT STRINGs compare by their significant bits",
			"three message cases in four stay inside the root of extensible constraints, the fourth also uses INTEGER values and string sizes of the extension range (CHOICE / ENUMERATED / SEQUENCE extension additions are not expressible in the Go types); non-canonical inputs are out of the claim",
		},
		N: func(t string) int {
			if t == "thorough" {
				return 1000000
			}
			return 30000
		},
		Batch: 2500,
		Init:  per.SelfTest,
		Run:   runC04,
	})
}

func libDecode(b []byte, ptr any, tag string) (err error, stack string) {
	defer func() {
		if r := recover(); r != nil {
			err = fmt.Errorf("panic: %v", r)
			stack = string(debug.Stack())
		}
	}()
	// the decoder returns slices that alias its input and the encoder masks BIT STRING padding bits in place:
	// every decode gets a private copy so that the oracle's own buffers stay intact
	if p, isPDU := ptr.(*ngapType.NGAPPDU); isPDU && tag == pduTag {
		// whole PDUs go through the library's entry point (ngap.go is part of what the property is anchored in)
		got, err := ngap.Decoder(append([]byte(nil), b...))
		if err == nil && got != nil {
			*p = *got
		}
		return err, ""
	}
	return aper.UnmarshalWithParams(append([]byte(nil), b...), ptr, tag), ""
}

func libEncode(v any, tag string) (b []byte, err error, stack string) {
	defer func() {
		if r := recover(); r != nil {
			err = fmt.Errorf("panic: %v", r)
			stack = string(debug.Stack())
		}
	}()
	if pdu, isPDU := v.(ngapType.NGAPPDU); isPDU && tag == pduTag {
		b, err = ngap.Encoder(pdu)
		return
	}
	b, err = aper.MarshalWithParams(v, tag)
	return
}

// roundTrip is the C04 oracle for one value. v must be addressable-free (a plain value); typ its type.
func roundTrip(o *fw.Outcome, v reflect.Value, tag, what string) (canon []byte) {
	fw.Beat()
	canon, rerr := per.Marshal(v.Interface(), tag)
	if rerr != nil {
		if _, isSchema := rerr.(*per.SchemaError); isSchema {
			o.Fail("schema:"+what, "reference cannot interpret the type: %v", rerr)
		} else {
			o.Inconcl("reference refused a generated value: %v", rerr)
		}
		return nil
	}
	fail := func(kind string, format string, a ...any) {
		if o.Failed() {
			return
		}
		loc := decLocalize(v, tag, "$", 0)
		key := kind + ":" + what + "(in-context only)"
		if loc != "" {
			key = kind + ":" + locKey(loc)
		}
		o.Fail(key, format+"\n canonical: %x\n localised: %s", append(a, clip(canon, 300), loc)...)
	}
	// (1) decode of the library's own encoding
	lib, lerr, _ := libEncode(v.Interface(), tag)
	if lerr != nil {
		fail("encode-error", "library cannot encode a constraint-satisfying %s: %v", what, lerr)
		return canon
	}
	d1 := reflect.New(v.Type())
	if err, st := libDecode(lib, d1.Interface(), tag); err != nil {
		if st != "" {
			o.Fail("decode-panic:"+fw.TopRepoFrame(st), "decoder panicked on the library's own encoding of %s: %v\n%s", what, err, clipS(st, 1200))
			return canon
		}
		fail("decode-error", "Decoder(Encoder(v)) fails for %s: %v\n library encoding: %x", what, err, clip(lib, 300))
		return canon
	}
	if d := valuesEqual(v, d1.Elem(), "$"); d != "" {
		fail("roundtrip-mismatch", "Decoder(Encoder(v)) != v for %s: %s", what, d)
		return canon
	}
	// (2) decode of the canonical encoding from the independent encoder
	d2 := reflect.New(v.Type())
	if err, st := libDecode(canon, d2.Interface(), tag); err != nil {
		if st != "" {
			o.Fail("decode-panic:"+fw.TopRepoFrame(st), "decoder panicked on a canonical encoding of %s: %v\n%s", what, err, clipS(st, 1200))
			return canon
		}
		fail("canonical-rejected", "a canonical X.691 encoding of %s is rejected: %v", what, err)
		return canon
	}
	if d := valuesEqual(v, d2.Elem(), "$"); d != "" {
		fail("canonical-misdecoded", "canonical encoding of %s decodes to another value: %s", what, d)
		return canon
	}
	// (3) re-encode
	re, err, _ := libEncode(d2.Elem().Interface(), tag)
	if err != nil {
		fail("reencode-error", "decoded value of %s cannot be re-encoded: %v", what, err)
		return canon
	}
	if !bytes.Equal(re, canon) {
		fail("reencode-mismatch", "Encoder(Decoder(b)) != b for %s\n re-encoded: %x", what, clip(re, 300))
	}
	return canon
}

// decLocalize finds the deepest component for which the stand-alone chain fails.
func decLocalize(v reflect.Value, tag, path string, depth int) string {
	for v.Kind() == reflect.Ptr {
		if v.IsNil() {
			return ""
		}
		v = v.Elem()
	}
	t := v.Type()
	if depth > 40 {
		return ""
	}
	p, _ := per.ParseTag(tag)
	switch {
	case t.Name() == "BitString" && strings.HasSuffix(t.PkgPath(), "aper"):
	case t.Kind() == reflect.Struct:
		if t.NumField() > 0 && t.Field(0).Name == "Present" {
			present := int(v.Field(0).Int())
			if present >= 1 && present < t.NumField() && !p.OpenType {
				if s := decLocalize(v.Field(present), dropRef(per.FieldTag(t, present)), path+"."+t.Field(present).Name, depth+1); s != "" {
					return s
				}
			}
		} else {
			for i := 0; i < t.NumField(); i++ {
				ftag := per.FieldTag(t, i)
				fp, _ := per.ParseTag(ftag)
				f := v.Field(i)
				if fp.OpenType {
					val := f
					for val.Kind() == reflect.Ptr {
						val = val.Elem()
					}
					present := int(val.Field(0).Int())
					if present >= 1 && present < val.NumField() {
						if s := decLocalize(val.Field(present), dropRef(per.FieldTag(val.Type(), present)), path+"."+t.Field(i).Name+"."+val.Type().Field(present).Name, depth+1); s != "" {
							return s
						}
					}
					continue
				}
				if s := decLocalize(f, dropRef(ftag), path+"."+t.Field(i).Name, depth+1); s != "" {
					return s
				}
			}
		}
	case t.Kind() == reflect.Slice && t.Elem().Kind() != reflect.Uint8:
		et := elemTag(tag)
		for i := 0; i < v.Len() && i < 8; i++ {
			if s := decLocalize(v.Index(i), et, fmt.Sprintf("%s[%d]", path, i), depth+1); s != "" {
				return s
			}
		}
	}
	if p.OpenType {
		return ""
	}
	if t.Kind() != reflect.Struct {
		// leaves are decoded inside a one-field wrapper: the decoder needs a struct or pointer target
		return ""
	}
	canon, rerr := per.Marshal(v.Interface(), tag)
	if rerr != nil {
		return ""
	}
	d := reflect.New(t)
	err, _ := libDecode(canon, d.Interface(), tag)
	bad := err != nil
	var diff string
	if !bad {
		diff = valuesEqual(v, d.Elem(), "$")
		bad = diff != ""
	}
	if !bad {
		re, e2, _ := libEncode(d.Elem().Interface(), tag)
		bad = e2 != nil || !bytes.Equal(re, canon)
		if bad {
			diff = fmt.Sprintf("re-encode %x (err %v)", clip(re, 60), e2)
		}
	}
	if !bad {
		return ""
	}
	return fmt.Sprintf("%s[%s] at %s: canonical %x -> err %v %s", t.Name(), tag, path, clip(canon, 80), err, diff)
}

func runC04(c *fw.Case) (o fw.Outcome) {
	harvest()
	switch k := c.Idx % 10; {
	case k <= 6:
		ms := ngapMessages()
		m := ms[((c.Idx/10)*7+k)%len(ms)]
		// one case in four leaves the ROOT of extensible constraints where the library supports it (INTEGER values and
		// string sizes in the extension range are constraint-satisfying values of an extensible type)
		pdu, g := genPDU(c.R, m, 40+c.R.Intn(400), c.Thorough(), c.Idx%40 >= 10)
		canon := roundTrip(&o, reflect.ValueOf(pdu), pduTag, m.Name)
		o.Tag("msg:" + m.Name)
		for _, a := range g.OpenAlts {
			o.Tag("ie:" + a)
		}
		o.Tag(describeGen(g)...)
		o.Digest, o.Nontrivial = fw.Hash(canon), len(canon) > 4
		o.Count("pdus_round_tripped", 1)
		o.Max("largest_encoding_octets", int64(len(canon)))
		o.Input = fmt.Sprintf("%s ies=%d canonical=%x", m.Name, len(g.OpenAlts), clip(canon, 200))
	case k == 7 && (c.Idx/10)%2 == 1:
		return c04LongList(c)
	case k == 7:
		tt := transferTypes[(c.Idx/10)%len(transferTypes)]
		g := ngapgen.New(c.R, 30+c.R.Intn(200))
		g.NoExt, g.Big = true, c.Thorough()
		p, _ := per.ParseTag("valueExt")
		v := g.Value(tt, p)
		canon := roundTrip(&o, v, "valueExt", tt.Name())
		o.Tag("transfer:" + tt.Name())
		o.Digest, o.Nontrivial = fw.Hash(canon), len(canon) > 4
		o.Count("transfers_round_tripped", 1)
		o.Input = fmt.Sprintf("%s canonical=%x", tt.Name(), clip(canon, 200))
	case k == 8:
		return c04Optionals(c)
	default:
		switch j := (c.Idx / 10) % 50; {
		case j == 24 || j == 49:
			return c04Fragment(c)
		case j%10 == 9 || j%10 == 4:
			return c04AimedLength(c)
		}
		return c04Primitive(c)
	}
	return
}

// c04Fragment: strings and open types whose length determinant is fragmented (>= 16K).
func c04Fragment(c *fw.Case) (o fw.Outcome) {
	sizes := []int{16383, 16384, 16385, 20000, 32768, 49152, 65535, 65536, 65537, 81920, 81921, 90000, 100000, 131072, 131073, 140000, 200000}
	n := sizes[(c.Idx/250)%len(sizes)]
	o.Tag("fragmentation")
	o.Digest, o.Nontrivial = fw.HashS("frag", fmt.Sprint(n), fmt.Sprint(c.Idx%500 < 250)), true
	nas := ngapType.NASPDU{Value: make([]byte, n)}
	c.R.Read(nas.Value)
	if c.Idx%500 < 250 {
		o.Input = fmt.Sprintf("NAS-PDU of %d octets alone", n)
		roundTrip(&o, reflect.ValueOf(nas), "", fmt.Sprintf("NAS-PDU(%d octets)", n))
	} else {
		o.Input = fmt.Sprintf("DownlinkNASTransport carrying a NAS-PDU of %d octets (fragmented open types)", n)
		var pdu ngapType.NGAPPDU
		pdu.Present = 1
		pdu.InitiatingMessage = &ngapType.InitiatingMessage{}
		pdu.InitiatingMessage.ProcedureCode.Value = 4
		pdu.InitiatingMessage.Value.Present = ngapType.InitiatingMessagePresentDownlinkNASTransport
		dl := &ngapType.DownlinkNASTransport{}
		pdu.InitiatingMessage.Value.DownlinkNASTransport = dl
		ie := ngapType.DownlinkNASTransportIEs{}
		ie.Id.Value = 38
		ie.Value.Present = ngapType.DownlinkNASTransportIEsPresentNASPDU
		ie.Value.NASPDU = &nas
		dl.ProtocolIEs.List = append(dl.ProtocolIEs.List, ie)
		roundTrip(&o, reflect.ValueOf(pdu), pduTag, fmt.Sprintf("DownlinkNASTransport(NAS-PDU %d octets)", n))
	}
	o.Count("fragmentation_round_trips", 1)
	return
}

// c04AimedLength: a NAS transport message whose NAS-PDU is sized so that ONE of the nested length determinants (the
// top-level value's, the IE value's, the OCTET STRING's own) is exactly hi*256+lo for every possible first octet of the
// two-octet form (0x80..0xBF) and the one-octet form below it: the claim reaches "up to 16383 octets so that no length is
// fragmented", and the last values before the fragmented form are where a hand-written length reader goes wrong.
func c04AimedLength(c *fw.Case) (o fw.Outcome) {
	r := c.R
	j := c.Idx / 50
	j -= j / 5   // every fifth slot belongs to the fragmentation family
	hi := j % 65 // 64 = the one-octet form
	level := (j / 65) % 3
	var target int
	switch lo := []int{0, 1, 255, 254, r.Intn(256), r.Intn(256)}[(j/195)%6]; {
	case hi == 64:
		target = 40 + r.Intn(88)
	case hi == 0:
		target = 128 + lo%128
	default:
		target = hi<<8 | lo
	}
	uplink := r.Intn(2) == 0
	amf, ran := &ngapType.AMFUENGAPID{Value: r.Int63n(1 << 40)}, &ngapType.RANUENGAPID{Value: r.Int63n(1 << 32)}
	build := func(n int) ngapType.NGAPPDU {
		nas := &ngapType.NASPDU{Value: make([]byte, n)}
		rand.New(rand.NewSource(c.Seed*1000003 + int64(c.Idx))).Read(nas.Value) // same content whatever n the search tries
		var pdu ngapType.NGAPPDU
		pdu.Present = 1
		pdu.InitiatingMessage = &ngapType.InitiatingMessage{}
		if uplink {
			pdu.InitiatingMessage.ProcedureCode.Value = 46 // id-UplinkNASTransport (TS 38.413 9.4.7; literals, not the library constants)
			pdu.InitiatingMessage.Value.Present = ngapType.InitiatingMessagePresentUplinkNASTransport
			ul := &ngapType.UplinkNASTransport{}
			pdu.InitiatingMessage.Value.UplinkNASTransport = ul
			for _, id := range []int64{10, 85, 38} {
				ie := ngapType.UplinkNASTransportIEs{}
				ie.Id.Value = id
				switch id {
				case 10:
					ie.Value.Present, ie.Value.AMFUENGAPID = ngapType.UplinkNASTransportIEsPresentAMFUENGAPID, amf
				case 85:
					ie.Value.Present, ie.Value.RANUENGAPID = ngapType.UplinkNASTransportIEsPresentRANUENGAPID, ran
				default:
					ie.Value.Present, ie.Value.NASPDU = ngapType.UplinkNASTransportIEsPresentNASPDU, nas
				}
				ul.ProtocolIEs.List = append(ul.ProtocolIEs.List, ie)
			}
			return pdu
		}
		pdu.InitiatingMessage.ProcedureCode.Value = 4 // id-DownlinkNASTransport
		pdu.InitiatingMessage.Value.Present = ngapType.InitiatingMessagePresentDownlinkNASTransport
		dl := &ngapType.DownlinkNASTransport{}
		pdu.InitiatingMessage.Value.DownlinkNASTransport = dl
		for _, id := range []int64{10, 85, 38} {
			ie := ngapType.DownlinkNASTransportIEs{}
			ie.Id.Value = id
			switch id {
			case 10:
				ie.Value.Present, ie.Value.AMFUENGAPID = ngapType.DownlinkNASTransportIEsPresentAMFUENGAPID, amf
			case 85:
				ie.Value.Present, ie.Value.RANUENGAPID = ngapType.DownlinkNASTransportIEsPresentRANUENGAPID, ran
			default:
				ie.Value.Present, ie.Value.NASPDU = ngapType.DownlinkNASTransportIEsPresentNASPDU, nas
			}
			dl.ProtocolIEs.List = append(dl.ProtocolIEs.List, ie)
		}
		return pdu
	}
	n := target
	switch level {
	case 1: // the IE value (an open type holding the OCTET STRING with its own determinant)
		n = target - 2
		if n < 128 {
			n = target - 1
		}
	case 0: // the top-level value: search, the ids' widths vary
		n = target - 30
		for try := 0; try < 6; try++ {
			if n < 0 {
				n = 0
			}
			canon, err := per.Marshal(build(n), pduTag)
			if err != nil {
				o.Inconcl("reference refused the aimed message: %v", err)
				return
			}
			got, _, ok := readLenDet(canon, 3)
			if !ok || got == target {
				break
			}
			n += target - got
		}
	}
	if n < 0 {
		n = 0
	}
	what := []string{"top-level-value", "ie-value", "octet-string"}[level]
	o.Tag("aimed-length", "aimed-length:"+what, fmt.Sprintf("aimed-first-octet=%02x", 0x80|hi&0x3f))
	if hi == 64 {
		o.Tag("aimed-length:one-octet-form")
	}
	o.Input = fmt.Sprintf("NAS transport (uplink=%v) with a NAS-PDU of %d octets: length of the %s aimed at %d (determinant %x)", uplink, n, what, target, putLenDet(target))
	o.Digest, o.Nontrivial = fw.HashS("aimed", what, fmt.Sprint(target), fmt.Sprint(uplink)), true
	canon := roundTrip(&o, reflect.ValueOf(build(n)), pduTag, fmt.Sprintf("NASTransport(%s length %d)", what, target))
	o.Count("aimed_length_round_trips", 1)
	o.Max("largest_encoding_octets", int64(len(canon)))
	return
}

// c04Optionals enumerates all presence combinations of the OPTIONAL components of one SEQUENCE type.
func c04Optionals(c *fw.Case) (o fw.Outcome) {
	sts := seqTypesWithOptionals()
	st := sts[(c.Idx/10)%len(sts)]
	t := st.Typ
	var opt []int
	for i := 0; i < t.NumField(); i++ {
		fp, _ := per.ParseTag(per.FieldTag(t, i))
		if fp.Optional && ngapgen.Can(t.Field(i).Type) {
			opt = append(opt, i)
		}
	}
	o.Tag("optionals:" + t.Name())
	k := len(opt)
	combos := 1 << uint(k)
	exhaustive := k <= 10
	if !exhaustive {
		combos = 1024
	}
	o.Input = fmt.Sprintf("SEQUENCE %s [%s]: %d generatable OPTIONAL components, %d presence combinations (exhaustive=%v)", t.Name(), st.Tag, k, combos, exhaustive)
	o.Digest, o.Nontrivial = fw.HashS("opt", t.Name(), fmt.Sprint(c.Idx/10/len(sts))), k > 0
	p, _ := per.ParseTag(st.Tag)
	for m := 0; m < combos; m++ {
		mask := m
		if !exhaustive {
			mask = c.R.Intn(1 << uint(k))
		}
		g := ngapgen.New(c.R, 60)
		g.NoExt = true
		v := g.Value(t, p)
		for bi, fi := range opt {
			f := v.Field(fi)
			if mask&(1<<uint(bi)) == 0 {
				f.Set(reflect.Zero(f.Type()))
			} else if f.IsNil() {
				fp, _ := per.ParseTag(per.FieldTag(t, fi))
				f.Set(g.Value(f.Type(), fp))
			}
		}
		roundTrip(&o, v, st.Tag, fmt.Sprintf("%s(optional mask %0*b)", t.Name(), k, mask))
		o.Count("optional_combinations", 1)
		if o.Failed() {
			return
		}
	}
	if exhaustive {
		o.Count("sequences_enumerated_exhaustively", 1)
	}
	return
}

// ---- long lists: SEQUENCE OF types with many (small) elements

var listTypeMemo []seqType

// listTypes: every SEQUENCE OF type of the schema (not the ProtocolIE containers) with the tag it is referred to by.
func listTypes() []seqType {
	if listTypeMemo != nil {
		return listTypeMemo
	}
	seen := map[string]bool{}
	var walk func(t reflect.Type, tag string, depth int)
	walk = func(t reflect.Type, tag string, depth int) {
		for t.Kind() == reflect.Ptr {
			t = t.Elem()
		}
		if depth > 40 {
			return
		}
		switch t.Kind() {
		case reflect.Slice:
			if t.Elem().Kind() == reflect.Uint8 {
				return
			}
			et := t.Elem()
			key := t.String() + "|" + tag
			if !seen[key] {
				seen[key] = true
				isIE := et.Kind() == reflect.Struct && et.NumField() == 3 && func() bool { p, _ := per.ParseTag(per.FieldTag(et, 2)); return p.OpenType }()
				if !isIE && ngapgen.Can(et) {
					listTypeMemo = append(listTypeMemo, seqType{t, dropRef(tag)})
				}
				walk(et, elemTag(tag), depth+1)
			}
		case reflect.Struct:
			if strings.HasSuffix(t.PkgPath(), "aper") {
				return
			}
			key := t.String() + "|struct"
			if seen[key] {
				return
			}
			seen[key] = true
			for i := 0; i < t.NumField(); i++ {
				if t.Field(i).Name == "Present" && i == 0 {
					continue
				}
				walk(t.Field(i).Type, dropRef(per.FieldTag(t, i)), depth+1)
			}
		}
	}
	walk(reflect.TypeOf(ngapType.NGAPPDU{}), pduTag, 0)
	for _, tt := range transferTypes {
		walk(tt, "valueExt", 0)
	}
	return listTypeMemo
}

// longList builds a value of list type lt with n elements (n clipped to the SIZE constraint) whose elements are mostly
// minimal - OPTIONAL components absent, so that an element may take less than one octet - with a few fuller ones in
// between. The list is wrapped in a one-field struct because the codec's entry points take structs.
func longList(r *rand.Rand, lt seqType, want int, minimal ...bool) (reflect.Value, int) {
	p, _ := per.ParseTag(lt.Tag)
	lb, ub := 0, 1<<16
	if p.SizeLB != nil {
		lb = int(*p.SizeLB)
	}
	if p.SizeUB != nil {
		ub = int(*p.SizeUB)
	}
	n := want
	if n > ub {
		n = ub
	}
	if n < lb {
		n = lb
	}
	ep := p
	ep.SizeExt, ep.SizeLB, ep.SizeUB, ep.Optional = false, nil, nil, false
	out := reflect.MakeSlice(lt.Typ, 0, n)
	pattern := r.Intn(4)
	if len(minimal) > 0 && minimal[0] {
		pattern = 0
	}
	for i := 0; i < n; i++ {
		budget := -1
		switch pattern {
		case 1:
			if r.Intn(4) == 0 {
				budget = 4
			}
		case 2:
			if i >= n-2 || r.Intn(8) == 0 {
				budget = 6
			}
		case 3:
			budget = []int{-1, 3, -1, -1, 8}[i%5]
		}
		g := ngapgen.New(r, budget)
		g.NoExt = true
		out = reflect.Append(out, g.Value(lt.Typ.Elem(), ep))
	}
	st := reflect.StructOf([]reflect.StructField{{Name: "List", Type: lt.Typ, Tag: reflect.StructTag(`aper:"` + lt.Tag + `"`)}})
	v := reflect.New(st).Elem()
	v.Field(0).Set(out)
	return v, n
}

// constrainedCount16K: lists whose SIZE constraint ends at 65535 (or 16384) carry their count as ONE constrained whole
// number however many elements there are - the 16K fragments belong to the general length determinant only. Four list
// types with small elements make such a list of 16384 and more elements cheap enough for the quick tier.
func constrainedCount16K(lt seqType, j, nl int) (int, bool) {
	lp, _ := per.ParseTag(lt.Tag)
	if lp.SizeUB == nil || *lp.SizeUB < 16384 || *lp.SizeUB >= 65536 || (j/nl)%3 != 1 {
		return 0, false
	}
	switch lt.Typ.Elem().Name() {
	case "EmergencyAreaID", "NRCGI", "EUTRACGI", "TAI":
		return []int{16384, 16385, 20000, 32768, 49152, 65535}[(j/nl/3)%6], true
	}
	return 0, false
}

var longListSizes = []int{8, 9, 12, 16, 17, 23, 31, 32, 33, 40, 64, 65, 100, 127, 128, 129, 200, 255, 256, 257, 300, 1000, 1023, 1024, 1025, 2047, 2048, 2049, 4096, 4097}

func c04LongList(c *fw.Case) (o fw.Outcome) {
	lts := listTypes()
	j := c.Idx / 20
	lt := lts[j%len(lts)]
	want := longListSizes[(j/len(lts)+j)%len(longListSizes)]
	if lp, _ := per.ParseTag(lt.Tag); lp.SizeUB != nil && *lp.SizeUB >= 16384 && (j/len(lts))%3 == 2 && (c.Thorough() && (j/len(lts))%12 == 2 || *lp.SizeUB >= 65536) {
		// quick: only the list whose SIZE reaches 64K (its length is the general determinant, fragmented from 16K on);
		// thorough: also the lists bounded by 65535 (a 16-bit count), which take seconds per case
		// the few lists that may need a fragmented length determinant (16K elements and more)
		want = []int{16383, 16384, 16385, 20000, 32768, 49152, 49153, 65535, 65536}[(j/len(lts)/3)%9]
		o.Tag("long-list:fragmented-length")
	}
	w16, minimal := constrainedCount16K(lt, j, len(lts))
	if minimal {
		want = w16
		o.Tag("long-list:constrained-count-16K-and-more")
	}
	t0 := time.Now()
	v, n := longList(c.R, lt, want, minimal)
	t1 := time.Now()
	defer func() {
		if os.Getenv("VERIF_TIMING") != "" {
			fmt.Fprintf(os.Stderr, "TIMING %d %s x%d gen=%v all=%v\n", c.Idx, lt.Typ.Elem().Name(), n, t1.Sub(t0), time.Since(t0))
		}
	}()
	what := fmt.Sprintf("%s x%d", lt.Typ.Elem().Name(), n)
	o.Tag("long-list:" + lt.Typ.Elem().Name())
	canon := roundTrip(&o, v, "", what)
	o.Digest, o.Nontrivial = fw.Hash(canon), n >= 2
	o.Count("long_lists_round_tripped", 1)
	o.Max("longest_list_elements", int64(n))
	if n > 0 && len(canon) > 0 && 8*len(canon) < 8*n+24 {
		o.Count("lists_with_elements_below_one_octet", 1)
	}
	o.Input = fmt.Sprintf("SEQUENCE (SIZE %s) OF %s with %d elements, canonical=%x", lt.Tag, lt.Typ.Elem().Name(), n, clip(canon, 120))
	return
}

type seqType struct {
	Typ reflect.Type
	Tag string
}

var seqOptMemo []seqType

func seqTypesWithOptionals() []seqType {
	if seqOptMemo != nil {
		return seqOptMemo
	}
	seen := map[reflect.Type]bool{}
	var walk func(t reflect.Type, tag string)
	walk = func(t reflect.Type, tag string) {
		for t.Kind() == reflect.Ptr {
			t = t.Elem()
		}
		switch t.Kind() {
		case reflect.Slice:
			if t.Elem().Kind() != reflect.Uint8 {
				walk(t.Elem(), elemTag(tag))
			}
		case reflect.Struct:
			if strings.HasSuffix(t.PkgPath(), "aper") || seen[t] {
				return
			}
			seen[t] = true
			isCh := t.NumField() > 0 && t.Field(0).Name == "Present"
			nopt := 0
			for i := 0; i < t.NumField(); i++ {
				if isCh && i == 0 {
					continue
				}
				ft := per.FieldTag(t, i)
				fp, _ := per.ParseTag(ft)
				if fp.Optional && ngapgen.Can(t.Field(i).Type) {
					nopt++
				}
				walk(t.Field(i).Type, dropRef(ft))
			}
			if !isCh && nopt > 0 && ngapgen.Can(t) {
				seqOptMemo = append(seqOptMemo, seqType{t, dropRef(tag)})
			}
		}
	}
	walk(reflect.TypeOf(ngapType.NGAPPDU{}), pduTag)
	for _, tt := range transferTypes {
		walk(tt, "valueExt")
	}
	return seqOptMemo
}

func c04Primitive(c *fw.Case) (o fw.Outcome) {
	j := c.Idx / 10
	s := leafShapes[j%len(leafShapes)]
	round := j / len(leafShapes)
	vals := shapeValues(s, c.R, c.Thorough())
	o.Tag("shape:" + s.Kind + "[" + s.Tag + "]")
	o.Input = fmt.Sprintf("primitive %s[%s] round %d (%d candidate values), decode at bit offsets 0..7", s.Kind, s.Tag, round, len(vals))
	o.Digest = fw.HashS("prim", s.Kind, s.Tag, fmt.Sprint(round))
	if len(vals) == 0 {
		return
	}
	rounds := 8000/10/len(leafShapes) - 1
	if c.Thorough() {
		rounds = 200000/10/len(leafShapes) - 1
	}
	if rounds < 1 {
		rounds = 1
	}
	maxPer := 300
	if c.Thorough() {
		maxPer = 1000
	}
	n := 0
	for i := round % rounds; i < len(vals) && n < maxPer; i += rounds {
		if leafOutOfRoot(s, vals[i]) {
			continue
		}
		for k := 0; k < 8; k++ {
			st := synthStruct(s, k)
			v := reflect.New(st).Elem()
			fi := 0
			if k > 0 {
				v.Field(0).Field(0).SetBytes([]byte{0xff << (8 - uint(k))})
				v.Field(0).Field(1).SetUint(uint64(k))
				fi = 1
			}
			v.Field(fi).Set(vals[i])
			v.Field(fi + 1).SetBool(true)
			roundTrip(&o, v, "", fmt.Sprintf("%s[%s]@bit%d", s.Kind, s.Tag, k))
			n++
			if o.Failed() {
				o.Msg = fmt.Sprintf("value %v at bit offset %d: %s", vals[i].Interface(), k, o.Msg)
				return
			}
		}
	}
	o.Count("primitive_round_trips", int64(n))
	o.Nontrivial = n >= 8
	return
}
