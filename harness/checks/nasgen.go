package checks

import (
	"bytes"
	"fmt"
	"math/rand"
	"reflect"
	"strings"
	"sync"

	"free5gclib/nas"

	"vh/gen/nasdesc"
)

// nasValue is one generated NAS message in the library's own representation.
type nasValue struct {
	Desc    *nasdesc.Msg
	Msg     reflect.Value // pointer to the message struct (e.g. *nasMessage.RegistrationRequest)
	Present []bool        // per member (optional members only meaningful)
}

// memberFields returns the indices of the conventional fields of a nasType struct.
func memberFields(t reflect.Type) (iei, ln, octet, buffer int) {
	iei, ln, octet, buffer = -1, -1, -1, -1
	for i := 0; i < t.NumField(); i++ {
		switch t.Field(i).Name {
		case "Iei":
			iei = i
		case "Len":
			ln = i
		case "Octet":
			octet = i
		case "Buffer":
			buffer = i
		}
	}
	return
}

// isHalfOctetIE: optional member carried as one octet IEI<<4|value.
func isHalfOctetIE(mem nasdesc.Member) bool {
	return mem.Optional && mem.HasIEI && mem.IEI >= 0x8 && mem.IEI <= 0xf
}

// capacity of a length-carrying member: maximum value length the representation can hold.
func memberCapacity(t reflect.Type) int {
	_, ln, octet, buffer := memberFields(t)
	if ln < 0 {
		return 0
	}
	if buffer >= 0 {
		if t.Field(ln).Type.Kind() == reflect.Uint8 {
			return 255
		}
		return 65535 // uint16 length (LV-E / TLV-E)
	}
	if octet >= 0 && t.Field(octet).Type.Kind() == reflect.Array {
		return t.Field(octet).Type.Len()
	}
	return 0
}

// fillMember puts a member into the normal form a decode produces, with content of length n where a length applies
// (n < 0: pick one).
func fillMember(r *rand.Rand, v reflect.Value, mem nasdesc.Member, n int) {
	t := v.Type()
	iei, ln, octet, buffer := memberFields(t)
	if iei >= 0 && mem.Optional && mem.HasIEI {
		v.Field(iei).SetUint(uint64(mem.IEI))
	}
	if ln >= 0 {
		capn := memberCapacity(t)
		if (n < 0 || n > capn) && capn > 255 && r.Intn(3) != 0 {
			// two-octet lengths: mostly short, sometimes around the sizes where buffers and 8/16-bit arithmetic change
			// behaviour, rarely the maximum (whole messages stay affordable)
			switch r.Intn(24) {
			case 0:
				n = capn
			case 1:
				n = capn - 1
			case 2, 3:
				n = pick(r, 255, 256, 257, 2047, 2048, 2049, 4095, 4096, 4097, 32767, 32768)
			case 4:
				n = 1500 + r.Intn(3000)
			default:
				n = r.Intn(41)
			}
		}
		if n < 0 || n > capn {
			switch r.Intn(6) {
			case 0:
				n = 0
			case 1:
				n = 1
			case 2:
				n = capn
			case 3:
				n = capn - 1
			default:
				n = r.Intn(minInt(capn, 40) + 1)
			}
			if n < 0 {
				n = 0
			}
		}
		v.Field(ln).SetUint(uint64(n))
		if buffer >= 0 {
			v.Field(buffer).SetBytes(shapeBytes(r, mem.Name, fillBytes(r, n)))
		} else if octet >= 0 && t.Field(octet).Type.Kind() == reflect.Array {
			b := shapeBytes(r, mem.Name, fillBytes(r, n))
			for i := 0; i < n; i++ {
				v.Field(octet).Index(i).SetUint(uint64(b[i]))
			}
		} else if octet >= 0 { // {Iei, Len, Octet uint8}: a TLV with a single value octet
			v.Field(ln).SetUint(1)
			v.Field(octet).SetUint(uint64(r.Intn(256)))
		}
		return
	}
	if octet >= 0 {
		of := v.Field(octet)
		if of.Kind() == reflect.Array {
			b := fillBytes(r, of.Len())
			for i := 0; i < of.Len(); i++ {
				of.Index(i).SetUint(uint64(b[i]))
			}
		} else if isHalfOctetIE(mem) {
			of.SetUint(uint64(mem.IEI)<<4 | uint64(pick(r, 0, 0xf, r.Intn(16))))
		} else {
			of.SetUint(uint64(pick(r, 0, 0xff, r.Intn(256))))
		}
		return
	}
	if buffer >= 0 { // buffer without length field
		v.Field(buffer).SetBytes(fillBytes(r, r.Intn(20)))
	}
}

func fillBytes(r *rand.Rand, n int) []byte {
	b := make([]byte, n)
	switch r.Intn(5) {
	case 0:
	case 1:
		for i := range b {
			b[i] = 0xff
		}
	default:
		r.Read(b)
	}
	return b
}

// shapeBytes: one value in three is given the SHAPE of what such an IE carries - an EAP packet (code, identifier, 16-bit
// length that is smaller than / equal to / larger than the IE), a NAS message inside a container (plain, or behind a
// security header), or a run of length-prefixed units - because a codec that is tempted to look INSIDE a value does so
// only when the value looks right. To the codec all of it is opaque content.
func shapeBytes(r *rand.Rand, name string, b []byte) []byte {
	n := len(b)
	if ie, ok := ownIEs()[name]; ok && n >= 4 && r.Intn(8) == 0 {
		// the value reads like THE WHOLE INFORMATION ELEMENT as it is cut out of a message: its own IEI, a length that
		// announces exactly the rest, then the value (a ciphered container may hold any octets, these included)
		b[0] = ie.iei
		if ie.wide {
			b[1], b[2] = byte((n-3)>>8), byte(n-3)
		} else {
			b[1] = byte(n - 2)
		}
		return b
	}
	if n < 4 || r.Intn(3) != 0 {
		return b
	}
	switch {
	case strings.Contains(name, "EAP"):
		b[0] = byte(1 + r.Intn(4)) // Request / Response / Success / Failure
		l := pick(r, n, 4, n-1, n+1, 0, 0xffff, n/2)
		b[2], b[3] = byte(l>>8), byte(l)
		if n > 4 {
			b[4] = byte(pick(r, 50, 1, 3, 13, 23, 254)) // EAP-AKA', Identity, Nak, TLS, AKA, expanded
		}
	case strings.Contains(name, "Container") || strings.Contains(name, "NASMessage"):
		inner := 0
		if n >= 12 && r.Intn(2) == 0 { // a security protected message around a plain one
			b[0], b[1] = 0x7e, byte(1+r.Intn(4))
			inner = 7
		}
		b[inner], b[inner+1] = byte(pick(r, 0x7e, 0x7e, 0x2e)), 0x00
		if inner+2 < n {
			b[inner+2] = byte(pick(r, 0x41, 0x5c, 0x5e, 0x67, 0x4c, 0x45, 0xc1, 0x54))
		}
	default:
		switch r.Intn(4) {
		case 0: // one length octet in front announcing the rest (or one more / one less)
			b[0] = byte(pick(r, n-1, n, n-2))
		case 1: // a 16-bit length in front
			l := pick(r, n-2, n-1, n-3, n)
			b[0], b[1] = byte(l>>8), byte(l)
		default: // a run of (tag, length, value) units that fills the value exactly
			for i := 0; i+2 <= n; {
				l := r.Intn(minInt(n-i-2, 12) + 1)
				if n-i-2-l == 1 {
					l++ // no single octet left over
				}
				b[i+1] = byte(l)
				i += 2 + l
			}
		}
	}
	return b
}

type ownIE struct {
	iei  byte
	wide bool // two length octets (TLV-E)
}

var (
	ownIEMemo map[string]ownIE
	ownIEOnce sync.Once
)

// ownIEs: IEI and length format of every optional length-carrying member, by member name (built once: the generator is
// also used from the goroutines of the C20 workload).
func ownIEs() map[string]ownIE {
	ownIEOnce.Do(func() {
		ownIEMemo = map[string]ownIE{}
		ds, _ := nasdesc.Load()
		for i := range ds {
			for _, mem := range ds[i].Members {
				if mem.Optional && mem.HasIEI {
					if _, ln, _, _ := memberFields(mem.Type); ln >= 0 {
						ownIEMemo[mem.Name] = ownIE{byte(mem.IEI), memberCapacity(mem.Type) > 255}
					}
				}
			}
		}
	})
	return ownIEMemo
}

// genNas builds a message of type d with the optional members selected by mask (bit i = i-th optional member).
func genNas(r *rand.Rand, d *nasdesc.Msg, mask uint64, lenOf func(mem nasdesc.Member) int) *nasValue {
	nv := &nasValue{Desc: d, Msg: reflect.New(d.Typ), Present: make([]bool, len(d.Members))}
	v := nv.Msg.Elem()
	oi := 0
	for i, mem := range d.Members {
		f := v.Field(mem.Index)
		if mem.Optional {
			sel := mask&(1<<uint(oi)) != 0
			oi++
			if !sel {
				continue
			}
			nv.Present[i] = true
			f.Set(reflect.New(mem.Type))
			n := -1
			if lenOf != nil {
				n = lenOf(mem)
			}
			fillMember(r, f.Elem(), mem, n)
			continue
		}
		nv.Present[i] = true
		n := -1
		if lenOf != nil {
			n = lenOf(mem)
		}
		fillMember(r, f, mem, n)
	}
	if lenOf == nil && r.Intn(8) == 0 {
		sameContent(r, nv)
	}
	// header octets
	epd := uint64(0x7e)
	if d.Gsm {
		epd = 0x2e
	}
	setOctet := func(i int, x uint64) { v.Field(d.Members[i].Index).FieldByName("Octet").SetUint(x) }
	setOctet(0, epd)
	if !d.Gsm {
		setOctet(1, 0) // plain NAS: security header type 0
		if d.Name != "SecurityProtected5GSNASMessage" {
			setOctet(2, uint64(d.MsgType))
		}
	} else {
		setOctet(3, uint64(d.MsgType))
	}
	return nv
}

// sameContent gives two length-carrying members of one message the SAME content (a UE that names one identity twice,
// a container that repeats a sibling): half of the time as long as the smaller of the two can hold, so that a
// fixed-size representation is filled to its last octet. To the codec the members stay independent of each other.
func sameContent(r *rand.Rand, nv *nasValue) {
	v := nv.Msg.Elem()
	var ms []reflect.Value
	for i, mem := range nv.Desc.Members {
		if !nv.Present[i] {
			continue
		}
		f := v.Field(mem.Index)
		if f.Kind() == reflect.Ptr {
			f = f.Elem()
		}
		_, ln, octet, buffer := memberFields(f.Type())
		if ln >= 0 && (buffer >= 0 || octet >= 0 && f.Type().Field(octet).Type.Kind() == reflect.Array) {
			ms = append(ms, f)
		}
	}
	if len(ms) < 2 {
		return
	}
	i := r.Intn(len(ms))
	j := (i + 1 + r.Intn(len(ms)-1)) % len(ms)
	if r.Intn(2) == 0 { // a member with a fixed-size representation and the first (as a rule mandatory) member
		var fixed []int
		for k, f := range ms {
			if _, _, _, buffer := memberFields(f.Type()); buffer < 0 && k > 0 {
				fixed = append(fixed, k)
			}
		}
		if len(fixed) > 0 {
			i, j = fixed[r.Intn(len(fixed))], 0
		}
	}
	n := minInt(memberCapacity(ms[i].Type()), memberCapacity(ms[j].Type()))
	if n > 600 {
		n = 600
	}
	if r.Intn(2) == 0 {
		n = r.Intn(n + 1)
	}
	b := fillBytes(r, n)
	for _, f := range []reflect.Value{ms[i], ms[j]} {
		_, ln, octet, buffer := memberFields(f.Type())
		f.Field(ln).SetUint(uint64(n))
		if buffer >= 0 {
			f.Field(buffer).SetBytes(append([]byte(nil), b...))
		} else {
			of := f.Field(octet)
			for k := 0; k < of.Len(); k++ {
				x := byte(0)
				if k < n {
					x = b[k]
				}
				of.Index(k).SetUint(uint64(x))
			}
		}
	}
}

// wrap puts the message struct into a nas.Message with a consistent header.
func (nv *nasValue) wrap() *nas.Message {
	m := nas.NewMessage()
	v := nv.Msg.Elem()
	oct := func(i int) uint8 { return uint8(v.Field(nv.Desc.Members[i].Index).FieldByName("Octet").Uint()) }
	if nv.Desc.Gsm {
		m.GsmMessage = nas.NewGsmMessage()
		m.GsmHeader.Octet = [4]uint8{oct(0), oct(1), oct(2), oct(3)}
		reflect.ValueOf(m.GsmMessage).Elem().FieldByName(nv.Desc.Name).Set(nv.Msg)
	} else {
		m.GmmMessage = nas.NewGmmMessage()
		m.GmmHeader.Octet = [3]uint8{oct(0), oct(1), oct(2)}
		reflect.ValueOf(m.GmmMessage).Elem().FieldByName(nv.Desc.Name).Set(nv.Msg)
	}
	return m
}

// unwrap returns the message struct of type d held by m (nil Value when absent).
func unwrap(m *nas.Message, d *nasdesc.Msg) reflect.Value {
	if d.Gsm {
		if m.GsmMessage == nil {
			return reflect.Value{}
		}
		return reflect.ValueOf(m.GsmMessage).Elem().FieldByName(d.Name)
	}
	if m.GmmMessage == nil {
		return reflect.Value{}
	}
	return reflect.ValueOf(m.GmmMessage).Elem().FieldByName(d.Name)
}

// memberContent extracts the wire-visible content of a member: (value octets, half-octet/scalar).
func memberContent(v reflect.Value) []byte {
	t := v.Type()
	_, ln, octet, buffer := memberFields(t)
	if buffer >= 0 {
		return append([]byte{}, v.Field(buffer).Bytes()...)
	}
	if octet >= 0 {
		of := v.Field(octet)
		if of.Kind() == reflect.Array {
			n := of.Len()
			if ln >= 0 {
				if l := int(v.Field(ln).Uint()); l < n {
					n = l
				}
			}
			b := make([]byte, n)
			for i := range b {
				b[i] = byte(of.Index(i).Uint())
			}
			return b
		}
		return []byte{byte(of.Uint())}
	}
	return nil
}

// compareContent checks presence pattern and wire-visible content of every member of two messages of type d.
func compareContent(d *nasdesc.Msg, a, b reflect.Value) string {
	for _, mem := range d.Members {
		fa, fb := a.Field(mem.Index), b.Field(mem.Index)
		if mem.Optional {
			if fa.IsNil() != fb.IsNil() {
				return fmt.Sprintf("optional IE %s: present=%v before, present=%v after", mem.Name, !fa.IsNil(), !fb.IsNil())
			}
			if fa.IsNil() {
				continue
			}
			fa, fb = fa.Elem(), fb.Elem()
		}
		ca, cb := memberContent(fa), memberContent(fb)
		if !bytes.Equal(ca, cb) {
			return fmt.Sprintf("member %s: content %x before, %x after", mem.Name, clip(ca, 40), clip(cb, 40))
		}
	}
	return ""
}

// deepEqualNorm: reflect.DeepEqual modulo nil/empty byte slices.
func deepEqualNorm(a, b reflect.Value) bool {
	if a.Kind() != b.Kind() {
		return false
	}
	switch a.Kind() {
	case reflect.Ptr:
		if a.IsNil() || b.IsNil() {
			return a.IsNil() == b.IsNil()
		}
		return deepEqualNorm(a.Elem(), b.Elem())
	case reflect.Struct:
		for i := 0; i < a.NumField(); i++ {
			if !deepEqualNorm(a.Field(i), b.Field(i)) {
				return false
			}
		}
		return true
	case reflect.Slice:
		if a.Len() != b.Len() {
			return false
		}
		for i := 0; i < a.Len(); i++ {
			if !deepEqualNorm(a.Index(i), b.Index(i)) {
				return false
			}
		}
		return true
	case reflect.Array:
		for i := 0; i < a.Len(); i++ {
			if !deepEqualNorm(a.Index(i), b.Index(i)) {
				return false
			}
		}
		return true
	}
	return reflect.DeepEqual(a.Interface(), b.Interface())
}
