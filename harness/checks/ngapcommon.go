package checks

import (
	"bytes"
	"fmt"
	"math/rand"
	"reflect"
	"sort"
	"strings"
	"sync"

	"free5gclib/aper"
	"free5gclib/ngap"
	"free5gclib/ngap/ngapType"

	"vh/gen/ngapgen"
	"vh/ref/per"
)

const pduTag = "valueExt,valueLB:0,valueUB:2"

// msgRef is one of the (class, procedure) alternatives of NGAP-PDU.
type msgRef struct {
	Class   int // 1 initiating, 2 successful, 3 unsuccessful
	Alt     int // field index in the class's value struct
	Name    string
	Proc    int64
	ValType reflect.Type
}

var (
	msgOnce sync.Once
	msgs    []msgRef
)

func ngapMessages() []msgRef {
	msgOnce.Do(func() {
		for ci, vt := range []reflect.Type{
			reflect.TypeOf(ngapType.InitiatingMessageValue{}),
			reflect.TypeOf(ngapType.SuccessfulOutcomeValue{}),
			reflect.TypeOf(ngapType.UnsuccessfulOutcomeValue{}),
		} {
			for i := 1; i < vt.NumField(); i++ {
				p, _ := per.ParseTag(per.FieldTag(vt, i))
				var proc int64 = -1
				if p.RefFieldValue != nil {
					proc = *p.RefFieldValue
				}
				if !ngapgen.Can(vt.Field(i).Type) {
					continue // PrivateMessage: its IE container needs >= 1 element but the Go types offer no alternative
				}
				msgs = append(msgs, msgRef{Class: ci + 1, Alt: i, Name: []string{"Init", "Succ", "Unsucc"}[ci] + "." + vt.Field(i).Name, Proc: proc, ValType: vt})
			}
		}
	})
	return msgs
}

// transferTypes: the types that NGAP embeds as OCTET STRING (CONTAINING ...) and that are encoded on their own
// with aper.MarshalWithParams(x, "valueExt").
var transferTypes = []reflect.Type{
	reflect.TypeOf(ngapType.HandoverCommandTransfer{}),
	reflect.TypeOf(ngapType.HandoverPreparationUnsuccessfulTransfer{}),
	reflect.TypeOf(ngapType.HandoverRequestAcknowledgeTransfer{}),
	reflect.TypeOf(ngapType.HandoverRequiredTransfer{}),
	reflect.TypeOf(ngapType.HandoverResourceAllocationUnsuccessfulTransfer{}),
	reflect.TypeOf(ngapType.PDUSessionResourceModifyConfirmTransfer{}),
	reflect.TypeOf(ngapType.PDUSessionResourceModifyIndicationTransfer{}),
	reflect.TypeOf(ngapType.PDUSessionResourceModifyIndicationUnsuccessfulTransfer{}),
	reflect.TypeOf(ngapType.PDUSessionResourceModifyRequestTransfer{}),
	reflect.TypeOf(ngapType.PDUSessionResourceModifyResponseTransfer{}),
	reflect.TypeOf(ngapType.PDUSessionResourceModifyUnsuccessfulTransfer{}),
	reflect.TypeOf(ngapType.PDUSessionResourceNotifyReleasedTransfer{}),
	reflect.TypeOf(ngapType.PDUSessionResourceNotifyTransfer{}),
	reflect.TypeOf(ngapType.PDUSessionResourceReleaseCommandTransfer{}),
	reflect.TypeOf(ngapType.PDUSessionResourceReleaseResponseTransfer{}),
	reflect.TypeOf(ngapType.PDUSessionResourceSetupRequestTransfer{}),
	reflect.TypeOf(ngapType.PDUSessionResourceSetupResponseTransfer{}),
	reflect.TypeOf(ngapType.PDUSessionResourceSetupUnsuccessfulTransfer{}),
	reflect.TypeOf(ngapType.PathSwitchRequestAcknowledgeTransfer{}),
	reflect.TypeOf(ngapType.PathSwitchRequestSetupFailedTransfer{}),
	reflect.TypeOf(ngapType.PathSwitchRequestTransfer{}),
	reflect.TypeOf(ngapType.PathSwitchRequestUnsuccessfulTransfer{}),
	reflect.TypeOf(ngapType.SourceNGRANNodeToTargetNGRANNodeTransparentContainer{}),
	reflect.TypeOf(ngapType.TargetNGRANNodeToSourceNGRANNodeTransparentContainer{}),
	reflect.TypeOf(ngapType.LastVisitedNGRANCellInformation{}),
}

// genPDU generates a constraint-satisfying NGAP PDU of message m.
func genPDU(r *rand.Rand, m msgRef, budget int, big bool, noExt ...bool) (ngapType.NGAPPDU, *ngapgen.Gen) {
	g := ngapgen.New(r, budget)
	g.Big = big
	g.NoExt = len(noExt) > 0 && noExt[0]
	return genPDUWith(g, r, m)
}

// genPDUWith: a PDU of message m from a generator the caller configured.
func genPDUWith(g *ngapgen.Gen, r *rand.Rand, m msgRef) (ngapType.NGAPPDU, *ngapgen.Gen) {
	var pdu ngapType.NGAPPDU
	pdu.Present = m.Class
	mk := func(t reflect.Type) reflect.Value { // {ProcedureCode, Criticality, Value}
		v := reflect.New(t).Elem()
		v.Field(0).Field(0).SetInt(m.Proc)
		v.Field(1).Field(0).SetUint(uint64(r.Intn(3)))
		val := v.Field(2)
		val.Field(0).SetInt(int64(m.Alt))
		ap, _ := per.ParseTag(per.FieldTag(m.ValType, m.Alt))
		ap.RefFieldValue = nil
		val.Field(m.Alt).Set(g.Value(m.ValType.Field(m.Alt).Type, ap))
		return v
	}
	switch m.Class {
	case 1:
		x := mk(reflect.TypeOf(ngapType.InitiatingMessage{})).Interface().(ngapType.InitiatingMessage)
		pdu.InitiatingMessage = &x
	case 2:
		x := mk(reflect.TypeOf(ngapType.SuccessfulOutcome{})).Interface().(ngapType.SuccessfulOutcome)
		pdu.SuccessfulOutcome = &x
	case 3:
		x := mk(reflect.TypeOf(ngapType.UnsuccessfulOutcome{})).Interface().(ngapType.UnsuccessfulOutcome)
		pdu.UnsuccessfulOutcome = &x
	}
	return pdu, g
}

// ---------------------------------------------------------------- equality modulo representation

// valuesEqual compares two values of the same Go type field by field, treating nil and empty slices as equal and
// comparing BIT STRINGs by their significant bits. Returns "" or the path of the first difference.
func valuesEqual(a, b reflect.Value, path string) string {
	if a.Kind() != b.Kind() {
		return path + ": kinds differ"
	}
	t := a.Type()
	if t.Name() == "BitString" && strings.HasSuffix(t.PkgPath(), "aper") {
		na, nb := a.Field(1).Uint(), b.Field(1).Uint()
		if na != nb {
			return fmt.Sprintf("%s: BIT STRING length %d vs %d", path, na, nb)
		}
		ba, bb := a.Field(0).Bytes(), b.Field(0).Bytes()
		n := int(na)
		if len(ba) < (n+7)/8 || len(bb) < (n+7)/8 {
			return fmt.Sprintf("%s: BIT STRING of %d bits with %d / %d octets", path, n, len(ba), len(bb))
		}
		for i := 0; i < n; i++ {
			if (ba[i/8]>>(7-uint(i%8)))&1 != (bb[i/8]>>(7-uint(i%8)))&1 {
				return fmt.Sprintf("%s: BIT STRING differs at bit %d (%x vs %x)", path, i, ba, bb)
			}
		}
		return ""
	}
	switch a.Kind() {
	case reflect.Ptr, reflect.Interface:
		if a.IsNil() != b.IsNil() {
			return fmt.Sprintf("%s: presence differs (%v vs %v)", path, !a.IsNil(), !b.IsNil())
		}
		if a.IsNil() {
			return ""
		}
		return valuesEqual(a.Elem(), b.Elem(), path)
	case reflect.Struct:
		for i := 0; i < a.NumField(); i++ {
			if d := valuesEqual(a.Field(i), b.Field(i), path+"."+t.Field(i).Name); d != "" {
				return d
			}
		}
		return ""
	case reflect.Slice:
		if a.Len() != b.Len() {
			return fmt.Sprintf("%s: length %d vs %d", path, a.Len(), b.Len())
		}
		if t.Elem().Kind() == reflect.Uint8 {
			if !bytes.Equal(a.Bytes(), b.Bytes()) {
				return fmt.Sprintf("%s: octets %x vs %x", path, a.Bytes(), b.Bytes())
			}
			return ""
		}
		for i := 0; i < a.Len(); i++ {
			if d := valuesEqual(a.Index(i), b.Index(i), fmt.Sprintf("%s[%d]", path, i)); d != "" {
				return d
			}
		}
		return ""
	case reflect.Int, reflect.Int32, reflect.Int64:
		if a.Int() != b.Int() {
			return fmt.Sprintf("%s: %d vs %d", path, a.Int(), b.Int())
		}
	case reflect.Uint64, reflect.Uint8, reflect.Uint32:
		if a.Uint() != b.Uint() {
			return fmt.Sprintf("%s: %d vs %d", path, a.Uint(), b.Uint())
		}
	case reflect.String:
		if a.String() != b.String() {
			return fmt.Sprintf("%s: %q vs %q", path, a.String(), b.String())
		}
	case reflect.Bool:
		if a.Bool() != b.Bool() {
			return path + ": bool differs"
		}
	}
	return ""
}

// ---------------------------------------------------------------- localisation of an encoder disagreement

func elemTag(tag string) string {
	var keep []string
	for _, p := range strings.Split(tag, ",") {
		if p == "sizeExt" || strings.HasPrefix(p, "sizeLB:") || strings.HasPrefix(p, "sizeUB:") || p == "optional" || p == "" {
			continue
		}
		keep = append(keep, p)
	}
	return strings.Join(keep, ",")
}

func dropRef(tag string) string {
	var keep []string
	for _, p := range strings.Split(tag, ",") {
		if strings.HasPrefix(p, "referenceFieldValue:") || p == "optional" || p == "" {
			continue
		}
		keep = append(keep, p)
	}
	return strings.Join(keep, ",")
}

// libVsRef encodes one node alone with both encoders. agree=false when bytes or error status differ.
func libVsRef(v reflect.Value, tag string) (agree bool, lib, ref []byte, lerr, rerr error) {
	func() {
		defer func() {
			if r := recover(); r != nil {
				lerr = fmt.Errorf("panic: %v", r)
			}
		}()
		lib, lerr = aper.MarshalWithParams(v.Interface(), tag)
	}()
	ref, rerr = per.Marshal(v.Interface(), tag)
	if (lerr != nil) != (rerr != nil) {
		return false, lib, ref, lerr, rerr
	}
	if lerr != nil {
		return true, lib, ref, lerr, rerr
	}
	return bytes.Equal(lib, ref), lib, ref, nil, nil
}

// localize finds the deepest component whose stand-alone encodings differ between library and reference.
func localize(v reflect.Value, tag string, path string, depth int) string {
	for v.Kind() == reflect.Ptr {
		if v.IsNil() {
			return ""
		}
		v = v.Elem()
	}
	t := v.Type()
	if depth > 40 {
		return ""
	}
	p, _ := per.ParseTag(tag)
	isLeaf := true
	switch {
	case t.Name() == "BitString" && strings.HasSuffix(t.PkgPath(), "aper"):
	case t.Kind() == reflect.Struct:
		isLeaf = false
		if t.NumField() > 0 && t.Field(0).Name == "Present" {
			present := int(v.Field(0).Int())
			if present >= 1 && present < t.NumField() && !p.OpenType {
				if s := localize(v.Field(present), dropRef(per.FieldTag(t, present)), path+"."+t.Field(present).Name, depth+1); s != "" {
					return s
				}
			}
		} else {
			for i := 0; i < t.NumField(); i++ {
				ftag := per.FieldTag(t, i)
				fp, _ := per.ParseTag(ftag)
				f := v.Field(i)
				if fp.OpenType {
					val := f
					for val.Kind() == reflect.Ptr {
						val = val.Elem()
					}
					present := int(val.Field(0).Int())
					if present >= 1 && present < val.NumField() {
						if s := localize(val.Field(present), dropRef(per.FieldTag(val.Type(), present)), path+"."+t.Field(i).Name+"."+val.Type().Field(present).Name, depth+1); s != "" {
							return s
						}
					}
					continue
				}
				if s := localize(f, dropRef(ftag), path+"."+t.Field(i).Name, depth+1); s != "" {
					return s
				}
			}
		}
	case t.Kind() == reflect.Slice && t.Elem().Kind() != reflect.Uint8:
		isLeaf = false
		et := elemTag(tag)
		for i := 0; i < v.Len() && i < 8; i++ {
			if s := localize(v.Index(i), et, fmt.Sprintf("%s[%d]", path, i), depth+1); s != "" {
				return s
			}
		}
	}
	_ = isLeaf
	if p.OpenType {
		return ""
	}
	agree, lib, ref, lerr, rerr := libVsRef(v, tag)
	if agree {
		return ""
	}
	desc := fmt.Sprintf("%s[%s]", t.Name(), tag)
	if t.Name() == "" {
		desc = fmt.Sprintf("%s[%s]", t.String(), tag)
	}
	return fmt.Sprintf("%s at %s: library %x (err %v) / reference %x (err %v)", desc, path, lib, lerr, ref, rerr)
}

// locKey turns a localisation text into a stable finding key (type and tag only).
func locKey(loc string) string {
	if i := strings.Index(loc, " at "); i > 0 {
		return loc[:i]
	}
	return loc
}

func sortedKeys(m map[string]int) []string {
	ks := make([]string, 0, len(m))
	for k := range m {
		ks = append(ks, k)
	}
	sort.Strings(ks)
	return ks
}

func libEncodePDU(pdu ngapType.NGAPPDU) (b []byte, err error) { return ngap.Encoder(pdu) }
