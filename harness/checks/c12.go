package checks

import (
	"bytes"
	"encoding/binary"
	"fmt"
	"math/rand"
	"net"
	"runtime/debug"
	"time"

	"free5gclib/aper"
	"free5gclib/ngap/ngapType"
	stgutg "stgutgp"

	"vh/fw"
	"vh/ref/per"
	"vh/ref/sec"
)

// C12 — UE address / TEID / UPF address extraction. Well-formed inputs are built by the reference side from chosen
// values (NAS by hand from TS 24.501 8.3.2, transfer by ref/per from a ngapType value); the termination half relies on
// the framework's stall monitor (no progress for 5 s in a batch, confirmed alone for 20 s with a goroutine dump).
func init() {
	fw.Register(&fw.Check{
		ID:    "C12",
		Level: "exploration",
		Rule: "idx%4 in {0,1}: a well-formed protected DL NAS TRANSPORT{PDU SESSION ESTABLISHMENT ACCEPT} (QoS rules 0..1500 octets, session AMBR, a subset of the optional IEs of table 8.3.2.1.1 in table order, PDU address IPv4 with corner values) " +
			"and a well-formed PDUSessionResourceSetupRequestTransfer (aggregate bit rates over {0,1,2^8k+-1,4*10^12}, TEID / IPv4 corners, optional trailing IEs, 1..64 QoS flows): extracted values must equal the encoded ones; " +
			"idx%4==2: mutations of such inputs (truncation, bit flips, overwrites, splices); idx%4==3: random strings of 0..4096 octets - the call must return or panic, never spin. Aimed values: bit rates whose octets read as the header of a following IE, NAS-MACs that read as a message header, contents imitating the PDU address element. distinct = hash(inputs); non-trivial = all",
		Assumptions: []string{
			"IPv4 only; IEs of the transfer in ASN.1 order (TS 38.413 requires it), IEs of the Accept in table order",
			"on arbitrary input a panic counts as termination (the property only demands termination)",
		},
		N: func(t string) int {
			if t == "thorough" {
				return 2000000
			}
			return 60000
		},
		Batch:   4000,
		Stall:   5 * time.Second,
		Confirm: 20 * time.Second,
		Init:    per.SelfTest,
		Run:     runC12,
	})
}

type acceptSpec struct {
	ueIP      net.IP
	qosRules  int
	optMask   int
	psi, pti  byte
	cipherKey []byte
}

// buildAcceptNAS assembles PDU SESSION ESTABLISHMENT ACCEPT inside DL NAS TRANSPORT inside a security-protected NAS message.
func buildAcceptNAS(r *rand.Rand, ueIP net.IP, qosLen int, mask int) ([]byte, string) {
	var sm []byte
	sm = append(sm, 0x2e, byte(r.Intn(256)), byte(r.Intn(256)), 0xc2)
	sm = append(sm, byte(1+r.Intn(3))<<4|0x01)     // SSC mode | selected PDU session type IPv4
	sm = append(sm, byte(qosLen>>8), byte(qosLen)) // authorized QoS rules LV-E
	sm = append(sm, imitating(r, qosLen)...)
	sm = append(sm, 0x06) // session AMBR LV 6
	sm = append(sm, rbytes(r, 6)...)
	desc := fmt.Sprintf("qos=%d opt=", qosLen)
	if mask&1 != 0 { // 59 5GSM cause TV
		sm = append(sm, 0x59, byte(r.Intn(256)))
		desc += "cause,"
	}
	sm = append(sm, 0x29, 0x05, 0x01) // PDU address TLV, IPv4
	sm = append(sm, ueIP.To4()...)
	if mask&2 != 0 { // 56 RQ timer TV
		sm = append(sm, 0x56, byte(r.Intn(256)))
		desc += "rq,"
	}
	if mask&4 != 0 { // 22 S-NSSAI TLV (SST or SST+SD)
		if r.Intn(2) == 0 {
			sm = append(sm, 0x22, 0x01, byte(r.Intn(256)))
		} else {
			sm = append(sm, 0x22, 0x04, byte(r.Intn(256)))
			sm = append(sm, rbytes(r, 3)...)
		}
		desc += "snssai,"
	}
	if mask&8 != 0 { // 8- always-on TV1
		sm = append(sm, 0x80|byte(r.Intn(2)))
		desc += "always-on,"
	}
	if mask&16 != 0 { // 75 mapped EPS bearer contexts TLV-E
		n := 4 + r.Intn(40)
		sm = append(sm, 0x75, byte(n>>8), byte(n))
		sm = append(sm, imitating(r, n)...)
		desc += "eps,"
	}
	if mask&32 != 0 { // 78 EAP TLV-E
		n := 4 + r.Intn(60)
		sm = append(sm, 0x78, byte(n>>8), byte(n))
		sm = append(sm, rbytes(r, n)...)
		desc += "eap,"
	}
	if mask&64 != 0 { // 79 QoS flow descriptions TLV-E
		n := 3 + r.Intn(400)
		sm = append(sm, 0x79, byte(n>>8), byte(n))
		sm = append(sm, imitating(r, n)...)
		desc += "flowdesc,"
	}
	if mask&128 != 0 { // 7B ePCO TLV-E
		n := 1 + r.Intn(200)
		sm = append(sm, 0x7b, byte(n>>8), byte(n))
		sm = append(sm, rbytes(r, n)...)
		desc += "epco,"
	}
	if mask&256 != 0 { // 25 DNN TLV
		n := 1 + r.Intn(60)
		sm = append(sm, 0x25, byte(n))
		sm = append(sm, rbytes(r, n)...)
		desc += "dnn,"
	}
	// DL NAS TRANSPORT
	mm := []byte{0x7e, 0x00, 0x68, 0x01, byte(len(sm) >> 8), byte(len(sm))}
	mm = append(mm, sm...)
	if r.Intn(2) == 0 {
		mm = append(mm, 0x12, sm[1]) // PDU session ID
	}
	// protected with NEA0 (the emulator's only ciphering algorithm), NIA2
	k := rbytes(r, 16)
	out, _ := sec.ProtectNAS(2, 0, k, k, uint32(r.Intn(1<<16)), 1, 1, 2, true, mm)
	if r.Intn(6) == 0 && len(out) > 7 {
		// a NAS-MAC is 32 pseudo-random bits and the extractor is never given the key: every value is the MAC of this message
		// under SOME key. One that READS AS THE HEADER of the plain message behind it (7e 00 68 01 = 5GMM, plain, DL NAS
		// TRANSPORT, N1 SM container) - alone, or together with the sequence number octet - is data like any other.
		switch r.Intn(3) {
		case 0:
			copy(out[2:6], []byte{0x7e, 0x00, 0x68, 0x01})
		case 1:
			copy(out[3:7], []byte{0x7e, 0x00, 0x68, 0x01}) // MAC[1..3] and the sequence number
		default:
			copy(out[2:6], []byte{0x2e, out[8+6], out[8+7], 0xc2}) // ... or as the header of the 5GSM message inside
			copy(out[4:7], []byte{0x7e, 0x00, 0x68})
		}
		desc += "mac-reads-as-a-message-header,"
	}
	return out, desc
}

// imitating returns n content octets; one time in three they contain a byte sequence that looks like a complete PDU
// address element (29 05 01 + another address) or like the elements around it - content of a variable-length element is
// data, whatever it looks like.
func imitating(r *rand.Rand, n int) []byte {
	b := rbytes(r, n)
	if n >= 7 && r.Intn(3) == 0 {
		fake := append([]byte{0x29, 0x05, 0x01}, rbytes(r, 4)...)
		copy(b[r.Intn(n-6):], fake)
		if n >= 16 && r.Intn(2) == 0 {
			copy(b[r.Intn(n-15):], []byte{0x59, 0x1a, 0x29, 0x05, 0x01, 0xde, 0xad, 0xbe, 0xef, 0x22, 0x01, 0x01, 0x79, 0x00, 0x03})
		}
	}
	return b
}

func bitRateCorner(r *rand.Rand) int64 {
	if r.Intn(5) == 0 {
		// values whose octets IMITATE structure: the header of the tunnel IE that follows (id 139 = 00 8b, criticality 00),
		// other IE ids of the transfer, length-looking octets. A walker reads them as data; a searcher takes them for the IE.
		return pick(r, int64(0x8b), 0x8b00, 0x008b00, 0x01008b00, 0x8b008b, 0x008b0000, 0x00008b, 0x7f008b00, 0x8b000a, 0x0088, 0x0086, 0x860000, 0x008b000a00)
	}
	k := uint(8 * (1 + r.Intn(5)))
	return pick(r, int64(0), 1, 255, 256, (1<<k)-1, 1<<k, (1<<k)+1, 4000000000000, r.Int63n(4000000000001))
}

// buildTransfer encodes a PDUSessionResourceSetupRequestTransfer with the independent encoder.
func buildTransfer(r *rand.Rand, upf net.IP, teid uint32) ([]byte, string, error) {
	var t ngapType.PDUSessionResourceSetupRequestTransfer
	add := func(id int64, crit uint64, f func(v *ngapType.PDUSessionResourceSetupRequestTransferIEsValue)) {
		ie := ngapType.PDUSessionResourceSetupRequestTransferIEs{}
		ie.Id.Value = id
		ie.Criticality.Value = aper.Enumerated(crit)
		f(&ie.Value)
		t.ProtocolIEs.List = append(t.ProtocolIEs.List, ie)
	}
	desc := ""
	if r.Intn(2) == 0 {
		add(130, 0, func(v *ngapType.PDUSessionResourceSetupRequestTransferIEsValue) {
			v.Present = ngapType.PDUSessionResourceSetupRequestTransferIEsPresentPDUSessionAggregateMaximumBitRate
			v.PDUSessionAggregateMaximumBitRate = &ngapType.PDUSessionAggregateMaximumBitRate{}
			v.PDUSessionAggregateMaximumBitRate.PDUSessionAggregateMaximumBitRateDL.Value = bitRateCorner(r)
			v.PDUSessionAggregateMaximumBitRate.PDUSessionAggregateMaximumBitRateUL.Value = bitRateCorner(r)
			if r.Intn(4) == 0 {
				// rates whose OCTETS read as the header of an IE that follows (id of that IE in the low 16 bits of the downlink
				// rate, then the uplink rate where criticality and length would stand: 00 8B | 00 0A is "id 139, reject, 10
				// octets"): an element is found by walking the container, never by its looks
				id := pick(r, int64(139), 139, 139, 136, 134, 138, 129, 127)
				v.PDUSessionAggregateMaximumBitRate.PDUSessionAggregateMaximumBitRateDL.Value = pick(r, int64(0), 1, r.Int63n(1<<20))<<16 | id
				v.PDUSessionAggregateMaximumBitRate.PDUSessionAggregateMaximumBitRateUL.Value = pick(r, int64(10), 10, 10, 22, 26, 1, 2, int64(1+r.Intn(60)))
				desc += "rates-that-read-as-an-ie-header,"
			}
		})
		desc += "ambr,"
	}
	add(139, 0, func(v *ngapType.PDUSessionResourceSetupRequestTransferIEsValue) {
		v.Present = ngapType.PDUSessionResourceSetupRequestTransferIEsPresentULNGUUPTNLInformation
		v.ULNGUUPTNLInformation = &ngapType.UPTransportLayerInformation{Present: ngapType.UPTransportLayerInformationPresentGTPTunnel, GTPTunnel: &ngapType.GTPTunnel{}}
		v.ULNGUUPTNLInformation.GTPTunnel.TransportLayerAddress.Value = aper.BitString{Bytes: append([]byte(nil), upf.To4()...), BitLength: 32}
		v.ULNGUUPTNLInformation.GTPTunnel.GTPTEID.Value = binary.BigEndian.AppendUint32(nil, teid)
	})
	if r.Intn(4) == 0 {
		add(127, 0, func(v *ngapType.PDUSessionResourceSetupRequestTransferIEsValue) {
			v.Present = ngapType.PDUSessionResourceSetupRequestTransferIEsPresentDataForwardingNotPossible
			v.DataForwardingNotPossible = &ngapType.DataForwardingNotPossible{Value: 0}
		})
		desc += "dfnp,"
	}
	add(134, 0, func(v *ngapType.PDUSessionResourceSetupRequestTransferIEsValue) {
		v.Present = ngapType.PDUSessionResourceSetupRequestTransferIEsPresentPDUSessionType
		v.PDUSessionType = &ngapType.PDUSessionType{Value: 0}
	})
	if r.Intn(3) == 0 {
		add(138, 0, func(v *ngapType.PDUSessionResourceSetupRequestTransferIEsValue) {
			v.Present = ngapType.PDUSessionResourceSetupRequestTransferIEsPresentSecurityIndication
			v.SecurityIndication = &ngapType.SecurityIndication{}
			v.SecurityIndication.IntegrityProtectionIndication.Value = aper.Enumerated(r.Intn(3))
			v.SecurityIndication.ConfidentialityProtectionIndication.Value = aper.Enumerated(r.Intn(3))
		})
		desc += "secind,"
	}
	if r.Intn(3) == 0 {
		add(129, 0, func(v *ngapType.PDUSessionResourceSetupRequestTransferIEsValue) {
			v.Present = ngapType.PDUSessionResourceSetupRequestTransferIEsPresentNetworkInstance
			v.NetworkInstance = &ngapType.NetworkInstance{Value: int64(1 + r.Intn(256))}
		})
		desc += "netinst,"
	}
	nflows := pick(r, 1, 1, 2, 3, 8, 64)
	add(136, 0, func(v *ngapType.PDUSessionResourceSetupRequestTransferIEsValue) {
		v.Present = ngapType.PDUSessionResourceSetupRequestTransferIEsPresentQosFlowSetupRequestList
		v.QosFlowSetupRequestList = &ngapType.QosFlowSetupRequestList{}
		for i := 0; i < nflows; i++ {
			var it ngapType.QosFlowSetupRequestItem
			it.QosFlowIdentifier.Value = int64(r.Intn(64))
			q := &it.QosFlowLevelQosParameters
			q.QosCharacteristics.Present = ngapType.QosCharacteristicsPresentNonDynamic5QI
			q.QosCharacteristics.NonDynamic5QI = &ngapType.NonDynamic5QIDescriptor{}
			q.QosCharacteristics.NonDynamic5QI.FiveQI.Value = int64(r.Intn(256))
			q.AllocationAndRetentionPriority.PriorityLevelARP.Value = int64(1 + r.Intn(15))
			q.AllocationAndRetentionPriority.PreEmptionCapability.Value = aper.Enumerated(r.Intn(2))
			q.AllocationAndRetentionPriority.PreEmptionVulnerability.Value = aper.Enumerated(r.Intn(2))
			v.QosFlowSetupRequestList.List = append(v.QosFlowSetupRequestList.List, it)
		}
	})
	desc += fmt.Sprintf("flows=%d", nflows)
	b, err := per.Marshal(t, "valueExt")
	return b, desc, err
}

func ipCorner(r *rand.Rand) net.IP {
	switch r.Intn(8) {
	case 0:
		return net.IPv4(10, byte(r.Intn(256)), byte(r.Intn(256)), 0)
	case 1:
		return net.IPv4(10, 45, 0, 255)
	case 2:
		return net.IPv4(0, 0, 0, 0)
	case 3:
		return net.IPv4(255, 255, 255, 255)
	case 4:
		return net.IPv4(0x29, 0x29, 0x29, 0x29) // octets that look like the PDU address IEI
	}
	if r.Intn(2) == 0 {
		return ipv4Class(r)
	}
	return net.IP(rbytes(r, 4))
}

func runC12(c *fw.Case) (o fw.Outcome) {
	r := c.R
	ueIP, upf := ipCorner(r), ipCorner(r)
	teid := pick(r, uint32(0), 1, 1<<31, 1<<32-1, r.Uint32())
	qos := pick(r, 0, 1, 9, 127, 128, 255, 256, 1500, r.Intn(400))
	mask := r.Intn(512)
	if c.Idx%64 < 16 {
		mask = (c.Idx / 64) % 512 // every subset of the 9 optional IEs, in turn
	}
	nasPdu, d1 := buildAcceptNAS(r, ueIP, qos, mask)
	transfer, d2, err := buildTransfer(r, upf, teid)
	if err != nil {
		o.Inconcl("reference could not encode the transfer: %v", err)
		return
	}
	o.Digest = fw.Hash(nasPdu, transfer, []byte{byte(c.Idx % 4)})
	o.Nontrivial = true
	switch c.Idx % 4 {
	case 0, 1:
		o.Tag("well-formed")
		o.Input = fmt.Sprintf("ue=%s upf=%s teid=%#x nas{%s}=%x transfer{%s}=%x", ueIP, upf, teid, d1, clip(nasPdu, 80), d2, clip(transfer, 80))
		defer func() {
			if rec := recover(); rec != nil {
				st := string(debug.Stack())
				o.Verdict = fw.Held
				o.Fail("panic:"+fw.TopRepoFrame(st), "extraction panicked on a well-formed input: %v\n nas{%s}=%x\n transfer{%s}=%x\n%s", rec, d1, nasPdu, d2, transfer, clipS(st, 800))
			}
		}()
		nview, ndmg := guarded(r, nasPdu)
		got := stgutg.DecodePDUSessionNASPDU(nview)
		o.Count("nas_extractions", 1)
		if d := ndmg(false); d != "" {
			o.Fail("input-buffer-written", "DecodePDUSessionNASPDU: %s", d)
			return
		}
		if !got.Equal(ueIP) {
			o.Fail("wrong-ue-address", "DecodePDUSessionNASPDU returns %v, the network encoded PDU address %v (Accept with %s)\n nas=%x", got, ueIP, d1, nasPdu)
			return
		}
		tview, tdmg := guarded(r, transfer)
		gt, gu := stgutg.DecodePDUSessionResourceSetupRequestTransfer(tview)
		o.Count("transfer_extractions", 1)
		if d := tdmg(false); d != "" {
			o.Fail("input-buffer-written", "DecodePDUSessionResourceSetupRequestTransfer: %s", d)
			return
		}
		if gt != teid || !gu.Equal(upf) {
			o.Fail("wrong-tunnel", "DecodePDUSessionResourceSetupRequestTransfer returns TEID %#x UPF %v, the network encoded TEID %#x UPF %v (%s)\n transfer=%x", gt, gu, teid, upf, d2, transfer)
			return
		}
	case 2:
		o.Tag("mutated")
		n2, _ := buildAcceptNAS(r, ueIP, r.Intn(50), r.Intn(512))
		in1, k1 := mutateOnce(r, nasPdu, n2)
		in2, k2 := mutateOnce(r, transfer, nasPdu)
		o.Input = fmt.Sprintf("nas %s=%x transfer %s=%x", k1, clip(in1, 120), k2, clip(in2, 120))
		o.Digest = fw.Hash(in1, in2)
		callTolerant(&o, in1, in2)
	default:
		if r.Intn(2) == 0 {
			o.Tag("aimed-length")
			in1, d := aimedLengthAccept(r)
			in2, _ := mutateOnce(r, transfer, nasPdu)
			o.Input = fmt.Sprintf("nas{%s}=%x transfer=%x", d, clip(in1, 160), clip(in2, 80))
			o.Digest = fw.Hash(in1, in2)
			callTolerant(&o, in1, in2)
			return
		}
		o.Tag("random")
		in1 := rbytes(r, r.Intn(4097))
		in2 := rbytes(r, r.Intn(4097))
		if r.Intn(2) == 0 { // a valid prefix followed by noise reaches the optional-IE walk
			cut := 7 + 6 + 5 + 2 + qos + 7
			if cut < len(nasPdu) {
				in1 = append(append([]byte(nil), nasPdu[:cut]...), rbytes(r, r.Intn(64))...)
				// keep the container length consistent with what is there
				binary.BigEndian.PutUint16(in1[7+4:], uint16(len(in1)-7-6))
			}
		}
		o.Input = fmt.Sprintf("nas=%x transfer=%x", clip(in1, 120), clip(in2, 120))
		o.Digest = fw.Hash(in1, in2)
		callTolerant(&o, in1, in2)
	}
	return
}

// aimedLengthAccept: an Accept-shaped message without PDU address whose optional part is a chain of well-delimited
// elements followed by one element whose declared length is aimed at a modular wrap of the walker's position
// (2^16 or 2^8 arithmetic) back onto an offset it has already visited - or just beyond every boundary of that
// arithmetic. A walker that terminates on every input must also terminate here; whether it returns or panics is free.
func aimedLengthAccept(r *rand.Rand) ([]byte, string) {
	q := pick(r, 0, 1, 9, 255, 256, 300, r.Intn(600))
	sm := []byte{0x2e, byte(r.Intn(256)), byte(r.Intn(256)), 0xc2, 0x11, byte(q >> 8), byte(q)}
	sm = append(sm, rbytes(r, q)...)
	sm = append(sm, 0x06)
	sm = append(sm, rbytes(r, 6)...)
	starts := []int{0, 5, 7 + q, len(sm)}
	tv := []byte{0x59, 0x56}
	tlv := []byte{0x22, 0x25, 0x17, 0x66}
	tlve := []byte{0x75, 0x78, 0x79, 0x7b, 0x77}
	for i, k := 0, r.Intn(5); i < k; i++ {
		starts = append(starts, len(sm))
		switch r.Intn(4) {
		case 0:
			sm = append(sm, tv[r.Intn(len(tv))], byte(r.Intn(256)))
		case 1:
			sm = append(sm, 0x80|byte(r.Intn(16)))
		case 2:
			n := r.Intn(12)
			sm = append(sm, tlv[r.Intn(len(tlv))], byte(n))
			sm = append(sm, fillNo29(r, n)...)
		default:
			n := r.Intn(40)
			sm = append(sm, tlve[r.Intn(len(tlve))], byte(n>>8), byte(n))
			sm = append(sm, fillNo29(r, n)...)
		}
	}
	pc := len(sm)
	target := starts[r.Intn(len(starts))]
	if r.Intn(3) == 0 {
		target = r.Intn(pc + 1)
	}
	slack := pick(r, 0, 0, 0, 1, -1, 2, -2, 3, -3)
	var desc string
	if r.Intn(4) != 0 {
		l := (target - pc - 3 + slack) & 0xffff
		if r.Intn(6) == 0 {
			l = pick(r, 0xffff, 0xfffe, 0xfffd, 0xfffc, 0x8000, 0x7fff, 0xff00, 0xfeff)
		}
		sm = append(sm, tlve[r.Intn(len(tlve))], byte(l>>8), byte(l))
		desc = fmt.Sprintf("qos=%d chain of %d elements, then a 2-octet-length element at offset %d declaring %d octets (position+3+length = %d mod 2^16, an offset already visited)", q, len(starts)-4, pc, l, (pc+3+l)&0xffff)
	} else {
		l := (target - pc - 2 + slack) & 0xff
		sm = append(sm, tlv[r.Intn(len(tlv))], byte(l))
		desc = fmt.Sprintf("qos=%d chain of %d elements, then a 1-octet-length element at offset %d declaring %d octets (position+2+length = %d mod 2^8)", q, len(starts)-4, pc, l, (pc+2+l)&0xff)
	}
	sm = append(sm, fillNo29(r, r.Intn(9))...)
	mm := []byte{0x7e, 0x00, 0x68, 0x01, byte(len(sm) >> 8), byte(len(sm))}
	mm = append(mm, sm...)
	out := append([]byte{0x7e, 0x02, 0, 0, 0, 0, byte(r.Intn(256))}, mm...)
	return out, desc
}

// fillNo29: filler octets that are not the PDU address IEI (the walk must not end by accident).
func fillNo29(r *rand.Rand, n int) []byte {
	b := rbytes(r, n)
	for i := range b {
		if b[i] == 0x29 {
			b[i] = 0x2a
		}
	}
	return b
}

// callTolerant: on arbitrary input the functions may panic (that terminates); a spin is caught by the stall monitor.
func callTolerant(o *fw.Outcome, nasIn, trIn []byte) {
	func() {
		defer func() {
			if recover() != nil {
				o.Count("panics_on_arbitrary_input", 1)
			}
		}()
		stgutg.DecodePDUSessionNASPDU(nasIn)
	}()
	func() {
		defer func() {
			if recover() != nil {
				o.Count("panics_on_arbitrary_input", 1)
			}
		}()
		stgutg.DecodePDUSessionResourceSetupRequestTransfer(trIn)
	}()
	o.Count("arbitrary_inputs", 2)
	_ = bytes.Equal
}
