package checks

import (
	"fmt"
	"strings"
	"time"

	"vh/fw"
	"vh/procdrv"
	"vh/ref/per"
	"vh/ref/sec"
	"vh/refamf"
)

// C02 — session lifecycle for N UEs. Two drivers: (a) the unmodified emulator process in test mode with a vector of
// repetition counts against the reference AMF/SMF (trace specification online, exactly-once / ordering / identity /
// PSI / COUNT checks over the recorded history at the end); (b) the procedure driver (child process calling the
// exported procedures directly) to compare what EstablishPDU RETURNS with what the network assigned.
func init() {
	fw.Register(&fw.Check{
		ID:    "C02",
		Level: "exploration",
		Rule: "idx%4==0: emulator process in test mode with a count vector (reg,pdu,svc,rel,dereg) from a fixed list that contains every 'count larger than its prerequisite' pattern (reg <= 3 quick, <= 6 thorough) x generated configuration x AMF/SMF choices " +
			"(UE IPv4 incl. x.x.x.0, TEID corners, UPF address, AMF-UE-NGAP-IDs, QoS rule length 0..1200, optional Accept IEs, session AMBR); otherwise: procedure driver with 1..3 (quick) / 1..8 (thorough) UEs, register + establish (+ release/deregister for a quarter of them), " +
			"returned (UE IP, TEID, UPF) and UE context (AMF-UE-NGAP-ID, uplink COUNT, K_NASint) compared with the network's view. One case per run uses an IMSI whose last four digits exceed 255 (own finding key). distinct = hash(configuration, choices, vector); all non-trivial",
		Assumptions: []string{
			"the AMF answers every request immediately; it does not insist that the release response follows its command (the emulator's release is fire-and-forget)",
			"main sweep: last four IMSI digits + population <= 255, because the emulator derives the PDU session identity from them",
			"observations (not verdicts): PDU session identity outside 1..15, service request in an InitialUEMessage that re-uses a live RAN-UE-NGAP-ID, constant ngKSI in the deregistration request",
		},
		N: func(t string) int {
			if t == "thorough" {
				return 2560
			}
			return 64
		},
		InProcess: true,
		Workers:   func(string) int { return 32 },
		Init: func() error {
			if err := per.SelfTest(); err != nil {
				return err
			}
			return sec.SelfTest()
		},
		Run: runC02,
	})
}

var c02VectorsQuick = [][5]int{
	{1, 1, 1, 1, 1}, {3, 3, 3, 3, 3}, {2, 5, 1, 9, 0}, {3, 0, 4, 2, 3}, {0, 2, 2, 2, 2}, {1, 1, 0, 1, 1}, {2, 2, 2, 0, 2}, {2, 1, 2, 2, 2},
	{3, 2, 1, 0, 3}, {1, 9, 9, 9, 9}, {2, 2, 0, 2, 0}, {3, 3, 0, 0, 0}, {1, 0, 0, 0, 1}, {2, 1, 1, 1, 1}, {3, 1, 3, 3, 1}, {2, 2, 2, 2, 1},
}

func c02Vector(c *fw.Case) [5]int {
	j := c.Idx / 4
	if j < len(c02VectorsQuick) {
		return c02VectorsQuick[j]
	}
	r := c.R
	maxReg := 6
	v := [5]int{r.Intn(maxReg + 1), r.Intn(10), r.Intn(10), r.Intn(10), r.Intn(10)}
	if r.Intn(3) == 0 {
		v[0] = 1 + r.Intn(3)
	}
	return v
}

func runC02(c *fw.Case) (o fw.Outcome) {
	if c.Idx%4 != 0 {
		return c02Proc(c)
	}
	r := c.R
	cfg := genEmuConfig(r)
	v := c02Vector(c)
	cfg.Reg, cfg.Pdu, cfg.Svc, cfg.Rel, cfg.Dereg = v[0], v[1], v[2], v[3], v[4]
	overflow := c.Idx == 4*7 // one case per run: PSI derived from an IMSI tail above 255
	if overflow {
		cfg.IMSI = cfg.IMSI[:len(cfg.IMSI)-4] + fmt.Sprintf("%04d", 256+r.Intn(9700))
		if cfg.Reg == 0 || cfg.Pdu == 0 {
			cfg.Reg, cfg.Pdu = 1, 1
		}
	}
	ch := genChoices(r, cfg.Reg)
	if c.Idx%32 == 20 && !overflow && cfg.Reg > 0 {
		// identifiers that are ZERO together: the IMSI ends in 0000 (the RAN-UE-NGAP-ID the emulator derives is 0) and the AMF
		// assigns AMF-UE-NGAP-ID 0 - both legal values, not "unset"
		cfg.IMSI = cfg.IMSI[:len(cfg.IMSI)-4] + "0000"
		ch.AmfIDs[0] = 0
		for i := 1; i < len(ch.AmfIDs); i++ {
			if ch.AmfIDs[i] == 0 {
				ch.AmfIDs[i] = int64(1000 + i)
			}
		}
		o.Tag("both-ngap-ids-zero")
	}
	// one run in eight: the SMF REFUSES the session of one UE (a legal answer). That UE has not completed establishment:
	// whether the emulator stops there or carries on, it must not start a service request or a release for it. Exit
	// status and banner are not judged in these runs, only what reaches the AMF afterwards.
	reject := c.Idx%32 == 12 && !overflow
	if reject {
		if cfg.Reg == 0 || cfg.Pdu == 0 {
			cfg.Reg, cfg.Pdu = 1+r.Intn(3), 1+r.Intn(3)
			ch = genChoices(r, cfg.Reg)
		}
		if cfg.Svc+cfg.Rel == 0 {
			cfg.Svc, cfg.Rel = 1+r.Intn(3), 1+r.Intn(3)
		}
		n := cfg.Reg
		if cfg.Pdu < n {
			n = cfg.Pdu
		}
		ch.RejectSessionOf = 1 + r.Intn(n)
		o.Tag("smf-rejects-one-session")
	}
	sp := procdrv.Spec{Cfg: cfg, Choices: ch, Fault: refamf.Fault{At: -1}, Args: []string{"-t"}, Watchdog: 30*time.Second + 8*nominalDuration(cfg), Strace: c.Idx%32 == 0}
	if reject {
		sp.Watchdog = 20*time.Second + 2*nominalDuration(cfg)
	}
	res := procdrv.Run(workDir(), emuPath(), sp)
	if reject {
		o.Input = fmt.Sprintf("vector(reg,pdu,svc,rel,dereg)=%v, the SMF rejects the session of UE %d; config=%s", [5]int{cfg.Reg, cfg.Pdu, cfg.Svc, cfg.Rel, cfg.Dereg}, ch.RejectSessionOf-1, cfgSummary(cfg))
		o.Digest, o.Nontrivial = fw.HashS(o.Input), true
		if res.Err != nil {
			o.Inconcl("could not run the emulator: %v", res.Err)
			return
		}
		if res.AMF.Rejected == 0 {
			o.Inconcl("the run ended before the establishment request of UE %d", ch.RejectSessionOf-1)
			return
		}
		o.Count("sessions_rejected_by_choice", int64(res.AMF.Rejected))
		if len(res.AMF.Violations) > 0 {
			vv := res.AMF.Violations[0]
			o.Fail(vv.Key, "after the SMF rejected the session of UE %d: %s\n conversation:%s\n emulator stdout tail: %s", ch.RejectSessionOf-1, vv.Msg, conversationSummary(res.AMF, 60), tail(res.Stdout, 300))
		}
		return
	}
	o.Input = fmt.Sprintf("vector(reg,pdu,svc,rel,dereg)=%v config=%s amf_ids=%v ueip=%v upf=%v teid=%#x qos=%d accept_opts=%04b", v, cfgSummary(cfg), ch.AmfIDs, ch.UEIPBase, ch.UPF, ch.TEIDBase, ch.QosRulesLen, ch.AcceptOptMask)
	o.Digest = fw.HashS(o.Input)
	o.Nontrivial = true
	o.Tag(fmt.Sprintf("vector=%v", v))
	judgeRun(&o, res, true)
	if overflow {
		o.Tag("psi-from-supi-overflow-probe")
		// narrow predicate of the recorded finding: the AMF accepted everything up to the establishment request and the
		// emulator died with its own "Error establishing PDU" (the NGAP builder refusing the out-of-range identity)
		if o.Failed() && o.Key == "emulator-failed" && res.ExitCode == 1 && strings.Contains(res.Stdout, "Error establishing PDU") {
			o.Key = "psi-from-supi-overflow"
			o.Msg = fmt.Sprintf("IMSI %s: the PDU session identity is derived as SUPI mod 10^4 = %s, which does not fit the 8-bit NAS field / the NGAP range 0..255: %s", cfg.IMSI, cfg.IMSI[len(cfg.IMSI)-4:], o.Msg)
		}
		return
	}
	if o.Failed() || o.Verdict == fw.Inconclusive {
		return
	}
	res.AMF.FinalChecks()
	if len(res.AMF.Violations) > 0 {
		vv := res.AMF.Violations[0]
		o.Fail(vv.Key, "history check at the end of the run: %s\n UEs: %v\n conversation:%s", vv.Msg, res.AMF.UEs(), conversationSummary(res.AMF, 80))
		return
	}
	exp := refamf.ExpectedProcedures(cfg.AMFConfig())
	for name, per := range exp {
		for _, n := range per {
			o.Count("procedures_"+name, int64(n))
		}
	}
	o.Count("sessions_established", int64(len(res.AMF.Sessions)))
	if res.Recvmsgs >= 0 {
		o.Count("strace_runs", 1)
		o.Count("strace_downlink_sent", int64(res.AMF.DLSent))
		o.Count("strace_emulator_reads", int64(res.Recvmsgs))
	}
	o.Input += " UEs=" + strings.Join(res.AMF.UEs(), "; ") + " conversation:" + conversationSummary(res.AMF, 24)
	return
}

func c02Proc(c *fw.Case) (o fw.Outcome) {
	r := c.R
	cfg := genEmuConfig(r)
	n := 1 + r.Intn(3)
	if c.Thorough() && r.Intn(3) == 0 {
		n = 4 + r.Intn(5)
	}
	sp := ProcSpec{Cfg: cfg, ChoiceSeed: r.Int63(), NUE: n, Establish: true, FaultAt: -1}
	if c.Idx%16 == 5 {
		sp.Release, sp.Deregister = true, true // 1.6 s of sleeps per UE inside these procedures
		sp.NUE = 1 + r.Intn(2)
	}
	cfg.Reg, cfg.Pdu = sp.NUE, sp.NUE
	sp.Cfg = cfg
	o.Input = fmt.Sprintf("procedure driver: %d UE(s) register+establish release=%v deregister=%v config=%s choice_seed=%d", sp.NUE, sp.Release, sp.Deregister, cfgSummary(cfg), sp.ChoiceSeed)
	o.Digest = fw.HashS(o.Input)
	o.Nontrivial = true
	o.Tag("procedure-driver", fmt.Sprintf("N=%d", sp.NUE))
	pr, code, raw, timedOut := runProcChild(sp, 60*time.Second+time.Duration(sp.NUE)*5*time.Second)
	if timedOut {
		o.Inconcl("procedure driver child exceeded its watchdog")
		return
	}
	if pr != nil && pr.Stuck {
		o.Fail("procedure-stuck", "the network answered every message and has been silent for 25 s, yet the procedure has not returned\n conversation:%s", pr.Conversation)
		return
	}
	if pr == nil {
		o.Fail("procedure-failed", "a procedure ended the process (exit %d) although the network behaved conformantly: %s", code, tail(raw, 600))
		return
	}
	for k, nn := range pr.Observ {
		o.Count("observation:"+k, int64(nn))
	}
	if len(pr.Violations) > 0 {
		v := pr.Violations[0]
		o.Fail(v.Key, "reference AMF rejects message %d: %s\n conversation:%s", v.Event, v.Msg, pr.Conversation)
		return
	}
	if len(pr.Sessions) != sp.NUE || len(pr.UEs) != sp.NUE {
		o.Fail("session-count", "%d sessions at the SMF, %d UEs driven, %d expected", len(pr.Sessions), len(pr.UEs), sp.NUE)
		return
	}
	for i, u := range pr.UEs {
		s := pr.Sessions[i]
		if u.GotIP != s.UEIP.String() || u.GotTEID != s.TEID || u.GotUPF != s.UPF.String() {
			o.Fail("reported-session-values", "UE %d: EstablishPDU reports UE address %s, TEID %#x, UPF %s; the network assigned %s, %#x, %s", i, u.GotIP, u.GotTEID, u.GotUPF, s.UEIP, s.TEID, s.UPF)
			return
		}
		o.Count("returned_triples_compared", 1)
		wantCount := uint32(3) // Security Mode Complete (0), Registration Complete (1), establishment request (2)
		if sp.Release {
			wantCount += 2
		}
		if sp.Deregister {
			wantCount++
		}
		if u.ULCount != wantCount {
			o.Fail("ul-count-after", "UE %d: uplink COUNT %d after the procedures, %d protected messages were sent", i, u.ULCount, wantCount)
			return
		}
	}
	o.Count("uplink_messages", int64(pr.Uplink))
	o.Input += " conversation:" + clipS(pr.Conversation, 700)
	return
}
